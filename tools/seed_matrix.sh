#!/bin/bash
# usage: tools/seed_matrix.sh [ids...]  -- applies every kept seeded change to /repo, runs the check of the property it breaks
# (quick tier, no evidence), reverts, and records the outcome in seeded/<id>/meta.json ("detected_by").
cd "$(dirname "$0")/.."
IDS=${@:-$(ls seeded)}
for id in $IDS; do
  P=seeded/$id/patch.diff
  [ -f $P ] || continue
  cd /repo
  if [ -n "$(git status --porcelain --untracked-files=no)" ]; then echo "/repo not clean"; exit 9; fi
  git apply /verif/$P || { echo "$id: patch does not apply"; cd /verif; continue; }
  cd /verif
  CHECKS=${id:0:3}
  [ $id = C14 ] && CHECKS="C14 C15"
  [ $id = C09 ] && CHECKS="C09 C07"
  RES=""
  for c in $CHECKS; do
    ./check $c --no-evidence > /tmp/seedrun_${id}_$c.log 2>&1
    rc=$?
    RES="$RES $c:rc=$rc"
  done
  git -C /repo checkout -- .
  echo "$id ->$RES"
  /venv/bin/python - "$id" "$RES" <<'PY'
import json, sys
sid, res = sys.argv[1], sys.argv[2].split()
p = '/verif/seeded/%s/meta.json' % sid
m = json.load(open(p))
m['detected_by'] = {r.split(':')[0]: ('VIOLATION reported (exit 1)' if r.endswith('rc=1') else 'not detected (exit %s)' % r.split('=')[1]) for r in res}
m['detection_cmd'] = 'git -C /repo apply seeded/%s/patch.diff; ./check <ID> --tier quick; git -C /repo checkout -- .' % sid
json.dump(m, open(p, 'w'), indent=1)
PY
done
