"""CrossHair harness for C16: utils.canonicalize_* (cut out of /repo with ast) on symbolic integers: 'raises ValueError iff the
reference invalidity predicate holds', and valid inputs map to the documented canonical value."""
import ast
import os
from typing import List, Optional

REPO = os.environ.get('VERIF_REPO', '/repo')
_SRC = os.path.join(REPO, 'tensorflow_lattice/python/utils.py')


def _load():
  import six
  tree = ast.parse(open(_SRC).read())
  keep = [n for n in tree.body if isinstance(n, ast.FunctionDef) and n.name.startswith('canonicalize_')]
  ns = {'six': six}
  exec(compile(ast.Module(body=keep, type_ignores=[]), _SRC, 'exec'), ns)
  return ns


_U = _load()


def _raises(f, *a, **k):
  try:
    f(*a, **k)
    return False
  except ValueError:
    return True


def check_monotonicity(m: int, allow_decreasing: bool) -> bool:
  """
  pre: -3 <= m <= 3
  post: _
  """
  valid = m in (0, 1) or (m == -1 and allow_decreasing)
  r = _raises(_U['canonicalize_monotonicity'], m, allow_decreasing=allow_decreasing)
  return r == (not valid) and (not valid or _U['canonicalize_monotonicity'](m, allow_decreasing=allow_decreasing) == m)


def check_monotonicities(ms: List[int]) -> bool:
  """
  pre: 1 <= len(ms) <= 3 and all(-2 <= m <= 2 for m in ms)
  post: _
  """
  valid = all(m in (-1, 0, 1) for m in ms)
  r = _raises(_U['canonicalize_monotonicities'], ms)
  return r == (not valid) and (not valid or _U['canonicalize_monotonicities'](ms) == ms)


def check_convexity(c: int) -> bool:
  """
  pre: -3 <= c <= 3
  post: _
  """
  valid = c in (-1, 0, 1)
  r = _raises(_U['canonicalize_convexity'], c)
  return r == (not valid) and (not valid or _U['canonicalize_convexity'](c) == c)


def check_unimodalities(us: List[int]) -> bool:
  """
  pre: 1 <= len(us) <= 3 and all(-2 <= u <= 2 for u in us)
  post: _
  """
  valid = all(u in (-1, 0, 1) for u in us)
  r = _raises(_U['canonicalize_unimodalities'], us)
  return r == (not valid) and (not valid or _U['canonicalize_unimodalities'](us) == us)


def check_trust(a: int, b: int, d: int, n: int) -> bool:
  """
  pre: -2 <= d <= 2 and 2 <= n <= 4 and 0 <= a < 3 and 0 <= b < 3
  post: _
  """
  trust = (a, b, d) if n == 3 else ((a, b) if n == 2 else (a, b, d, 0))
  valid = n == 3 and d in (-1, 1)
  r = _raises(_U['canonicalize_trust'], [trust])
  return r == (not valid) and (not valid or _U['canonicalize_trust']([trust]) == [trust])


def check_words() -> bool:
  """
  post: _
  """
  u = _U
  return (u['canonicalize_monotonicity']('Increasing') == 1 and u['canonicalize_monotonicity']('decreasing') == -1 and
          u['canonicalize_monotonicity']('none') == 0 and u['canonicalize_convexity']('convex') == 1 and
          u['canonicalize_convexity']('concave') == -1 and u['canonicalize_unimodalities'](['peak', 'valley', 'none']) == [-1, 1, 0] and
          u['canonicalize_trust']([(0, 1, 'positive'), (0, 2, 'negative')]) == [(0, 1, 1), (0, 2, -1)] and
          u['canonicalize_input_bounds'](['none', None, 1.0]) == [None, None, 1.0] and
          _raises(u['canonicalize_monotonicity'], 'up') and _raises(u['canonicalize_trust'], [(0, 1, 'up')]))


CHECKS = ['check_monotonicity', 'check_monotonicities', 'check_convexity', 'check_unimodalities', 'check_trust', 'check_words']
