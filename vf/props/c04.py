"""C04 - PWLCalibration weight constraint returns keypoint outputs meeting all its limits."""
import itertools
import json
from fractions import Fraction

import numpy as np
import z3

from vf import sym, specs, core
from vf.core import Case, Traced

PROP = 'C04'

META = dict(
    level='model_checking',
    technique='symbolic execution of the traced TF graph of PWLCalibrationConstraints.__call__ '
              '(project_all_constraints: single step or Dykstra while-loop unrolled exactly, then _finalize_constraints); '
              'z3 over rational-function terms',
    bounds=dict(
        quick='2-4 keypoints, spacings uniform and (1,2,1/2), units 1-2, iterations 1,2 (and the default 8 for '
              'linear cases), every monotonicity/convexity/bound/clamp combination the constructor accepts; all real kernels',
        thorough='adds 5-6 keypoints, a third spacing, iterations 4 and 8 everywhere, VERIF_SEED dyadic bounds'),
    outside=['IEEE-754 rounding/overflow', 'keypoint counts beyond the bounds',
             'convexity residual when convexity+bounds without monotonicity (documented relaxation)',
             'clamp equality when clamp+convexity (tolerated relaxation)'],
    assumptions=['TF op semantics as in vf/interp.py (validated against TensorFlow per case)', 'z3 is sound'],
)

SPACINGS = {'u': None, 'a': [1.0, 2.0, 0.5, 1.5, 0.25]}


def _lengths(nk, spacing):
  if spacing == 'u':
    return [1.0] * (nk - 1)
  if spacing == 'b':
    return [0.5, 0.25, 2.0, 1.0, 4.0][:nk - 1]
  return SPACINGS['a'][:nk - 1]


def _mk(p):
  import tensorflow as tf
  from tensorflow_lattice.python import pwl_calibration_layer as PL, pwl_calibration_lib as pl
  omin, omax, cmin, cmax = pl.convert_all_constraints(p['omin'], p['omax'], p['clamp_min'], p['clamp_max'])
  lengths = tf.constant(_lengths(p['nk'], p['spacing']), dtype=tf.float32)
  return PL.PWLCalibrationConstraints(
      monotonicity=p['mono'], convexity=p['conv'], lengths=lengths, output_min=p['omin'], output_max=p['omax'],
      output_min_constraints=cmin, output_max_constraints=cmax, num_projection_iterations=p['iters'])


def pwl_cons(kernel, p):
  """Reference constraints on a PWL kernel (rows: bias, heights), per unit."""
  K = np.asarray(kernel, dtype=object)
  nk, units = K.shape
  L = [Fraction(x) for x in _lengths(nk, p['spacing'])]
  cons = []
  for u in range(units):
    outs = specs.pwl_outputs(K[:, u])
    h = [K[i, u] for i in range(1, nk)]
    if p['mono']:
      for i, hi in enumerate(h):
        cons.append(('monotonicity', (i, u), sym.s_mul(hi, p['mono'])))
    for i, o in enumerate(outs):
      if p['omin'] is not None:
        cons.append(('output_min', (i, u), sym.s_sub(o, Fraction(p['omin']))))
      if p['omax'] is not None:
        cons.append(('output_max', (i, u), sym.s_sub(Fraction(p['omax']), o)))
    if p['conv']:
      for i in range(1, len(h)):
        # slope_i >= slope_{i-1} (convex): h[i]/L[i] >= h[i-1]/L[i-1]
        cons.append(('convexity', (i, u), sym.s_mul(sym.s_sub(sym.s_mul(h[i], L[i - 1]), sym.s_mul(h[i - 1], L[i])), p['conv'])))
    if p['mono']:
      lo, hi_ = (outs[0], outs[-1]) if p['mono'] == 1 else (outs[-1], outs[0])
      if p['clamp_min'] and p['omin'] is not None:
        d = sym.s_sub(lo, Fraction(p['omin']))
        cons.append(('clamp_min', (u, '+'), d))
        cons.append(('clamp_min', (u, '-'), sym.s_neg(d)))
      if p['clamp_max'] and p['omax'] is not None:
        d = sym.s_sub(hi_, Fraction(p['omax']))
        cons.append(('clamp_max', (u, '+'), d))
        cons.append(('clamp_max', (u, '-'), sym.s_neg(d)))
  return cons


def promised(cons, p):
  """Drop the two tolerated relaxations."""
  out = []
  has_bounds = p['omin'] is not None or p['omax'] is not None
  for c in cons:
    if c[0] == 'convexity' and has_bounds and not p['mono']:
      continue
    if c[0] in ('clamp_min', 'clamp_max') and p['conv']:
      continue
    out.append(c)
  return out


def _sig(p, cons, m, query):
  bad = specs.first_violated(cons, m)
  kinds = sorted(set(k for k, _, _ in bad))
  upper = 'output_max' if p['mono'] == 1 else 'output_min'
  return dict(query=query, kinds=kinds, only=kinds[0] if len(kinds) == 1 else 'several',
              mono_and_convex_with_bounds=bool(p['mono'] and p['conv'] and (p['omin'] is not None or p['omax'] is not None)),
              violated_is_far_bound=(kinds == [upper]),
              multi_step=bool(p['mono'] and (p['conv'] or p['omin'] is not None or p['omax'] is not None)) or bool(p['conv'] and (p['omin'] is not None or p['omax'] is not None)))


def case_pwl(**p):
  import tensorflow as tf
  from tensorflow_lattice.python import pwl_calibration_layer as PL, pwl_calibration_lib as pl
  case = Case(PROP, p['name'], {k: v for k, v in p.items() if k != 'name'})
  case.encoded(PL.PWLCalibrationConstraints.__call__, pl.project_all_constraints, pl._finalize_constraints,
               pl._project_monotonicity, pl._approximately_project_convexity, pl._squeeze_by_scaling,
               pl._approximately_project_bounds_only, pl._project_bounds_considering_monotonicity,
               pl._project_convexity, pl.convert_all_constraints)
  con = _mk(p)
  nk, units = p['nk'], p['units']
  tr = Traced(lambda w: con(w), [tf.TensorSpec([nk, units], tf.float32)], name='PWLCalibrationConstraints')
  rng = np.random.default_rng(p.get('seed', 0))
  done, mism = tr.validate(rng, n=2)
  sym.new_ctx()
  w = sym.symbolic('w', (nk, units))
  (out,) = tr.sym_run(w)
  case.meta.update(validation_points=done, validation_mismatch=mism, ops=tr.ops_seen, nodes=tr.n_nodes,
                   stubs=sym.ctx().stubs)
  cons = promised(pwl_cons(out, p), p)
  den_bad = [z3.Not(sym.defined(x)) for x in out.reshape(-1)]
  replay = dict(fn='pwl', params=p)
  tmo = p.get('timeout', 120)
  if cons or den_bad:
    case.solve('feasible', core.any_of(specs.violated(cons) + den_bad), witness=dict(w=w), timeout=tmo,
               robust=core.robust_cons(cons, [w], extra_bad=den_bad),
               sig=lambda m: _sig(p, cons, m, 'feasible'), replay=replay, required=p.get('required', True))
    cin = promised(pwl_cons(w, p), p)
    if cin:
      case.solve('twin:input-can-violate', core.any_of(specs.violated(cin)), expect='sat', kind='twin', timeout=30)
  allc = pwl_cons(w, p)
  out_c = core.concretise_dens(out, specs.holds(allc))
  case.solve('unchanged-if-feasible', core.neq_arrays(out_c, w), assumptions=specs.holds(allc), witness=dict(w=w),
             robust=core.robust_neq(out_c, w, [w]),
             timeout=tmo, sig=lambda m: dict(query='unchanged', only='unchanged'), replay=replay,
             required=p.get('required', True))
  case.solve('twin:feasible-set-nonempty', z3.BoolVal(True), assumptions=specs.holds(allc), expect='sat', kind='twin',
             timeout=30)
  return case


def case_missing(**p):
  """NaiveBoundsConstraints keeps the imputed missing output inside the bounds (real layer object)."""
  import tensorflow as tf
  from tensorflow_lattice.python import pwl_calibration_layer as PL
  case = Case(PROP, p['name'], {k: v for k, v in p.items() if k != 'name'})
  layer = PL.PWLCalibration(input_keypoints=[0.0, 1.0, 3.0], units=p['units'], output_min=p['omin'], output_max=p['omax'],
                            impute_missing=True, missing_input_value=-1.0)
  layer.build([None, p['units']])
  con = layer.missing_output.constraint
  case.encoded(PL.NaiveBoundsConstraints.__call__, PL.PWLCalibration.build)
  tr = Traced(lambda w: con(w), [tf.TensorSpec([1, p['units']], tf.float32)], name='NaiveBoundsConstraints')
  done, mism = tr.validate(np.random.default_rng(0), n=2)
  sym.new_ctx()
  w = sym.symbolic('m', (1, p['units']))
  (out,) = tr.sym_run(w)
  case.meta.update(validation_points=done, validation_mismatch=mism, ops=tr.ops_seen)
  bad = []
  for x in out.reshape(-1):
    if p['omin'] is not None:
      bad.append(sym.s_cmp('lt', x, Fraction(p['omin'])))
    if p['omax'] is not None:
      bad.append(sym.s_cmp('gt', x, Fraction(p['omax'])))
  case.solve('missing-output-in-bounds', core.any_of(bad), witness=dict(w=w), timeout=30,
             sig=dict(query='missing', only='missing'), replay=dict(fn='missing', params=p))
  inb = []
  for x in w.reshape(-1):
    if p['omin'] is not None:
      inb.append(x >= Fraction(p['omin']))
    if p['omax'] is not None:
      inb.append(x <= Fraction(p['omax']))
  case.solve('missing-unchanged-if-feasible', core.neq_arrays(out, w), assumptions=inb, witness=dict(w=w), timeout=30,
             sig=dict(query='missing-unchanged', only='missing'), replay=dict(fn='missing', params=p))
  return case


def replay(r):
  import tensorflow as tf
  p = r['replay']['params']
  w = core.witness_np(r['witness']['w'])
  res = {}
  reproduced = False
  if r['replay']['fn'] == 'missing':
    from tensorflow_lattice.python import pwl_calibration_layer as PL
    con = PL.NaiveBoundsConstraints(lower_bound=p['omin'], upper_bound=p['omax'])
    out = con(tf.constant(w, dtype=tf.float32)).numpy()
    bad = (p['omin'] is not None and out.min() < p['omin'] - 1e-5) or (p['omax'] is not None and out.max() > p['omax'] + 1e-5)
    if r['query'] == 'missing-unchanged-if-feasible':
      bad = float(np.max(np.abs(out - w))) > 1e-5
    return dict(reproduced=bool(bad), detail=dict(out=out.tolist()))
  con = _mk(p)
  for dt in (tf.float32,):
    out = con(tf.constant(w, dtype=dt)).numpy().astype(np.float64)
    scale = max(1.0, float(np.max(np.abs(w))))
    tol = 1e-4 * scale
    if r['query'] == 'feasible':
      cons = promised(pwl_cons(sym.obj(out), p), p)
      if not np.all(np.isfinite(out)):
        worst = ('non-finite', None, float('nan'))
        bad = True
      else:
        vals = [(c[0], str(c[1]), float(c[2])) for c in cons]
        worst = min(vals, key=lambda t: t[2])
        bad = worst[2] < -tol
      res[dt.name] = dict(worst=worst, violated=bad, out=out.tolist())
    else:
      allc = pwl_cons(sym.obj(w), p)
      feasible_in = all(float(c[2]) >= 0 for c in allc)
      diff = float(np.max(np.abs(out - w)))
      bad = feasible_in and diff > tol
      res[dt.name] = dict(input_feasible=feasible_in, max_abs_change=diff, violated=bad)
    reproduced = reproduced or bad
  return dict(reproduced=reproduced, detail=res, kernel=w.tolist())


def _name(p):
  return 'k%d%s-u%d-m%d-c%d-b%s,%s-cl%d%d-i%d' % (p['nk'], p['spacing'], p['units'], p['mono'], p['conv'], p['omin'],
                                                  p['omax'], int(p['clamp_min']), int(p['clamp_max']), p['iters'])


def _accepts(p):
  # clamping needs monotonicity (ValueError otherwise - that is C16's business)
  if (p['clamp_min'] or p['clamp_max']) and not p['mono']:
    return False
  if p['clamp_min'] and p['omin'] is None:
    return False
  if p['clamp_max'] and p['omax'] is None:
    return False
  if p['conv'] and p['nk'] < 3:
    return False
  return True


def cases(tier, seed):
  out = []
  seen = set()

  def add(cap=300, required=True, **p):
    p['name'] = _name(p)
    if p['name'] in seen or not _accepts(p):
      return
    seen.add(p['name'])
    p['required'] = required
    out.append(dict(name=p['name'], fn='case_pwl', params=p, cap=cap, required=required))

  bounds = [(None, None), (0.0, None), (None, 1.0), (0.0, 1.0), (-1.0, 2.5)]
  clamps = [(False, False), (True, False), (False, True), (True, True)]
  for mono in (1, -1, 0):
    for conv in (0, 1, -1):
      for (omin, omax) in bounds:
        for (cmin, cmax) in clamps:
          for nk, spacing, units in ((3, 'a', 2), (4, 'u', 1), (2, 'a', 2)):
            nonlinear = bool(mono and conv and (omin is not None or omax is not None))
            for iters in ((1, 2) if nonlinear else (1, 2, 8)):
              if nk == 2 and iters != 1:
                continue
              if (cmin or cmax) and nk == 4 and iters == 8:
                continue
              add(nk=nk, spacing=spacing, units=units, mono=mono, conv=conv, omin=omin, omax=omax, clamp_min=cmin,
                  clamp_max=cmax, iters=iters, required=not (nonlinear and iters > 1), cap=200 if nonlinear else 300,
                  timeout=60 if nonlinear else 120)
  for i, b in enumerate(bounds[1:]):
    out.append(dict(name='missing-%d' % i, fn='case_missing', params=dict(name='missing-%d' % i, units=2, omin=b[0], omax=b[1]),
                    cap=120))
  if tier == 'thorough':
    rng = np.random.default_rng(seed)
    for mono in (1, -1, 0):
      for conv in (0, 1, -1):
        for (cmin, cmax) in clamps:
          for nk, spacing, units in ((5, 'b', 1), (6, 'a', 1), (4, 'b', 2), (3, 'u', 3)):
            lo = float(rng.integers(-8, 8)) / 4
            hi = lo + float(rng.integers(1, 16)) / 4
            for (omin, omax) in ((lo, hi), (lo, None), (None, hi), (None, None)):
              nonlinear = bool(mono and conv and (omin is not None or omax is not None))
              for iters in (4, 8):
                add(nk=nk, spacing=spacing, units=units, mono=mono, conv=conv, omin=omin, omax=omax, clamp_min=cmin,
                    clamp_max=cmax, iters=iters, required=False, cap=900, timeout=300 if nonlinear else 600)
  return out
