"""C16 - Configurations are either rejected up front or handled totally and finitely."""
import itertools
import json
import os
import subprocess
import sys
import time
from fractions import Fraction

import numpy as np
import z3

from vf import sym, specs, core
from vf.core import Case, Traced

PROP = 'C16'
ROOT = os.path.dirname(os.path.dirname(os.path.dirname(os.path.abspath(__file__))))

META = dict(
    level='model_checking',
    technique='(1) the cross product of constructor arguments over small domains is executed on the real constructors/build: '
              'ValueError = rejected, any other exception = violation; a table of must-reject situations is checked against it, and a table of must-accept situations (valid layers built from every '
              'usual spelling of the input shape) must build and evaluate finitely. '
              '(2) for every ACCEPTED configuration the weight constraint and the forward pass are traced and executed '
              'symbolically; every division keeps its denominator (fraction lifting) and z3 decides that no output element can be '
              'undefined (zero denominator, root/log out of domain) for any finite weights and inputs. (3) synonymous spellings: '
              'both traced, outputs proven equal. (4) CrossHair on utils.canonicalize_* with symbolic integers',
    bounds=dict(quick='Lattice 2x2 / 3x2, PWLCalibration 3 keypoints, Linear 2-3 inputs, CategoricalCalibration 3 buckets, KFL 2x2, '
                      'CDF; argument domains incl. equal bounds, zero input ranges, conflicting options, cyclic orderings',
                thorough='adds Lattice 2x2x2 trusts, PWL 4 keypoints convexity, premade config cross product'),
    outside=['IEEE-754 overflow', 'argument values outside the enumerated domains'],
    assumptions=['TF op semantics per vf/interp.py', 'z3 is sound', 'CrossHair is sound on the canonicalize_* helpers'],
)


# ---------------------------------------------------------------- (1) must-reject table
def _reject_table():
  import tensorflow as tf
  import tensorflow_lattice as tfl
  L = tfl.layers
  C = tfl.configs

  def build(layer, shape):
    layer.build(tf.TensorShape(shape))
    return layer
  kp = [0.0, 1.0, 2.0]
  fc = lambda **kw: C.FeatureConfig(name=kw.pop('name', 'a'), pwl_calibration_input_keypoints=kp, **kw)
  T = [
      ('lattice size < 2', lambda: L.Lattice(lattice_sizes=[2, 1])),
      ('monotone and unimodal dimension', lambda: L.Lattice(lattice_sizes=[3, 3], monotonicities=[1, 0], unimodalities=[1, 0])),
      ('unimodal dimension of size 2', lambda: L.Lattice(lattice_sizes=[2, 3], unimodalities=[1, 0])),
      ('edgeworth trust on non-monotone main', lambda: build(L.Lattice(lattice_sizes=[2, 2], monotonicities=[0, 1], edgeworth_trusts=(0, 1, 1)), [None, 2])),
      ('trapezoid trust on non-monotone main', lambda: build(L.Lattice(lattice_sizes=[2, 2], monotonicities=[0, 0], trapezoid_trusts=[(0, 1, 1)]), [None, 2])),
      ('trust of a feature with itself (edgeworth)', lambda: build(L.Lattice(lattice_sizes=[3, 4], monotonicities=[1, 1], edgeworth_trusts=[(0, 0, 1)]), [None, 2])),
      ('trust of a feature with itself (trapezoid, constraints class)', lambda: __import__('tensorflow_lattice.python.lattice_layer', fromlist=['x']).LatticeConstraints(lattice_sizes=[3, 3], monotonicities=[1, 1], trapezoid_trusts=[(1, 1, 'negative')])),
      ('feature main in an edgeworth and conditional in a trapezoid trust', lambda: build(L.Lattice(lattice_sizes=[2, 2, 2], monotonicities=[1, 1, 1], edgeworth_trusts=[(0, 1, 1)], trapezoid_trusts=[(1, 2, 1)]), [None, 3])),
      ('feature both main and conditional', lambda: build(L.Lattice(lattice_sizes=[2, 2, 2], monotonicities=[1, 1, 1], edgeworth_trusts=[(0, 1, 1), (1, 2, 1)]), [None, 3])),
      ('trusts in opposite directions', lambda: build(L.Lattice(lattice_sizes=[2, 2], monotonicities=[1, 0], edgeworth_trusts=[(0, 1, 1)], trapezoid_trusts=[(0, 1, -1)]), [None, 2])),
      ('monotonic dominance between non-monotone features', lambda: build(L.Lattice(lattice_sizes=[2, 2], monotonicities=[1, 0], monotonic_dominances=[(0, 1)]), [None, 2])),
      ('range dominance between non-monotone features', lambda: build(L.Lattice(lattice_sizes=[2, 2], monotonicities=[0, 0], range_dominances=[(0, 1)]), [None, 2])),
      ('conflicting dominances', lambda: build(L.Lattice(lattice_sizes=[2, 2], monotonicities=[1, 1], monotonic_dominances=[(0, 1), (1, 0)]), [None, 2])),
      ('lattice output_min > output_max', lambda: build(L.Lattice(lattice_sizes=[2, 2], output_min=1.0, output_max=0.0), [None, 2])),
      ('lattice unknown interpolation', lambda: L.Lattice(lattice_sizes=[2, 2], interpolation='cubic')),
      ('lattice wrong input width', lambda: build(L.Lattice(lattice_sizes=[2, 2]), [None, 3])),
      ('lattice monotonicities length mismatch', lambda: L.Lattice(lattice_sizes=[2, 2], monotonicities=[1])),
      ('lattice decreasing monotonicity', lambda: L.Lattice(lattice_sizes=[2, 2], monotonicities=[-1, 0])),
      ('joint unimodality on size-2 dimension', lambda: build(L.Lattice(lattice_sizes=[2, 3], joint_unimodalities=[((0, 1), 'valley')]), [None, 2])),
      ('pwl unsorted keypoints', lambda: L.PWLCalibration(input_keypoints=[0.0, 2.0, 1.0])),
      ('pwl repeated keypoints', lambda: L.PWLCalibration(input_keypoints=[0.0, 1.0, 1.0])),
      ('pwl single keypoint', lambda: L.PWLCalibration(input_keypoints=[0.0])),
      ('pwl cyclic and monotonic', lambda: L.PWLCalibration(input_keypoints=kp, is_cyclic=True, monotonicity='increasing')),
      ('pwl cyclic and convex', lambda: L.PWLCalibration(input_keypoints=kp, is_cyclic=True, convexity='convex')),
      ('pwl output_min > output_max', lambda: L.PWLCalibration(input_keypoints=kp, output_min=1.0, output_max=0.0)),
      ('pwl unknown monotonicity', lambda: L.PWLCalibration(input_keypoints=kp, monotonicity='up')),
      ('pwl unknown keypoints type', lambda: L.PWLCalibration(input_keypoints=kp, input_keypoints_type='learned')),
      ('pwl clamp without monotonicity', lambda: build(L.PWLCalibration(input_keypoints=kp, output_min=0.0, clamp_min=True), [None, 1])),
      ('categorical output_min > output_max', lambda: L.CategoricalCalibration(num_buckets=3, output_min=1.0, output_max=0.0)),
      ('categorical ordering index out of range', lambda: L.CategoricalCalibration(num_buckets=3, monotonicities=[(0, 3)])),
      ('categorical circular ordering', lambda: build(L.CategoricalCalibration(num_buckets=3, monotonicities=[(0, 1), (1, 2), (2, 0)]), [None, 1])),
      ('linear dominance between non-monotone inputs', lambda: build(L.Linear(num_input_dims=2, monotonicities=[0, 1], monotonic_dominances=[(0, 1)]), [None, 2])),
      ('linear range dominance without input range', lambda: build(L.Linear(num_input_dims=2, monotonicities=[1, 1], range_dominances=[(0, 1)]), [None, 2])),
      ('linear input_min > input_max', lambda: build(L.Linear(num_input_dims=2, monotonicities=[1, 0], input_min=[1.0, None], input_max=[0.0, None]), [None, 2])),
      ('linear monotonicities length mismatch', lambda: build(L.Linear(num_input_dims=3, monotonicities=[1, 0]), [None, 3])),
      ('kfl lattice size < 2', lambda: L.KroneckerFactoredLattice(lattice_sizes=1)),
      ('kfl output_min > output_max', lambda: L.KroneckerFactoredLattice(lattice_sizes=2, output_min=1.0, output_max=0.0)),
      ('kfl monotonicities length mismatch', lambda: build(L.KroneckerFactoredLattice(lattice_sizes=2, monotonicities=[1]), [None, 2])),
      ('rtl lattice size < 2', lambda: L.RTL(num_lattices=2, lattice_rank=2, lattice_size=1)),
      ('rtl too few slots', lambda: L.RTL(num_lattices=1, lattice_rank=2)({'unconstrained': tf.zeros([1, 3])})),
      # rtl_lib documents KeyError for unknown dictionary keys: an up-front rejection of a malformed input dict
      ('rtl unknown input key', lambda: L.RTL(num_lattices=2, lattice_rank=2)({'decreasing': tf.zeros([1, 3])}), (ValueError, KeyError)),
      ('cdf sparsity not dividing units', lambda: build(L.CDF(num_keypoints=2, units=3, sparsity_factor=2), [None, 4])),
      ('premade: lattice config with regularizer of unknown name', lambda: tfl.premade.CalibratedLattice(
          C.CalibratedLatticeConfig(feature_configs=[fc(), fc(name='b')], regularizer_configs=[C.RegularizerConfig(name='nonsense', l1=1.0)]))),
      ('premade: feature dominates unknown feature', lambda: tfl.premade.CalibratedLattice(
          C.CalibratedLatticeConfig(feature_configs=[fc(monotonicity='increasing', dominates=[C.DominanceConfig(feature_name='zz')]), fc(name='b')]))),
      ('premade: ensemble lattices not materialised', lambda: tfl.premade.CalibratedLatticeEnsemble(
          C.CalibratedLatticeEnsembleConfig(feature_configs=[fc(), fc(name='b'), fc(name='c')], lattices='random', num_lattices=2, lattice_rank=2))),
      ('premade: ensemble lattice uses unknown feature', lambda: tfl.premade.CalibratedLatticeEnsemble(
          C.CalibratedLatticeEnsembleConfig(feature_configs=[fc(), fc(name='b')], lattices=[['a', 'zz']]))),
      ('premade: keypoints not materialised', lambda: tfl.premade.CalibratedLinear(
          C.CalibratedLinearConfig(feature_configs=[C.FeatureConfig(name='a', pwl_calibration_input_keypoints='quantiles')]))),
  ]
  return T


def case_reject(**p):
  case = Case(PROP, p['name'], {})
  import tensorflow_lattice as tfl
  from tensorflow_lattice.python import lattice_lib, pwl_calibration_lib, linear_lib, categorical_calibration_lib, kronecker_factored_lattice_lib, rtl_lib, premade_lib, internal_utils
  case.encoded(lattice_lib.verify_hyperparameters, pwl_calibration_lib.verify_hyperparameters, linear_lib.verify_hyperparameters,
               categorical_calibration_lib.verify_hyperparameters, kronecker_factored_lattice_lib.verify_hyperparameters,
               rtl_lib.verify_hyperparameters, premade_lib.verify_config, internal_utils._topological_sort)
  for entry in _reject_table():
    label, thunk = entry[0], entry[1]
    allowed = entry[2] if len(entry) > 2 else ValueError
    try:
      thunk()
      verdict, note = 'sat', 'accepted'
    except allowed as e:
      verdict, note = 'unsat', '%s: %s' % (type(e).__name__, str(e)[:80])
    except Exception as e:  # pylint: disable=broad-except
      verdict, note = 'sat', 'raised %s instead of ValueError: %s' % (type(e).__name__, str(e)[:80])
    case.record('must-reject[%s]' % label, verdict, kind='structural', witness={}, replay=dict(fn='reject', label=label),
                sig=dict(query='reject', label=label), note=note)
  return case


def _accept_table():
  """(label, thunk): valid configurations in every usual spelling of the `build` argument (TensorShape, plain tuple, list; for
  RTL also dicts of those and of lists of them); each must build and evaluate to finite numbers on finite inputs"""
  import tensorflow as tf
  import tensorflow_lattice as tfl
  L = tfl.layers
  out = []

  def run(layer, shape, x):
    layer.build(shape)
    o = layer(x)
    os_ = list(o.values()) if isinstance(o, dict) else (list(o) if isinstance(o, (list, tuple)) else [o])
    if not all(bool(np.all(np.isfinite(np.asarray(t)))) for t in os_):
      raise ArithmeticError('non-finite output')
  forms = [('TensorShape', lambda *d: tf.TensorShape([None] + list(d))), ('tuple', lambda *d: (None,) + tuple(d)),
           ('list', lambda *d: [None] + list(d)), ('tuple-batch', lambda *d: (4,) + tuple(d))]
  for fl, mk in forms:
    if fl == 'list':
      # for RTL a Python list is the spelling of *several groups*; a single shape is not written as a list there
      continue
    out.append(('rtl dense %s' % fl, lambda mk=mk: run(L.RTL(num_lattices=3, lattice_rank=2), mk(3), tf.fill([4, 3], 0.5))))
    out.append(('rtl dict %s' % fl, lambda mk=mk: run(L.RTL(num_lattices=2, lattice_rank=3, separate_outputs=True),
                                                      {'unconstrained': mk(2), 'increasing': mk(3)},
                                                      {'unconstrained': tf.fill([4, 2], 0.25), 'increasing': tf.fill([4, 3], 0.75)})))
    out.append(('rtl dict-of-groups %s' % fl, lambda mk=mk: run(L.RTL(num_lattices=3, lattice_rank=2, average_outputs=True),
                                                                {'increasing': [mk(2), mk(1)], 'unconstrained': mk(2)},
                                                                {'increasing': [tf.fill([4, 2], 0.5), tf.fill([4, 1], 0.5)],
                                                                 'unconstrained': tf.fill([4, 2], 0.5)})))
  for fl, mk in forms:
    out.append(('lattice %s' % fl, lambda mk=mk: run(L.Lattice(lattice_sizes=[2, 3], monotonicities=[1, 0]), mk(2), tf.fill([4, 2], 0.5))))
    out.append(('lattice units %s' % fl, lambda mk=mk: run(L.Lattice(lattice_sizes=[2, 2], units=3), mk(3, 2), tf.fill([4, 3, 2], 0.5))))
    out.append(('pwl %s' % fl, lambda mk=mk: run(L.PWLCalibration(input_keypoints=[0.0, 1.0, 2.0], units=2, monotonicity=1), mk(1), tf.fill([4, 1], 0.5))))
    out.append(('linear %s' % fl, lambda mk=mk: run(L.Linear(num_input_dims=3, monotonicities=[1, 0, -1]), mk(3), tf.fill([4, 3], 0.5))))
    out.append(('categorical %s' % fl, lambda mk=mk: run(L.CategoricalCalibration(num_buckets=3, units=2), mk(1), tf.zeros([4, 1], dtype=tf.int32))))
    out.append(('kfl %s' % fl, lambda mk=mk: run(L.KroneckerFactoredLattice(lattice_sizes=2, num_terms=2, monotonicities=[1, 0]), mk(2), tf.fill([4, 2], 0.5))))
    out.append(('cdf %s' % fl, lambda mk=mk: run(L.CDF(num_keypoints=3, units=2), mk(2), tf.fill([4, 2], 0.5))))
  return out


def case_accept(**p):
  """valid configurations, every usual spelling of the shape handed to build(): must build and evaluate finitely (executed)"""
  case = Case(PROP, p['name'], {})
  import tensorflow_lattice as tfl
  from tensorflow_lattice.python import rtl_layer
  case.encoded(rtl_layer.RTL.build, rtl_layer.RTL._get_rtl_structure, rtl_layer.RTL.call)
  for label, thunk in _accept_table():
    try:
      thunk()
      verdict, note = 'unsat', 'built and evaluated'
    except Exception as e:  # pylint: disable=broad-except
      verdict, note = 'sat', '%s: %s' % (type(e).__name__, str(e)[:100])
    case.record('must-accept[%s]' % label, verdict, kind='structural', witness={}, replay=dict(fn='accept', label=label),
                sig=dict(query='accept', label=label), note=note)
  return case


# ---------------------------------------------------------------- (2) accepted => total and finite
def _try(thunk):
  try:
    return thunk(), None
  except ValueError as e:
    return None, 'rejected: %s' % str(e)[:60]


def _total_queries(case, label, tr, args, vv, wit, replay, extra_assume=()):
  outs = tr.sym_run(*args, var_values=vv)
  c = sym.ctx()
  bad = []
  for o in outs:
    for v in np.asarray(o, dtype=object).reshape(-1):
      bad.append(z3.Not(sym.defined(v)))
  for ob in c.cmp_obligations:
    if isinstance(ob, tuple):
      kind, a = ob
      bad.append(sym.b(sym.s_cmp('lt' if kind == 'root_domain' else 'le', a, 0)))
    else:
      bad.append(sym.b(sym.s_cmp('eq', ob, 0)))
  case.meta.setdefault('ops', {}).update(tr.ops_seen)
  case.solve('accepted-configuration-is-total[%s]' % label, core.any_of(bad), assumptions=list(extra_assume), witness=wit, timeout=60,
             sig=dict(query='total', label=label.split(':')[0]), replay=replay, required=False if 'stretch' in label else True)


def case_total(**p):
  import tensorflow as tf
  import tensorflow_lattice as tfl
  L = tfl.layers
  case = Case(PROP, p['name'], {k: v for k, v in p.items() if k != 'name'})
  kind = p['layer']
  accepted = rejected = 0
  if kind == 'lattice':
    from tensorflow_lattice.python import lattice_layer as LL
    case.encoded(LL.Lattice.__init__, LL.Lattice.build, LL.LatticeConstraints.__call__, LL.Lattice.call)
    sizes = p['sizes']
    trust_opts = [(None, None), ([(0, 1, 1)], None), (None, [(0, 1, -1)]), ([(0, 1, 1)], [(0, 1, 1)])]
    for mono, (edge, trap), (omin, omax), interp in itertools.product(
        ([0] * len(sizes), [1] + [0] * (len(sizes) - 1), [1] * len(sizes)), trust_opts,
        ((None, None), (0.0, 1.0), (1.0, 1.0), (0.0, None)), ('hypercube', 'simplex')):
      cfg = dict(lattice_sizes=sizes, monotonicities=mono, edgeworth_trusts=edge, trapezoid_trusts=trap, output_min=omin, output_max=omax,
                 interpolation=interp, kernel_initializer='zeros')
      label = 'lattice:%s' % json.dumps(cfg, separators=(',', ':'))

      def mk(cfg=cfg):
        layer = L.Lattice(**cfg)
        layer.build(tf.TensorShape([None, len(sizes)]))
        return layer
      layer, why = _try(mk)
      if layer is None:
        rejected += 1
        continue
      accepted += 1
      n = int(np.prod(sizes))
      con = layer.kernel.constraint
      trc = Traced(lambda w: con(w), [tf.TensorSpec([n, 1], tf.float32)], name='LatticeConstraints')
      sym.new_ctx()
      K = sym.symbolic('w', (n, 1))
      _total_queries(case, label + ':constraint', trc, [K], {}, dict(w=K), dict(fn='lattice', cfg=cfg, part='constraint'))
      if interp == 'hypercube':
        tcall = Traced(lambda x: layer(x), [tf.TensorSpec([1, len(sizes)], tf.float32)], name='Lattice.call')
        sym.new_ctx()
        x = sym.symbolic('x', (1, len(sizes)))
        K = sym.symbolic('w', (n, 1))
        _total_queries(case, label + ':call', tcall, [x], {layer.kernel.ref(): K}, dict(x=x, w=K), dict(fn='lattice', cfg=cfg, part='call'))
  elif kind == 'pwl':
    from tensorflow_lattice.python import pwl_calibration_layer as PL
    case.encoded(PL.PWLCalibration.__init__, PL.PWLCalibration.build, PL.PWLCalibrationConstraints.__call__, PL.PWLCalibration.call)
    for mono, conv, (omin, omax), (cmin, cmax), cyc, iters in itertools.product(
        (0, 1, -1), (0, 1), ((None, None), (0.0, 1.0), (1.0, 1.0), (None, 0.0)), ((False, False), (True, True)), (False, True), (1, 2)):
      cfg = dict(input_keypoints=[0.0, 1.0, 3.0], monotonicity=mono, convexity=conv, output_min=omin, output_max=omax, clamp_min=cmin,
                 clamp_max=cmax, is_cyclic=cyc, num_projection_iterations=iters, kernel_initializer='zeros')
      label = 'pwl:%s' % json.dumps(cfg, separators=(',', ':'))

      def mk(cfg=cfg):
        layer = L.PWLCalibration(**cfg)
        layer.build(tf.TensorShape([None, 1]))
        rows = 3 - int(cfg['is_cyclic'])
        Traced(lambda w: layer.kernel.constraint(w), [tf.TensorSpec([rows, 1], tf.float32)])
        return layer
      layer, why = _try(mk)
      if layer is None:
        rejected += 1
        continue
      accepted += 1
      rows = 3 - int(cyc)
      con = layer.kernel.constraint
      trc = Traced(lambda w: con(w), [tf.TensorSpec([rows, 1], tf.float32)], name='PWLCalibrationConstraints')
      sym.new_ctx()
      K = sym.symbolic('w', (rows, 1))
      _total_queries(case, label + ':constraint', trc, [K], {}, dict(w=K), dict(fn='pwl', cfg=cfg, part='constraint'))
  elif kind == 'linear':
    from tensorflow_lattice.python import linear_layer as LIN, linear_lib
    case.encoded(LIN.Linear.__init__, LIN.Linear.build, LIN.LinearConstraints.__call__, linear_lib.project)
    for mono, rdom, rng0, rng1, norm in itertools.product(([1, 1], [-1, -1], [1, 0]), (None, [(0, 1)]),
                                                         ((0.0, 1.0), (1.0, 1.0), (None, None)), ((0.0, 2.0), (0.5, 0.5)), (None, 1, 2)):
      cfg = dict(num_input_dims=2, monotonicities=mono, range_dominances=rdom, input_min=[rng0[0], rng1[0]], input_max=[rng0[1], rng1[1]],
                 normalization_order=norm)
      label = 'linear:%s' % json.dumps(cfg, separators=(',', ':'))

      def mk(cfg=cfg):
        layer = L.Linear(**cfg)
        layer.build(tf.TensorShape([None, 2]))
        if layer.kernel.constraint is not None:
          Traced(lambda w: layer.kernel.constraint(w), [tf.TensorSpec([2, 1], tf.float32)])
        return layer
      layer, why = _try(mk)
      if layer is None:
        rejected += 1
        continue
      accepted += 1
      con = layer.kernel.constraint
      if con is None:
        continue
      trc = Traced(lambda w: con(w), [tf.TensorSpec([2, 1], tf.float32)], name='LinearConstraints')
      sym.new_ctx()
      K = sym.symbolic('w', (2, 1))
      _total_queries(case, label + (':stretch' if norm == 2 else '') + ':constraint', trc, [K], {}, dict(w=K),
                     dict(fn='linear', cfg=cfg, part='constraint'))
    # a third input that takes part in no dominance, with every kind of range (also an empty one)
    for rng2, norm in itertools.product(((None, None), (2.0, 2.0), (-1.0, 1.0), (0.0, None)), (None, 1)):
      cfg = dict(num_input_dims=3, monotonicities=[1, 1, 0], range_dominances=[(0, 1)], input_min=[0.0, 0.0, rng2[0]], input_max=[1.0, 2.0, rng2[1]],
                 normalization_order=norm)
      label = 'linear:%s' % json.dumps(cfg, separators=(',', ':'))

      def mk3(cfg=cfg):
        layer = L.Linear(**cfg)
        layer.build(tf.TensorShape([None, 3]))
        return layer
      layer, why = _try(mk3)
      if layer is None:
        rejected += 1
        continue
      accepted += 1
      con = layer.kernel.constraint
      trc = Traced(lambda w, con=con: con(w), [tf.TensorSpec([3, 1], tf.float32)], name='LinearConstraints')
      sym.new_ctx()
      K = sym.symbolic('w', (3, 1))
      _total_queries(case, label + ':constraint', trc, [K], {}, dict(w=K), dict(fn='linear', cfg=cfg, part='constraint'))
  elif kind == 'linear-call':
    # evaluation of every accepted Linear layer: units vs input dims, one-sided / partial / no clipping bounds
    from tensorflow_lattice.python import linear_layer as LIN
    case.encoded(LIN.Linear.__init__, LIN.Linear.build, LIN.Linear.call)
    for dims, units, bounds, bias in itertools.product((1, 2, 3), (1, 2, 3), ('none', 'min', 'max', 'both', 'partial'), (True, False)):
      imin = dict(none=None, min=[0.0] * dims, max=None, both=[-1.0] * dims, partial=[0.0] + [None] * (dims - 1))[bounds]
      imax = dict(none=None, min=None, max=[1.0] * dims, both=[2.0] * dims, partial=[None] * (dims - 1) + [1.0])[bounds]
      cfg = dict(num_input_dims=dims, units=units, input_min=imin, input_max=imax, use_bias=bias)
      label = 'linear:%s' % json.dumps(cfg, separators=(',', ':'))
      shp = [dims] if units == 1 else [units, dims]

      def mkc(cfg=cfg, shp=shp):
        layer = L.Linear(**cfg)
        layer.build(tf.TensorShape([None] + shp))
        return layer
      layer, why = _try(mkc)
      if layer is None:
        rejected += 1
        continue
      accepted += 1
      replay_ = dict(fn='linear', cfg=cfg, part='call')
      try:
        tcall = Traced(lambda x, layer=layer: layer(x), [tf.TensorSpec([1] + shp, tf.float32)], name='Linear.call')
        sym.new_ctx()
        x = sym.symbolic('x', tuple([1] + shp))
        K = sym.symbolic('w', (dims, units))
        _total_queries(case, label + ':call', tcall, [x], {layer.kernel.ref(): K}, dict(x=x, w=K), replay_)
      except (sym.NeedSplit, sym.HarnessError):
        raise
      except Exception as e:  # pylint: disable=broad-except
        # the real call raised while being traced on an accepted configuration
        case.record('accepted-configuration-is-total[%s:call]' % label, 'sat', kind='main', witness=dict(x=np.zeros([1] + shp).tolist(), w=np.zeros((dims, units)).tolist()),
                    replay=replay_, sig=dict(query='total', label='linear'), note='%s: %s' % (type(e).__name__, str(e)[:120]))
  elif kind == 'lattice-call':
    # evaluation of an accepted layer on every finite input of a stated box around the lattice, clipped or not
    from tensorflow_lattice.python import lattice_layer as LL, lattice_lib as ll
    case.encoded(LL.Lattice.call, ll.evaluate_with_simplex_interpolation, ll.evaluate_with_hypercube_interpolation)
    sizes = p['sizes']
    n = int(np.prod(sizes))
    for interp, clip in itertools.product(('simplex', 'hypercube'), (True, False)):
      cfg = dict(lattice_sizes=sizes, interpolation=interp, clip_inputs=clip, kernel_initializer='zeros')
      label = 'lattice:%s' % json.dumps(cfg, separators=(',', ':'))

      def mkl(cfg=cfg):
        layer = L.Lattice(**cfg)
        layer.build(tf.TensorShape([None, len(sizes)]))
        return layer
      layer, why = _try(mkl)
      if layer is None:
        rejected += 1
        continue
      accepted += 1
      tcall = Traced(lambda x, layer=layer: layer(x), [tf.TensorSpec([1, len(sizes)], tf.float32)], name='Lattice.call')
      replay_ = dict(fn='lattice', cfg=cfg, part='call')

      def build(extra, leaf, layer=layer, tcall=tcall, label=label, replay_=replay_):
        c = sym.new_ctx()
        x = sym.symbolic('x', (1, len(sizes)))
        K = sym.symbolic('w', (n, 1))
        box = [z3.And(x[0, d] >= -2, x[0, d] <= sizes[d] + 1) for d in range(len(sizes))]
        c.case_assumptions = box + list(extra)
        tag = label + ':call' + (':leaf=' + leaf if leaf else '')
        try:
          _total_queries(case, tag, tcall, [x], {layer.kernel.ref(): K}, dict(x=x, w=K), replay_)
        except sym.Undefined as e:
          case.solve('accepted-configuration-is-total[%s]' % tag, z3.BoolVal(True), witness=dict(x=x, w=K), timeout=60,
                     sig=dict(query='total', label='lattice', why=str(e)[:60]), replay=replay_)
      core.split_run(build, budget=[p.get('budget', 150)])
  elif kind == 'categorical':
    from tensorflow_lattice.python import categorical_calibration_layer as CL
    case.encoded(CL.CategoricalCalibration.__init__, CL.CategoricalCalibration.build, CL.CategoricalCalibrationConstraints.__call__)
    for pairs, (omin, omax) in itertools.product((None, [(0, 1)], [(0, 1), (1, 2)], [(0, 1), (1, 2), (2, 1)], [(0, 1), (1, 0)]),
                                                 ((None, None), (0.0, 1.0), (1.0, 1.0))):
      cfg = dict(num_buckets=3, monotonicities=pairs, output_min=omin, output_max=omax)
      label = 'categorical:%s' % json.dumps(cfg, separators=(',', ':'))

      def mk(cfg=cfg):
        layer = L.CategoricalCalibration(**cfg)
        layer.build(tf.TensorShape([None, 1]))
        if layer.kernel.constraint is not None:
          Traced(lambda w: layer.kernel.constraint(w), [tf.TensorSpec([3, 1], tf.float32)])
        return layer
      layer, why = _try(mk)
      if layer is None:
        rejected += 1
        continue
      accepted += 1
      con = layer.kernel.constraint
      if con is None:
        continue
      trc = Traced(lambda w: con(w), [tf.TensorSpec([3, 1], tf.float32)], name='CategoricalCalibrationConstraints')
      sym.new_ctx()
      K = sym.symbolic('w', (3, 1))
      _total_queries(case, label + ':constraint', trc, [K], {}, dict(w=K), dict(fn='categorical', cfg=cfg, part='constraint'))
  elif kind == 'kfl':
    from tensorflow_lattice.python import kronecker_factored_lattice_layer as KL
    case.encoded(KL.KroneckerFactoredLattice.__init__, KL.KroneckerFactoredLattice.build, KL.KroneckerFactoredLatticeConstraints.__call__)
    for mono, (omin, omax) in itertools.product((None, [1, 0], [1, 1]), ((None, None), (0.0, 1.0), (1.0, 1.0), (0.0, None))):
      cfg = dict(lattice_sizes=2, monotonicities=mono, output_min=omin, output_max=omax)
      label = 'kfl:%s' % json.dumps(cfg, separators=(',', ':'))

      def mk(cfg=cfg):
        layer = L.KroneckerFactoredLattice(**cfg)
        layer.build(tf.TensorShape([None, 2]))
        return layer
      layer, why = _try(mk)
      if layer is None:
        rejected += 1
        continue
      accepted += 1
      con = layer.kernel.constraint
      if con is None:
        continue
      kshp = [int(d) for d in layer.kernel.shape]
      trc = Traced(lambda w: con(w), [tf.TensorSpec(kshp, tf.float32)], name='KFLConstraints')
      sym.new_ctx()
      K = sym.symbolic('k', tuple(kshp))
      S = sym.symbolic('s', tuple(int(d) for d in layer.scale.shape))
      _total_queries(case, label + ':constraint', trc, [K], {layer.scale.ref(): S}, dict(k=K, s=S), dict(fn='kfl', cfg=cfg, part='constraint'))
  case.meta.update(accepted=accepted, rejected=rejected)
  case.record('twin:some-configuration-accepted', 'sat' if accepted else 'unsat', expect='sat', kind='twin')
  if kind not in ('lattice-call', 'linear-call'):
    case.record('twin:some-configuration-rejected', 'sat' if rejected else 'unsat', expect='sat', kind='twin')
  return case


# ---------------------------------------------------------------- (3) synonyms
def _constraint_pairs():
  from tensorflow_lattice.python import lattice_layer as LLm, linear_layer as LINm
  return [
      ('LatticeConstraints strings vs ints',
       lambda: LLm.LatticeConstraints(lattice_sizes=[2, 3], monotonicities=['increasing', 'none'], unimodalities=['none', 'valley'],
                                      edgeworth_trusts=[(0, 1, 'positive')], output_min=0.0, output_max=1.0, num_projection_iterations=1),
       lambda: LLm.LatticeConstraints(lattice_sizes=[2, 3], monotonicities=[1, 0], unimodalities=[0, 1], edgeworth_trusts=[(0, 1, 1)],
                                      output_min=0.0, output_max=1.0, num_projection_iterations=1), [6, 2]),
      ('LatticeConstraints single tuples vs lists',
       lambda: LLm.LatticeConstraints(lattice_sizes=[2, 2], monotonicities=[1, 1], trapezoid_trusts=(0, 1, 'negative'), monotonic_dominances=(0, 1),
                                      num_projection_iterations=1),
       lambda: LLm.LatticeConstraints(lattice_sizes=[2, 2], monotonicities=[1, 1], trapezoid_trusts=[(0, 1, -1)], monotonic_dominances=[(0, 1)],
                                      num_projection_iterations=1), [4, 1]),
      ('LinearConstraints strings vs ints',
       lambda: LINm.LinearConstraints(monotonicities=['increasing', 'decreasing', 'none'], normalization_order=1),
       lambda: LINm.LinearConstraints(monotonicities=[1, -1, 0], normalization_order=1), [3, 2]),
  ]


def _layer_pairs():
  import tensorflow_lattice as tfl
  L = tfl.layers
  return [
      ('lattice increasing vs 1', lambda: L.Lattice(lattice_sizes=[2, 3], monotonicities=['increasing', 'none'], output_min=0.0, output_max=1.0, kernel_initializer='zeros'),
       lambda: L.Lattice(lattice_sizes=[2, 3], monotonicities=[1, 0], output_min=0.0, output_max=1.0, kernel_initializer='zeros'), [None, 2], (6, 1)),
      ('lattice peak/valley vs -1/1', lambda: L.Lattice(lattice_sizes=[3, 3], unimodalities=['peak', 'valley'], kernel_initializer='zeros'),
       lambda: L.Lattice(lattice_sizes=[3, 3], unimodalities=[-1, 1], kernel_initializer='zeros'), [None, 2], (9, 1)),
      ('lattice positive/negative trust vs 1/-1', lambda: L.Lattice(lattice_sizes=[2, 2, 2], monotonicities=[1, 1, 0], edgeworth_trusts=[(0, 2, 'positive')], trapezoid_trusts=[(1, 2, 'negative')], kernel_initializer='zeros'),
       lambda: L.Lattice(lattice_sizes=[2, 2, 2], monotonicities=[1, 1, 0], edgeworth_trusts=[(0, 2, 1)], trapezoid_trusts=[(1, 2, -1)], kernel_initializer='zeros'), [None, 3], (8, 1)),
      ('lattice single trust tuple vs one-element list', lambda: L.Lattice(lattice_sizes=[2, 2], monotonicities=[1, 0], edgeworth_trusts=(0, 1, 1), monotonic_dominances=None, kernel_initializer='zeros'),
       lambda: L.Lattice(lattice_sizes=[2, 2], monotonicities=[1, 0], edgeworth_trusts=[(0, 1, 1)], kernel_initializer='zeros'), [None, 2], (4, 1)),
      ('lattice single dominance tuple vs list', lambda: L.Lattice(lattice_sizes=[2, 2], monotonicities=[1, 1], monotonic_dominances=(0, 1), joint_monotonicities=(0, 1), kernel_initializer='zeros'),
       lambda: L.Lattice(lattice_sizes=[2, 2], monotonicities=[1, 1], monotonic_dominances=[(0, 1)], joint_monotonicities=[(0, 1)], kernel_initializer='zeros'), [None, 2], (4, 1)),
      ('pwl decreasing/concave vs -1/-1', lambda: L.PWLCalibration(input_keypoints=[0.0, 1.0, 3.0, 4.0], monotonicity='decreasing', convexity='concave', output_min=0.0, output_max=1.0, kernel_initializer='zeros'),
       lambda: L.PWLCalibration(input_keypoints=[0.0, 1.0, 3.0, 4.0], monotonicity=-1, convexity=-1, output_min=0.0, output_max=1.0, kernel_initializer='zeros'), [None, 1], (4, 1)),
      ('linear increasing/decreasing/none vs 1/-1/0', lambda: L.Linear(num_input_dims=3, monotonicities=['increasing', 'decreasing', 'none'], input_min=['none', 0.0, None], input_max=[1.0, 'none', None]),
       lambda: L.Linear(num_input_dims=3, monotonicities=[1, -1, 0], input_min=[None, 0.0, None], input_max=[1.0, None, None]), [None, 3], (3, 1)),
      ('kfl increasing vs 1', lambda: L.KroneckerFactoredLattice(lattice_sizes=2, monotonicities=['increasing', 'none'], output_min=0.0),
       lambda: L.KroneckerFactoredLattice(lattice_sizes=2, monotonicities=[1, 0], output_min=0.0), [None, 2], None),
      # pairs / triples spelled as lists (what a JSON round trip of a config produces) vs tuples
      ('categorical pairs as lists vs tuples', lambda: L.CategoricalCalibration(num_buckets=4, units=2, monotonicities=[[0, 1], [1, 3]], output_min=0.0, output_max=1.0, kernel_initializer='constant'),
       lambda: L.CategoricalCalibration(num_buckets=4, units=2, monotonicities=[(0, 1), (1, 3)], output_min=0.0, output_max=1.0, kernel_initializer='constant'), [None, 2], (4, 2)),
      ('lattice trusts and dominances as lists vs tuples', lambda: L.Lattice(lattice_sizes=[2, 2, 2], monotonicities=[1, 1, 0], edgeworth_trusts=[[0, 2, 1]], trapezoid_trusts=[[1, 2, -1]], monotonic_dominances=[[0, 1]], kernel_initializer='zeros'),
       lambda: L.Lattice(lattice_sizes=[2, 2, 2], monotonicities=[1, 1, 0], edgeworth_trusts=[(0, 2, 1)], trapezoid_trusts=[(1, 2, -1)], monotonic_dominances=[(0, 1)], kernel_initializer='zeros'), [None, 3], (8, 1)),
      ('linear dominances as lists vs tuples', lambda: L.Linear(num_input_dims=4, monotonicities=[1, 1, 1, 1], monotonic_dominances=[[0, 1]], range_dominances=[[2, 3]], input_min=[0.0, 0.0, 0.0, 0.0], input_max=[1.0, 2.0, 1.0, 3.0]),
       lambda: L.Linear(num_input_dims=4, monotonicities=[1, 1, 1, 1], monotonic_dominances=[(0, 1)], range_dominances=[(2, 3)], input_min=[0.0, 0.0, 0.0, 0.0], input_max=[1.0, 2.0, 1.0, 3.0]), [None, 4], (4, 1)),
  ]


def _synonym_pair(case, label, mk_a, mk_b, shape):
  import tensorflow as tf
  la, lb = mk_a(), mk_b()
  la.build(tf.TensorShape(shape))
  lb.build(tf.TensorShape(shape))
  xshape = [1] + shape[1:]
  is_cat = type(la).__name__ == 'CategoricalCalibration'
  dt = tf.int32 if is_cat else tf.float32
  ta = Traced(lambda x: la(x), [tf.TensorSpec(xshape, dt)], name='a')
  tb = Traced(lambda x: lb(x), [tf.TensorSpec(xshape, dt)], name='b')
  sym.new_ctx()
  # category indices are enumerated elsewhere (C05); here one concrete index vector suffices, the kernel is symbolic
  x = sym.obj(np.arange(int(np.prod(xshape))).reshape(xshape) % 3) if is_cat else sym.symbolic('x', tuple(xshape))
  vva, vvb, wit = {}, {}, dict(x=x)
  for i, (va, vb) in enumerate(zip(la.weights, lb.weights)):
    a = sym.symbolic('v%d' % i, tuple(va.shape))
    vva[va.ref()] = a
    vvb[vb.ref()] = a
    wit['v%d' % i] = a
  (oa,) = ta.sym_run(x, var_values=vva)
  (ob,) = tb.sym_run(x, var_values=vvb)
  pairs_ = list(zip(np.asarray(oa, dtype=object).reshape(-1), np.asarray(ob, dtype=object).reshape(-1)))
  # the weight constraints must agree as well
  ka, kb = la.kernel.constraint, lb.kernel.constraint
  if (ka is None) != (kb is None):
    case.record('synonyms-attach-same-constraint[%s]' % label, 'sat', kind='structural', witness={}, replay=None, sig=dict(query='synonym'))
  elif ka is not None:
    kshp = list(la.kernel.shape)
    tka = Traced(lambda w: ka(w), [tf.TensorSpec(kshp, tf.float32)])
    tkb = Traced(lambda w: kb(w), [tf.TensorSpec(kshp, tf.float32)])
    W = sym.symbolic('w', tuple(kshp))
    extra_a = {la.scale.ref(): vva[la.scale.ref()]} if hasattr(la, 'scale') else {}
    extra_b = {lb.scale.ref(): vvb[lb.scale.ref()]} if hasattr(lb, 'scale') else {}
    (ca,) = tka.sym_run(W, var_values=extra_a)
    (cb,) = tkb.sym_run(W, var_values=extra_b)
    pairs_ += list(zip(np.asarray(ca, dtype=object).reshape(-1), np.asarray(cb, dtype=object).reshape(-1)))
    wit['w'] = W
  flat = lambda outs: np.asarray(outs[0]).reshape(-1)
  case.identity('synonymous-spellings-configure-identical-behaviour[%s]' % label, pairs_, witness=wit, timeout=60, sig=dict(query='synonym'),
                inline_replay=lambda m, ta=ta, tb=tb, x=x, vva=vva, vvb=vvb: core.compare_tf(m, [(ta, [x], vva, flat), (tb, [x], vvb, flat)]))


def case_synonyms(**p):
  import tensorflow as tf
  import tensorflow_lattice as tfl
  L = tfl.layers
  case = Case(PROP, p['name'], {})
  from tensorflow_lattice.python import utils
  case.encoded(utils.canonicalize_monotonicities, utils.canonicalize_unimodalities, utils.canonicalize_trust, utils.canonicalize_convexity,
               utils.canonicalize_monotonicity)
  pairs = _layer_pairs()
  # the constraint classes constructed directly (users attach them to their own variables)
  from tensorflow_lattice.python import lattice_layer as LLm, linear_layer as LINm
  cpairs = _constraint_pairs()
  for label, mk_a, mk_b, wshape in cpairs:
    try:
      ca_, cb_ = mk_a(), mk_b()
    except Exception as e:  # pylint: disable=broad-except
      case.record('synonymous-spellings-configure-identical-behaviour[%s]' % label, 'sat', kind='structural', witness={},
                  replay=dict(fn='syn-constraint', label=label), sig=dict(query='synonym', label=label),
                  note='one spelling is not accepted: %s: %s' % (type(e).__name__, str(e)[:120]))
      continue
    tca = Traced(lambda w, c_=ca_: c_(w), [tf.TensorSpec(wshape, tf.float32)], name=label)
    tcb = Traced(lambda w, c_=cb_: c_(w), [tf.TensorSpec(wshape, tf.float32)], name=label + "'")
    sym.new_ctx()
    W = sym.symbolic('w', tuple(wshape))
    (oa,) = tca.sym_run(W)
    (ob,) = tcb.sym_run(W)
    flat0 = lambda outs: np.asarray(outs[0]).reshape(-1)
    case.identity('synonymous-spellings-configure-identical-behaviour[%s]' % label,
                  list(zip(np.asarray(oa, dtype=object).reshape(-1), np.asarray(ob, dtype=object).reshape(-1))), witness=dict(w=W), timeout=60,
                  sig=dict(query='synonym'),
                  inline_replay=lambda m, tca=tca, tcb=tcb, W=W: core.compare_tf(m, [(tca, [W], {}, flat0), (tcb, [W], {}, flat0)]))
  for label, mk_a, mk_b, shape, kshape in pairs:
    try:
      _synonym_pair(case, label, mk_a, mk_b, shape)
    except Exception as e:  # pylint: disable=broad-except
      case.record('synonymous-spellings-configure-identical-behaviour[%s]' % label, 'sat', kind='structural', witness={},
                  replay=dict(fn='syn-layer', label=label), sig=dict(query='synonym', label=label),
                  note='one spelling fails to build / project / evaluate: %s: %s' % (type(e).__name__, str(e)[:120]))
  return case


def _init_pairs():
  import tensorflow_lattice as tfl
  L = tfl.layers
  return [
      ('lattice init increasing/none vs 1/0', lambda: L.Lattice(lattice_sizes=[2, 2], monotonicities=['increasing', 'none'], output_min=0.0, output_max=1.0),
       lambda: L.Lattice(lattice_sizes=[2, 2], monotonicities=[1, 0], output_min=0.0, output_max=1.0), [None, 2]),
      ('lattice init none + peak/valley vs 0 + -1/1', lambda: L.Lattice(lattice_sizes=[3, 3], monotonicities=['none', 'none'], unimodalities=['peak', 'valley'], output_min=0.0, output_max=1.0),
       lambda: L.Lattice(lattice_sizes=[3, 3], monotonicities=[0, 0], unimodalities=[-1, 1], output_min=0.0, output_max=1.0), [None, 2]),
      ('lattice init 3-d mixed, units 2', lambda: L.Lattice(lattice_sizes=[3, 2, 2], units=2, monotonicities=['none', 'increasing', 'none'], unimodalities=['valley', 'none', 'none'], output_min=-1.0, output_max=2.0),
       lambda: L.Lattice(lattice_sizes=[3, 2, 2], units=2, monotonicities=[0, 1, 0], unimodalities=[1, 0, 0], output_min=-1.0, output_max=2.0), [None, 2, 3]),
      ('lattice init random_uniform_or_linear', lambda: L.Lattice(lattice_sizes=[2, 3], monotonicities=['increasing', 'none'], kernel_initializer='random_uniform_or_linear_initializer', output_min=0.0, output_max=1.0),
       lambda: L.Lattice(lattice_sizes=[2, 3], monotonicities=[1, 0], kernel_initializer='random_uniform_or_linear_initializer', output_min=0.0, output_max=1.0), [None, 2]),
      ('pwl init decreasing vs -1 (equal_heights)', lambda: L.PWLCalibration(input_keypoints=[0.0, 1.0, 3.0, 4.0], monotonicity='decreasing', output_min=0.0, output_max=1.0),
       lambda: L.PWLCalibration(input_keypoints=[0.0, 1.0, 3.0, 4.0], monotonicity=-1, output_min=0.0, output_max=1.0), [None, 1]),
      ('pwl init none vs 0 (equal_slopes)', lambda: L.PWLCalibration(input_keypoints=[0.0, 1.0, 3.0, 4.0], monotonicity='none', kernel_initializer='equal_slopes', output_min=-1.0, output_max=1.0),
       lambda: L.PWLCalibration(input_keypoints=[0.0, 1.0, 3.0, 4.0], monotonicity=0, kernel_initializer='equal_slopes', output_min=-1.0, output_max=1.0), [None, 1]),
      ('pwl init increasing/convex vs 1/1', lambda: L.PWLCalibration(input_keypoints=[0.0, 1.0, 3.0], units=2, monotonicity='increasing', convexity='convex', output_min=0.0, output_max=2.0),
       lambda: L.PWLCalibration(input_keypoints=[0.0, 1.0, 3.0], units=2, monotonicity=1, convexity=1, output_min=0.0, output_max=2.0), [None, 2]),
  ]


def case_synonym_inits(**p):
  """freshly built layers: both spellings start from the same weights (deterministic initializers; executed, not solved)"""
  import tensorflow as tf
  case = Case(PROP, p['name'], {})
  for label, mk_a, mk_b, shape in _init_pairs():
    r = _init_compare(label)
    case.record('synonymous-spellings-give-identical-initial-weights[%s]' % label, 'sat' if r['reproduced'] else 'unsat', kind='structural',
                witness={}, replay=dict(fn='syn-init', label=label), sig=dict(query='synonym-init', label=label), note=str(r['detail'])[:200])
  return case


def _init_compare(label):
  import tensorflow as tf
  for lab, mk_a, mk_b, shape in _init_pairs():
    if lab != label:
      continue
    la, lb = mk_a(), mk_b()
    la.build(tf.TensorShape(shape))
    lb.build(tf.TensorShape(shape))
    wa, wb = la.get_weights(), lb.get_weights()
    same = len(wa) == len(wb) and all(x.shape == y.shape and np.allclose(x, y, atol=1e-6, equal_nan=False) for x, y in zip(wa, wb))
    return dict(reproduced=not same, detail=dict(spelled=[w.tolist() for w in wa], canonical=[w.tolist() for w in wb]) if not same else 'identical')
  return dict(reproduced=False, detail='unknown label')


# ---------------------------------------------------------------- (4) CrossHair on canonicalize helpers
def case_canon(**p):
  case = Case(PROP, p['name'], {})
  cmd = [sys.executable, '-m', 'crosshair', 'check', '--report_all', '--per_condition_timeout', '60', 'vf.e2.c16_harness']
  env = dict(os.environ, PYTHONPATH=ROOT + os.pathsep + os.environ.get('PYTHONPATH', ''))
  t = time.time()
  out = subprocess.run(cmd, cwd=ROOT, env=env, capture_output=True, text=True, timeout=900)
  dt = time.time() - t
  text = (out.stdout + out.stderr)
  lines = [l for l in text.splitlines() if 'c16_harness.py' in l]
  confirmed = [l for l in lines if 'Confirmed over all paths' in l]
  errors = [l for l in lines if ' error: ' in l]
  other = [l for l in lines if l not in confirmed and l not in errors]
  from vf.e2 import c16_harness as h
  for i in range(len(h.CHECKS)):
    v = 'unsat' if i < len(confirmed) else ('sat' if errors else 'unknown')
    r = dict(case=p['name'], query='crosshair:canonicalize[%d]' % i, verdict=v, expect='unsat', solve_s=round(dt / max(1, len(h.CHECKS)), 2), kind='main',
             required=True, config={})
    if v == 'sat':
      r.update(witness=dict(report=errors[0][-200:]), sig=dict(query='canon'), replay=dict(fn='canon', report=errors[0][-300:]))
    if v == 'unknown':
      r['reason'] = (other or ['no verdict'])[0][-160:]
    case.results.append(r)
  case.functions.append('e2:c16_harness')
  return case


def replay(r):
  rp = r['replay']
  if rp['fn'] == 'syn-layer':
    import tensorflow as tf
    for label, mk_a, mk_b, shape, kshape in _layer_pairs():
      if label == rp['label']:
        try:
          for mk in (mk_a, mk_b):
            layer = mk()
            layer.build(tf.TensorShape(shape))
            if layer.kernel.constraint is not None:
              layer.kernel.constraint(layer.kernel)
            layer(tf.zeros([1] + shape[1:]))
        except Exception as e:  # pylint: disable=broad-except
          return dict(reproduced=True, detail='%s: %s' % (type(e).__name__, str(e)[:200]))
        return dict(reproduced=False, detail='both spellings build, project and evaluate')
  if rp['fn'] == 'syn-constraint':
    for label, mk_a, mk_b, wshape in _constraint_pairs():
      if label == rp['label']:
        try:
          mk_a()
          mk_b()
        except Exception as e:  # pylint: disable=broad-except
          return dict(reproduced=True, detail='%s: %s' % (type(e).__name__, str(e)[:200]))
        return dict(reproduced=False, detail='both spellings accepted')
  if rp['fn'] == 'syn-init':
    return _init_compare(rp['label'])
  if rp['fn'] == 'accept':
    for label, thunk in _accept_table():
      if label == rp['label']:
        try:
          thunk()
          return dict(reproduced=False, detail='built and evaluated')
        except Exception as e:  # pylint: disable=broad-except
          return dict(reproduced=True, detail='%s: %s' % (type(e).__name__, str(e)[:200]))
    return dict(reproduced=False, detail='entry not found')
  if rp['fn'] == 'reject':
    for entry in _reject_table():
      label, thunk = entry[0], entry[1]
      if label == rp['label']:
        try:
          thunk()
          return dict(reproduced=True, detail='configuration was accepted')
        except (entry[2] if len(entry) > 2 else ValueError) as e:
          return dict(reproduced=False, detail='ValueError: %s' % str(e)[:100])
        except Exception as e:  # pylint: disable=broad-except
          return dict(reproduced=True, detail='raised %s: %s' % (type(e).__name__, str(e)[:100]))
  if rp['fn'] == 'canon':
    return dict(reproduced=True, detail=rp['report'])
  import tensorflow as tf
  import tensorflow_lattice as tfl
  cfg = rp['cfg']
  w = r['witness']
  cls = dict(lattice=tfl.layers.Lattice, pwl=tfl.layers.PWLCalibration, linear=tfl.layers.Linear, categorical=tfl.layers.CategoricalCalibration,
             kfl=tfl.layers.KroneckerFactoredLattice)[rp['fn']]
  for k_ in ('edgeworth_trusts', 'trapezoid_trusts', 'range_dominances', 'monotonicities'):
    if isinstance(cfg.get(k_), list) and cfg[k_] and isinstance(cfg[k_][0], list):
      cfg[k_] = [tuple(t) for t in cfg[k_]]
  layer = cls(**cfg)
  shape = dict(lattice=[None, len(cfg.get('lattice_sizes', [0, 0]))] if rp['fn'] == 'lattice' else None, pwl=[None, 1], linear=[None, cfg.get('num_input_dims', 2)],
               categorical=[None, 1], kfl=[None, 2])[rp['fn']]
  if rp['fn'] == 'linear' and cfg.get('units', 1) > 1:
    shape = [None, cfg['units'], cfg.get('num_input_dims', 2)]
  layer.build(tf.TensorShape(shape))
  try:
    if rp['fn'] == 'kfl':
      layer.scale.assign(core.witness_np(w['s']).astype(np.float32))
      out = layer.kernel.constraint(tf.constant(core.witness_np(w['k']).astype(np.float32))).numpy()
    elif rp['part'] == 'constraint':
      out = layer.kernel.constraint(tf.constant(core.witness_np(w['w']).astype(np.float32))).numpy()
    else:
      layer.kernel.assign(core.witness_np(w['w']).astype(np.float32))
      out = layer(tf.constant(core.witness_np(w['x']).astype(np.float32))).numpy()
  except Exception as e:  # pylint: disable=broad-except
    return dict(reproduced=True, detail='raised %s: %s' % (type(e).__name__, str(e)[:150]))
  return dict(reproduced=bool(not np.all(np.isfinite(out))), detail=dict(output=np.asarray(out).tolist(), config=str(cfg)[:300]))


def cases(tier, seed):
  out = [dict(name='must-reject', fn='case_reject', params=dict(name='must-reject'), cap=900),
         dict(name='must-accept', fn='case_accept', params=dict(name='must-accept'), cap=900),
         dict(name='synonyms', fn='case_synonyms', params=dict(name='synonyms'), cap=900),
         dict(name='synonym-inits', fn='case_synonym_inits', params=dict(name='synonym-inits'), cap=600),
         dict(name='canonicalize', fn='case_canon', params=dict(name='canonicalize'), cap=1200)]
  for kind, extra in (('lattice', dict(sizes=[2, 2])), ('lattice', dict(sizes=[3, 2])), ('pwl', {}), ('linear', {}), ('categorical', {}), ('kfl', {})):
    nm = 'total-%s%s' % (kind, 'x'.join(map(str, extra.get('sizes', []))))
    out.append(dict(name=nm, fn='case_total', params=dict(name=nm, layer=kind, **extra), cap=1800))
  out.append(dict(name='total-linear-call', fn='case_total', params=dict(name='total-linear-call', layer='linear-call'), cap=1200))
  for sizes in ([3], [2, 3]):
    nm = 'total-lattice-call%s' % 'x'.join(map(str, sizes))
    out.append(dict(name=nm, fn='case_total', params=dict(name=nm, layer='lattice-call', sizes=sizes), cap=1800))
  if tier == 'thorough':
    out.append(dict(name='total-lattice-call3x3', fn='case_total', params=dict(name='total-lattice-call3x3', layer='lattice-call', sizes=[3, 3], budget=400),
                    cap=3600, required=False))
    out.append(dict(name='total-lattice2x2x2', fn='case_total', params=dict(name='total-lattice2x2x2', layer='lattice', sizes=[2, 2, 2]), cap=3600,
                    required=False))
  return out
