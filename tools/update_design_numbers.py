#!/usr/bin/env python3
"""Rewrites the last column of the per-property table in DESIGN.md (section 2) from the committed evidence files."""
import json, re, os
root = os.path.dirname(os.path.dirname(os.path.abspath(__file__)))
d = open(os.path.join(root, 'DESIGN.md')).read()
for i in range(1, 21):
  pid = 'C%02d' % i
  ev = json.load(open(os.path.join(root, 'evidence', pid + '.json')))
  c = ev['coverage']
  cell = '%d cases, %d queries (%s tier), %d s' % (c['cases'], c['queries_total'], ev['tier'], round(ev['wall_s']))
  d = re.sub(r'(^\| %s \|.*\|)[^|]*\|$' % pid, lambda m: m.group(1) + ' ' + cell + ' |', d, count=1, flags=re.M)
open(os.path.join(root, 'DESIGN.md'), 'w').write(d)
print('updated')
