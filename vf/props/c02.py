"""C02 - Lattice output is exact hypercube / simplex interpolation, inheriting kernel shape."""
import itertools
import json
from fractions import Fraction

import numpy as np
import z3

from vf import sym, specs, core
from vf.core import Case, Traced

PROP = 'C02'

META = dict(
    level='model_checking',
    technique='symbolic execution of the traced TF graph of Lattice.call (evaluate_with_hypercube_interpolation / '
              'evaluate_with_simplex_interpolation, compute_interpolation_weights, batch_outer_operation) with symbolic '
              'kernel and input point; per lattice cell (and per coordinate order for simplex, float->int casts and sort '
              'indices forced by the case assumption); z3 QF_NRA polynomial identities',
    bounds=dict(
        quick='lattice shapes [2,2],[3,2],[2,3],[3,3],[2,2,2],[2,3,2],[3,3,2]; units 1-2; tensor and list inputs; extra batch '
              'dimension; clip_inputs on/off (off: in-range inputs only); all real kernels and input points',
        thorough='adds [2,2,2,2],[4,3],[2,2,3,3,2] (bucketised runs), [3,3,3], and the rank-8 all-2 matmul path'),
    outside=['IEEE-754 rounding', 'clip_inputs=False with out-of-range inputs (unspecified by the property)',
             'ranks above 8'],
    assumptions=['TF op semantics as in vf/interp.py incl. TopKV2 tie rule (lower index first) and float->int truncation '
                 '(validated per case against TensorFlow)', 'z3 is sound'],
)


def _layer(p):
  from tensorflow_lattice.python import lattice_layer as LL
  layer = LL.Lattice(lattice_sizes=list(p['sizes']), units=p['units'], interpolation=p['interp'],
                     clip_inputs=p['clip'])
  return layer


def _input_shape(p, batch=1):
  rank = len(p['sizes'])
  if p['units'] > 1:
    shp = [batch, p['units'], rank]
  elif p.get('extra_batch'):
    shp = [batch, 2, rank]
  else:
    shp = [batch, rank]
  return shp


def _trace_layer(p, batch=1, with_weights=False):
  import tensorflow as tf
  from tensorflow_lattice.python import lattice_lib as ll
  layer = _layer(p)
  shp = _input_shape(p, batch)
  rank = len(p['sizes'])
  if p.get('list_input'):
    specs_ = [tf.TensorSpec(shp[:-1] + [1], tf.float32) for _ in range(rank)]

    def fn(*xs):
      out = layer(list(xs))
      if with_weights:
        return out, ll.compute_interpolation_weights(list(xs), list(p['sizes']), p['clip'])
      return out
  else:
    specs_ = [tf.TensorSpec(shp, tf.float32)]

    def fn(x):
      out = layer(x)
      if with_weights:
        return out, ll.compute_interpolation_weights(x, list(p['sizes']), p['clip'])
      return out
  tr = Traced(fn, specs_, name='Lattice.call')
  return layer, tr


def _sym_inputs(p, name='x', batch=1):
  shp = _input_shape(p, batch)
  x = sym.symbolic(name, tuple(shp))
  if p.get('list_input'):
    return x, [x[..., d:d + 1] for d in range(len(p['sizes']))]
  return x, [x]


def _points(x, p):
  """list of (index prefix, [coords])"""
  rank = len(p['sizes'])
  pts = []
  for idx in np.ndindex(*x.shape[:-1]):
    pts.append((idx, [x[idx + (d,)] for d in range(rank)]))
  return pts


def _cells(sizes):
  return list(itertools.product(*[range(s - 1) for s in sizes]))


def _cell_assumption(xs, sizes, cell, clip):
  conds = []
  for d, (xv, s, c) in enumerate(zip(xs, sizes, cell)):
    if clip:
      lo = (xv >= c) if c > 0 else z3.BoolVal(True)
      hi = (xv <= c + 1) if c + 1 < s - 1 else z3.BoolVal(True)
      conds += [lo, hi]
    else:
      conds += [xv >= c, xv <= c + 1]
  return conds


def _clipped(xs, sizes, clip):
  if not clip:
    return list(xs)
  return [specs.clip(xv, 0, s - 1) for xv, s in zip(xs, sizes)]


def _gen_inputs(p):
  sizes = p['sizes']

  def gen(rng, i, shp, trial):
    a = rng.integers(-2, 4 * max(sizes), size=shp) / 4.0
    if not p['clip']:
      a = np.clip(a, 0, None)
      for d in range(len(sizes)):
        if p.get('list_input'):
          if i == d:
            a = np.minimum(a, sizes[d] - 1)
        else:
          a[..., d] = np.minimum(a[..., d], sizes[d] - 1)
    return a
  return gen


def case_hypercube(**p):
  from tensorflow_lattice.python import lattice_lib as ll, lattice_layer as LL
  sizes, units = list(p['sizes']), p['units']
  n = int(np.prod(sizes))
  case = Case(PROP, p['name'], {k: v for k, v in p.items() if k != 'name'})
  case.encoded(LL.Lattice.call, ll.evaluate_with_hypercube_interpolation, ll.compute_interpolation_weights,
               ll.batch_outer_operation, ll._clip_onto_lattice_range, ll._bucketize_consequtive_equal_dims)
  layer, tr = _trace_layer(p, with_weights=True)
  kvar = layer.kernel
  rng = np.random.default_rng(0)
  done, mism = tr.validate(rng, n=2, gen=_gen_inputs(p),
                           var_shapes={kvar.name: lambda r, t: core.dyadic(r, [n, units], t)})
  sym.new_ctx()
  K = sym.symbolic('k', (n, units))
  x, xin = _sym_inputs(p)
  out, W = tr.sym_run(*xin, var_values={kvar.ref(): K})
  case.meta.update(validation_points=done, validation_mismatch=mism, ops=tr.ops_seen, nodes=tr.n_nodes)
  replay = dict(fn='layer', params=p)
  pts = _points(x, p)
  tmo = p.get('timeout', 120)
  # wiring: out == sum_v W_v K_v for every point / unit  (uses the implementation's own weights)
  bad = []
  for pi, (idx, xs) in enumerate(pts):
    u = idx[-1] if units > 1 else 0
    tot = 0
    for v in range(n):
      tot = sym.s_add(tot, sym.s_mul(W[idx + (v,)], K[v, u]))
    o = out[idx] if units > 1 else out[idx + (0,)]
    bad.append(sym.NE(o, tot))
  if p.get('poly'):
    # unclipped inputs: everything is a polynomial in x and the kernel; decided by normal forms (Case.identity)
    pairs = []
    for pi, (idx, xs) in enumerate(pts):
      u = idx[-1] if units > 1 else 0
      tot = 0
      for v in range(n):
        tot = sym.s_add(tot, sym.s_mul(W[idx + (v,)], K[v, u]))
      pairs.append((out[idx] if units > 1 else out[idx + (0,)], tot))
    case.identity('output-is-weights-times-kernel', pairs, witness=dict(x=x, k=K), timeout=tmo, sig=dict(query='wiring', interp='hypercube'),
                  replay=replay)
  else:
    case.solve('output-is-weights-times-kernel', core.any_of(bad), witness=dict(x=x, k=K), timeout=tmo,
               sig=dict(query='wiring', interp='hypercube'), replay=replay)
  # weights == reference multilinear weights, per cell, for the first point (all points are symmetric)
  for idx, xs in pts[:2]:
    for cell in _cells(sizes):
      assume = _cell_assumption(xs, sizes, cell, p['clip'])
      xc = _clipped(xs, sizes, p['clip'])
      bad = []
      refs = []
      for v, vidx in enumerate(np.ndindex(*sizes)):
        ref = 1
        for d in range(len(sizes)):
          off = vidx[d] - cell[d]
          t = sym.s_sub(xc[d], cell[d])
          if off == 0:
            ref = sym.s_mul(ref, sym.s_sub(1, t))
          elif off == 1:
            ref = sym.s_mul(ref, t)
          else:
            ref = 0
            break
        bad.append(sym.NE(W[idx + (v,)], ref))
        refs.append((W[idx + (v,)], ref))
      if p.get('poly'):
        case.identity('weights-are-multilinear[cell=%s,pt=%s]' % (list(cell), list(idx)), refs, assumptions=assume, witness=dict(x=x), timeout=tmo,
                      sig=dict(query='weights', interp='hypercube'), replay=replay)
      else:
        case.solve('weights-are-multilinear[cell=%s,pt=%s]' % (list(cell), list(idx)), core.any_of(bad), assumptions=assume,
                   witness=dict(x=x), timeout=tmo, sig=dict(query='weights', interp='hypercube'), replay=replay)
  # convex combination: weights >= 0 and sum to 1 (clipped, or in range)
  idx, xs = pts[0]
  assume = [] if p['clip'] else [z3.And(xv >= 0, xv <= s - 1) for xv, s in zip(xs, sizes)]
  tot = 0
  neg = []
  for v in range(n):
    tot = sym.s_add(tot, W[idx + (v,)])
    neg.append(sym.s_cmp('lt', W[idx + (v,)], 0))
  if not p.get('poly'):
    case.solve('weights-convex', core.any_of(neg + [sym.NE(tot, 1)]), assumptions=assume, witness=dict(x=x), timeout=tmo,
               sig=dict(query='convex', interp='hypercube'), replay=replay, required=len(sizes) <= 3)
  case.solve('twin:weights-not-constant', sym.NE(W[idx + (0,)], 1), expect='sat', kind='twin', timeout=30)
  return case


def _ck(cellk):
  return ''.join('%d%s' % (c, 't' if k == 'top' else '') for c, k in cellk)


def _cells_top(sizes):
  """per-dimension cases: (c, 'half') = [c, c+1) and, for the last cell, (c, 'top') = {c+1}"""
  per = []
  for s_ in sizes:
    lst = [(c, 'half') for c in range(s_ - 1)] + [(s_ - 2, 'top')]
    per.append(lst)
  return list(itertools.product(*per))


def _cellk_conds(xs, xc, sizes, cellk, clip):
  conds = []
  for d, (c, kind) in enumerate(cellk):
    if kind == 'half':
      conds.append(sym.GE(xc[d], c))
      conds.append(sym.b(sym.s_cmp('lt', xc[d], c + 1)))
    else:
      conds.append(sym.EQ(xc[d], c + 1))
    if not clip:
      conds.append(sym.GE(xs[d], 0))
      conds.append(sym.LE(xs[d], sizes[d] - 1))
  return conds


def _order_assumption(res, order):
  """TF top_k order (descending, ties -> lower index first) equals `order`."""
  conds = []
  for a, b in zip(order[:-1], order[1:]):
    conds.append(sym.GE(res[a], res[b]) if a < b else sym.GT(res[a], res[b]))
  return conds


def case_simplex(**p):
  from tensorflow_lattice.python import lattice_lib as ll, lattice_layer as LL
  sizes, units = list(p['sizes']), p['units']
  rank = len(sizes)
  n = int(np.prod(sizes))
  case = Case(PROP, p['name'], {k: v for k, v in p.items() if k != 'name'})
  case.encoded(LL.Lattice.call, ll.evaluate_with_simplex_interpolation, ll._clip_onto_lattice_range)
  layer, tr = _trace_layer(p)
  kvar = layer.kernel
  rng = np.random.default_rng(0)
  done, mism = tr.validate(rng, n=3, gen=_gen_inputs(p),
                           var_shapes={kvar.name: lambda r, t: core.dyadic(r, [n, units], t)})
  case.meta.update(validation_points=done, validation_mismatch=mism, nodes=tr.n_nodes)
  replay = dict(fn='layer', params=p)
  tmo = p.get('timeout', 60)
  state = dict(first=True)
  for cellk in _cells_top(sizes):
    cell = tuple(c for c, _ in cellk)
    for order in itertools.permutations(range(rank)):

      def build(extra, leaf, cellk=cellk, cell=cell, order=order):
        c = sym.new_ctx()
        K = sym.symbolic('k', (n, units))
        x, xin = _sym_inputs(p)
        idx, xs = _points(x, p)[-1]
        xc = _clipped(xs, sizes, p['clip'])
        cell_conds = _cellk_conds(xs, xc, sizes, cellk, p['clip'])
        res = [sym.s_sub(xc[d], cell[d]) for d in range(rank)]
        conds = cell_conds + _order_assumption(res, list(order))
        # every other point of the batch (units / extra batch dim) is pinned to the same point
        for idx2, xs2 in _points(x, p)[:-1]:
          for d in range(rank):
            conds.append(sym.EQ(xs2[d], xs[d]))
        c.case_assumptions = [sym.b(t) for t in conds] + list(extra)
        sv = z3.Solver()
        sv.add(*c.case_assumptions)
        if sv.check() == z3.unsat:
          return  # empty case (e.g. a 'top' coordinate cannot sort after a smaller residual)
        tag = '[cell=%s,order=%s%s]' % (_ck(cellk), list(order), ',leaf=' + leaf if leaf else '')
        try:
          (out,) = tr.sym_run(*xin, var_values={kvar.ref(): K})
        except sym.Undefined as e:
          case.solve('simplex-defined' + tag, z3.BoolVal(True), assumptions=[e.cond] if getattr(e, 'cond', None) is not None else [],
                     weak=getattr(e, 'cond', None) is not None, witness=dict(x=x, k=K), timeout=tmo,
                     sig=dict(query='defined', interp='simplex', why=str(e)[:80]), replay=replay)
          return
        case.meta['ops'] = tr.ops_seen
        Kc = K.reshape(sizes + [units])
        bad = []
        for (i2, _) in _points(x, p):
          u = i2[-1] if units > 1 else 0
          ref = specs.simplex_in_cell(Kc[..., u], sizes, xc, list(cell), list(order))
          o = out[i2] if units > 1 else out[i2 + (0,)]
          bad.append(sym.NE(o, ref))
        case.solve('simplex-identity' + tag, core.any_of(bad), witness=dict(x=x, k=K), timeout=tmo,
                   sig=dict(query='identity', interp='simplex'), replay=replay)
        if state['first']:
          case.solve('twin:case-reachable', z3.BoolVal(True), expect='sat', kind='twin', timeout=30)
          state['first'] = False
        # agreement with multilinear interpolation on axis-parallel edges and vertices of the cell
        for d0 in range(rank):
          edge = [z3.Or(sym.EQ(res[d], 0), sym.EQ(res[d], 1)) for d in range(rank) if d != d0]
          i2 = _points(x, p)[-1][0]
          o = out[i2] if units > 1 else out[i2 + (0,)]
          ref_h = specs.hypercube_in_cell(Kc[..., i2[-1] if units > 1 else 0], sizes, xc, list(cell))
          case.solve('simplex-equals-hypercube-on-edges%s[free=%d]' % (tag, d0), sym.NE(o, ref_h), assumptions=edge,
                     witness=dict(x=x, k=K), timeout=tmo, sig=dict(query='edges', interp='simplex'), replay=replay)
      core.split_run(build)
  # the cases partition the (clipped / in-range) input space
  sym.new_ctx()
  x, xin = _sym_inputs(p)
  idx, xs = _points(x, p)[-1]
  dom = [] if p['clip'] else [z3.And(xv >= 0, xv <= s - 1) for xv, s in zip(xs, sizes)]
  # rebuild the case conditions over these variables
  covers = []
  xc = _clipped(xs, sizes, p['clip'])
  for cellk in _cells_top(sizes):
    cell = tuple(c for c, _ in cellk)
    for order in itertools.permutations(range(rank)):
      cc = _cellk_conds(xs, xc, sizes, cellk, True)
      res = [sym.s_sub(xc[d], cell[d]) for d in range(rank)]
      covers.append(z3.And([sym.b(t) for t in cc] + _order_assumption(res, list(order))))
  case.solve('cases-cover-input-space', z3.Not(z3.Or(covers)), assumptions=dom, witness=dict(x=x), timeout=tmo,
             sig=dict(query='cover'), replay=None)
  return case


def case_reference(**p):
  """Continuity of the references across cell faces / tie boundaries (specification-side sanity: the per-case
  identities above then give continuity of the implementation)."""
  sizes = list(p['sizes'])
  rank = len(sizes)
  n = int(np.prod(sizes))
  case = Case(PROP, p['name'], {k: v for k, v in p.items() if k != 'name'})
  sym.new_ctx()
  K = sym.symbolic('k', tuple(sizes))
  xs = [z3.Real('x_%d' % d) for d in range(rank)]
  dom = [z3.And(xv >= 0, xv <= s - 1) for xv, s in zip(xs, sizes)]
  cells = _cells(sizes)
  for c1, c2 in itertools.combinations(cells, 2):
    if max(abs(a - b) for a, b in zip(c1, c2)) > 1:
      continue
    both = []
    for d in range(rank):
      both += [xs[d] >= max(c1[d], c2[d]), xs[d] <= min(c1[d], c2[d]) + 1]
    h1 = specs.hypercube_in_cell(K, sizes, xs, list(c1))
    h2 = specs.hypercube_in_cell(K, sizes, xs, list(c2))
    case.solve('hypercube-reference-continuous[%s|%s]' % (list(c1), list(c2)), sym.NE(h1, h2), assumptions=both + dom,
               timeout=60, sig=dict(query='ref'), witness=dict())
    for o1 in itertools.permutations(range(rank)):
      s1 = specs.simplex_in_cell(K, sizes, xs, list(c1), list(o1))
      for o2 in itertools.permutations(range(rank)):
        s2 = specs.simplex_in_cell(K, sizes, xs, list(c2), list(o2))
        r1 = [xs[d] - c1[d] for d in range(rank)]
        r2 = [xs[d] - c2[d] for d in range(rank)]
        oc = [r1[a] >= r1[b] for a, b in zip(o1[:-1], o1[1:])] + [r2[a] >= r2[b] for a, b in zip(o2[:-1], o2[1:])]
        case.solve('simplex-reference-continuous[%s%s|%s%s]' % (list(c1), list(o1), list(c2), list(o2)), sym.NE(s1, s2),
                   assumptions=both + dom + oc, timeout=60, sig=dict(query='ref'), witness=dict())
  c1 = cells[0]
  for o1, o2 in itertools.combinations(itertools.permutations(range(rank)), 2):
    r1 = [xs[d] - c1[d] for d in range(rank)]
    inside = [z3.And(t >= 0, t <= 1) for t in r1]
    oc = [r1[a] >= r1[b] for a, b in zip(o1[:-1], o1[1:])] + [r1[a] >= r1[b] for a, b in zip(o2[:-1], o2[1:])]
    s1 = specs.simplex_in_cell(K, sizes, xs, list(c1), list(o1))
    s2 = specs.simplex_in_cell(K, sizes, xs, list(c1), list(o2))
    case.solve('simplex-reference-tie-continuous[%s|%s]' % (list(o1), list(o2)), sym.NE(s1, s2), assumptions=inside + oc,
               timeout=60, sig=dict(query='ref'), witness=dict())
  return case


def case_consequences(**p):
  """Asked directly on the real code: monotone kernel => monotone function (two arbitrary points);
  convex combination => output within [min kernel, max kernel]; Edgeworth kernel => main effect monotone in the
  conditional coordinate (hypercube)."""
  from tensorflow_lattice.python import lattice_lib as ll, lattice_layer as LL
  sizes, units = list(p['sizes']), p['units']
  rank = len(sizes)
  n = int(np.prod(sizes))
  case = Case(PROP, p['name'], {k: v for k, v in p.items() if k != 'name'})
  case.encoded(LL.Lattice.call, ll.evaluate_with_hypercube_interpolation, ll.compute_interpolation_weights)
  layer, tr = _trace_layer(p, batch=2)
  kvar = layer.kernel
  done, mism = tr.validate(np.random.default_rng(1), n=2, gen=_gen_inputs(p),
                           var_shapes={kvar.name: lambda r, t: core.dyadic(r, [n, units], t)})
  sym.new_ctx()
  K = sym.symbolic('k', (n, units))
  x, xin = _sym_inputs(p, batch=2)
  (out,) = tr.sym_run(*xin, var_values={kvar.ref(): K})
  case.meta.update(validation_points=done, validation_mismatch=mism, ops=tr.ops_seen, nodes=tr.n_nodes)
  replay = dict(fn='layer2', params=p)
  tmo = p.get('timeout', 120)
  dom = []
  if not p['clip']:
    dom = [z3.And(xv >= 0, xv <= sizes[d] - 1) for xv, d in
           [(x[idx + (d,)], d) for idx in np.ndindex(*x.shape[:-1]) for d in range(rank)]]
  o = out.reshape(2, -1)
  X = x.reshape(2, -1, rank)
  for d0 in p.get('mono_dims', []):
    mono = [1 if d == d0 else 0 for d in range(rank)]
    cons = specs.lattice_constraints(K, sizes, units, monotonicities=mono)
    rel = []
    for u in range(X.shape[1]):
      for d in range(rank):
        rel.append(X[0, u, d] <= X[1, u, d] if d == d0 else X[0, u, d] == X[1, u, d])
    bad = [sym.s_cmp('gt', o[0, u], o[1, u]) for u in range(o.shape[1])]
    case.solve('monotone-kernel-gives-monotone-function[dim=%d]' % d0, core.any_of(bad),
               assumptions=specs.holds(cons) + rel + dom, witness=dict(x=x, k=K), timeout=tmo,
               sig=dict(query='monotone', interp=p['interp']), replay=replay, required=p.get('required', True))
  # range
  kmin = K[0, 0]
  bad = []
  for u in range(units):
    lo, hi = sym.symbolic('lo%d' % u, ())[()], sym.symbolic('hi%d' % u, ())[()]
    bnd = [z3.And(K[v, u] >= lo, K[v, u] <= hi) for v in range(n)]
    ou = o[0, u] if o.shape[1] > 1 and units > 1 else o[0, 0]
    case.solve('output-within-kernel-range[unit=%d]' % u, z3.Or(sym.s_cmp('lt', ou, lo), sym.s_cmp('gt', ou, hi)),
               assumptions=bnd + dom, witness=dict(x=x, k=K), timeout=tmo, sig=dict(query='range', interp=p['interp']),
               replay=replay, required=p.get('required', True))
  for (m, c_, dr) in p.get('edgeworth', []):
    cons = specs.lattice_constraints(K, sizes, units, edgeworth=[(m, c_, dr)])
    # four points: (a, c1), (a+delta, c1), (a, c2), (a+delta, c2) with c1 <= c2 : effect at c2 >= effect at c1 (dr=1)
    # use two traced batches: need 4 points -> run the graph twice
    x2, xin2 = _sym_inputs(p, name='y', batch=2)
    (out2,) = tr.sym_run(*xin2, var_values={kvar.ref(): K})
    o2 = out2.reshape(2, -1)
    Y = x2.reshape(2, -1, rank)
    rel = []
    for u in range(X.shape[1]):
      for d in range(rank):
        if d == m:
          rel += [X[0, u, d] <= X[1, u, d], Y[0, u, d] == X[0, u, d], Y[1, u, d] == X[1, u, d]]
        elif d == c_:
          rel += [X[0, u, d] == X[1, u, d], Y[0, u, d] == Y[1, u, d], X[0, u, d] <= Y[0, u, d]]
        else:
          rel += [X[0, u, d] == X[1, u, d], Y[0, u, d] == X[0, u, d], Y[1, u, d] == X[0, u, d]]
    dom2 = []
    if not p['clip']:
      dom2 = [z3.And(Y[i, u, d] >= 0, Y[i, u, d] <= sizes[d] - 1) for i in range(2) for u in range(Y.shape[1]) for d in range(rank)]
    bad = []
    for u in range(o.shape[1]):
      e1 = sym.s_sub(o[1, u], o[0, u])
      e2 = sym.s_sub(o2[1, u], o2[0, u])
      bad.append(sym.s_cmp('lt', sym.s_mul(sym.s_sub(e2, e1), dr), 0))
    case.solve('edgeworth-kernel-gives-trust[%d,%d,%d]' % (m, c_, dr), core.any_of(bad),
               assumptions=specs.holds(cons) + rel + dom + dom2, witness=dict(x=x, y=x2, k=K), timeout=tmo,
               sig=dict(query='edgeworth', interp=p['interp']), required=False,
               inline_replay=lambda mdl, xin2=xin2, dr=dr: _edgeworth_replay(mdl, tr, xin, xin2, kvar, K, dr))
  return case


def _edgeworth_replay(mdl, tr, xin, xin2, kvar, K, dr):
  kv = {kvar.ref(): core.model_np(mdl, K)}
  o1 = np.asarray(tr.tf_run(*[core.model_np(mdl, a) for a in xin], var_values=kv)[0], dtype=np.float64).reshape(2, -1)
  o2 = np.asarray(tr.tf_run(*[core.model_np(mdl, a) for a in xin2], var_values=kv)[0], dtype=np.float64).reshape(2, -1)
  gap = ((o2[1] - o2[0]) - (o1[1] - o1[0])) * dr
  return dict(reproduced=bool(np.min(gap) < -1e-4), detail=dict(min_gap=float(np.min(gap))))


def replay(r):
  import tensorflow as tf
  p = r['replay']['params']
  sizes, units = list(p['sizes']), p['units']
  rank = len(sizes)
  n = int(np.prod(sizes))
  layer = _layer(p)
  x = core.witness_np(r['witness']['x'])
  if r.get('query', '').startswith('simplex-defined'):
    # the query only says where the code has no defined behaviour; any kernel that tells the vertices apart will do
    K = (np.arange(n * units, dtype=np.float64).reshape(n, units) * 0.75 - 1.0)
  elif 'k' in r['witness']:
    K = core.witness_np(r['witness']['k'])
  else:
    K = np.random.default_rng(0).integers(-8, 8, size=(n, units)) / 4.0
  if p.get('list_input'):
    out = layer([tf.constant(x[..., d:d + 1], tf.float32) for d in range(rank)])
  else:
    out = layer(tf.constant(x, tf.float32))
  layer.kernel.assign(K.astype(np.float32))
  try:
    if p.get('list_input'):
      out = layer([tf.constant(x[..., d:d + 1], tf.float32) for d in range(rank)])
    else:
      out = layer(tf.constant(x, tf.float32))
  except Exception as e:  # pylint: disable=broad-except
    return dict(reproduced=True, detail=dict(real_code_raised=repr(e)[:300], x=x.tolist()))
  out = np.asarray(out, dtype=np.float64)
  # independent numeric reference
  Kc = K.reshape(sizes + [units])
  o = out.reshape(x.shape[0], -1)
  X = x.reshape(x.shape[0], -1, rank)
  res = []
  worst = 0.0
  for b_ in range(X.shape[0]):
    for u in range(X.shape[1]):
      xs = [float(v) for v in X[b_, u]]
      xc = [min(max(v, 0.0), s - 1.0) for v, s in zip(xs, sizes)] if p['clip'] else xs
      cell = [min(int(v), s - 2) for v, s in zip(xc, sizes)]
      uu = u if units > 1 else 0
      if p['interp'] == 'hypercube':
        ref = float(specs.hypercube_in_cell(sym.obj(Kc[..., uu]), sizes, [Fraction(v) for v in xc], cell))
      else:
        resid = [v - c for v, c in zip(xc, cell)]
        order = sorted(range(rank), key=lambda i: (-resid[i], i))
        ref = float(specs.simplex_in_cell(sym.obj(Kc[..., uu]), sizes, [Fraction(v) for v in xc], cell, order))
      got = float(o[b_, u if o.shape[1] > 1 else 0])
      res.append((xs, got, ref))
      worst = max(worst, abs(got - ref))
  scale = max(1.0, float(np.max(np.abs(K))))
  det = dict(points=res, worst_abs_diff=worst)
  rep = worst > 1e-4 * scale
  if r['query'].startswith('monotone') or r['query'].startswith('output-within') :
    # consequence queries: re-evaluate the consequence itself
    if r['query'].startswith('output-within'):
      rep = rep or bool(o.min() < K.min() - 1e-4 * scale or o.max() > K.max() + 1e-4 * scale)
    else:
      rep = rep or bool(np.any(o[0] > o[1] + 1e-4 * scale))
  return dict(reproduced=bool(rep), detail=det)


def cases(tier, seed):
  out = []

  def add(fn, cap=600, required=True, **p):
    nm = '%s-%s-u%d-%s%s%s%s' % (fn.replace('case_', ''), 'x'.join(map(str, p['sizes'])), p.get('units', 1),
                                 p.get('interp', ''), '-clip' if p.get('clip') else '-noclip',
                                 '-list' if p.get('list_input') else '', '-xb' if p.get('extra_batch') else '')
    p['name'] = nm
    out.append(dict(name=nm, fn=fn, params=p, cap=cap, required=required))

  for sizes in ([2, 2], [3, 2], [2, 3], [3, 3], [2, 2, 2], [2, 3, 2], [3, 3, 2]):
    for clip in (True, False):
      add('case_hypercube', sizes=sizes, units=1, interp='hypercube', clip=clip)
      add('case_simplex', sizes=sizes, units=1, interp='simplex', clip=clip)
  add('case_hypercube', sizes=[2, 3], units=2, interp='hypercube', clip=True)
  # rank 8 (the code switches to another outer-product implementation above 7 dimensions): unclipped, decided by normal forms
  add('case_hypercube', sizes=[2] * 8, units=1, interp='hypercube', clip=False, poly=True, cap=900)
  add('case_hypercube', sizes=[2, 2], units=2, interp='hypercube', clip=True)
  add('case_hypercube', sizes=[3, 2], units=1, interp='hypercube', clip=True, list_input=True)
  add('case_hypercube', sizes=[2, 2, 2], units=2, interp='hypercube', clip=True, list_input=True)
  add('case_hypercube', sizes=[2, 3], units=1, interp='hypercube', clip=True, extra_batch=True)
  # several units / an extra batch dimension together with a run of equal sizes above 2 (the bucketed code path)
  add('case_hypercube', sizes=[3, 3], units=2, interp='hypercube', clip=True)
  add('case_hypercube', sizes=[3, 3], units=3, interp='hypercube', clip=False)
  add('case_hypercube', sizes=[2, 3, 3], units=2, interp='hypercube', clip=True, required=False, timeout=200)
  add('case_hypercube', sizes=[3, 3], units=1, interp='hypercube', clip=True, extra_batch=True)
  add('case_hypercube', sizes=[3, 3], units=2, interp='hypercube', clip=True, list_input=True)
  add('case_simplex', sizes=[3, 3], units=2, interp='simplex', clip=True)
  add('case_simplex', sizes=[2, 3], units=2, interp='simplex', clip=True)
  add('case_simplex', sizes=[2, 2], units=2, interp='simplex', clip=True)
  add('case_simplex', sizes=[3, 2], units=1, interp='simplex', clip=True, list_input=True)
  add('case_simplex', sizes=[2, 3], units=1, interp='simplex', clip=True, extra_batch=True)
  for sizes in ([2, 2], [3, 3], [2, 3, 2]):
    add('case_reference', sizes=sizes)
  add('case_consequences', sizes=[2, 2], units=1, interp='hypercube', clip=True, mono_dims=[0, 1], edgeworth=[(0, 1, 1)])
  add('case_consequences', sizes=[3, 3], units=1, interp='hypercube', clip=True, mono_dims=[0, 1], edgeworth=[(0, 1, -1)])
  add('case_consequences', sizes=[3, 2], units=2, interp='hypercube', clip=False, mono_dims=[0])
  add('case_consequences', sizes=[2, 2, 2], units=1, interp='hypercube', clip=True, mono_dims=[1])
  add('case_consequences', sizes=[2, 3, 2], units=1, interp='hypercube', clip=True, mono_dims=[1], required=False, timeout=200)
  if tier == 'thorough':
    for sizes in ([2, 2, 2, 2], [4, 3], [2, 2, 3, 3, 2], [3, 3, 3]):
      add('case_hypercube', sizes=sizes, units=1, interp='hypercube', clip=True, required=False, cap=3000, timeout=300)
    for sizes in ([2, 2, 2, 2], [4, 3], [3, 3, 3]):
      add('case_simplex', sizes=sizes, units=1, interp='simplex', clip=True, required=False, cap=3000)
    add('case_hypercube', sizes=[2] * 8, units=1, interp='hypercube', clip=True, required=False, cap=3000, timeout=600)
    add('case_consequences', sizes=[2, 2, 2, 2], units=1, interp='hypercube', clip=True, mono_dims=[2], required=False,
        timeout=600, cap=1500)
    add('case_consequences', sizes=[3, 3, 3], units=1, interp='hypercube', clip=True, mono_dims=[0], required=False,
        timeout=600, cap=1500)
  return out
