"""C07 - KroneckerFactoredLattice after its constraints gives monotone, bounded outputs."""
import itertools
from fractions import Fraction

import numpy as np
import z3

from vf import sym, specs, core
from vf.core import Case, Traced

PROP = 'C07'

META = dict(
    level='model_checking',
    technique='symbolic execution of the traced TF graphs of the constraint objects the real KroneckerFactoredLattice.build '
              'attaches (KroneckerFactoredLatticeConstraints, ScaleConstraints, or none), of finalize_constraints(), and of '
              'KroneckerFactoredLattice.call, composed in both application orders; z3 QF_NRA; dims-th root by its contract',
    bounds=dict(
        quick='lattice_sizes 2-3, dims 2, units 1-2, num_terms 1-2; every monotonicity subset (incl. none) x bounds '
              '{none,min,max,both}; raw kernel, raw scale, two input points all symbolic (unbounded reals)',
        thorough='adds dims 3, lattice_sizes 4, units 2 with 2 terms'),
    outside=['IEEE-754 rounding/overflow', 'sizes beyond the bounds', 'clip_inputs=False with out-of-range inputs'],
    assumptions=['TF op semantics as in vf/interp.py (validated per case)', 'z3 is sound',
                 'Pow(x, 1/k) contract: r >= 0 and r^k = x',
                 'Keras applies variable.constraint after an optimizer update (both orders of kernel/scale are covered)'],
)


def _layer(p):
  from tensorflow_lattice.python import kronecker_factored_lattice_layer as KL
  layer = KL.KroneckerFactoredLattice(lattice_sizes=p['ls'], units=p['units'], num_terms=p['terms'],
                                      monotonicities=list(p['mono']) if p['mono'] is not None else None,
                                      output_min=p['omin'], output_max=p['omax'], clip_inputs=p.get('clip', True))
  import tensorflow as tf
  shp = [None, p['dims']] if p['units'] == 1 else [None, p['units'], p['dims']]
  layer.build(tf.TensorShape(shp))
  return layer


def case_kfl(**p):
  import tensorflow as tf
  from tensorflow_lattice.python import kronecker_factored_lattice_layer as KL, kronecker_factored_lattice_lib as kl
  case = Case(PROP, p['name'], {k: v for k, v in p.items() if k != 'name'})
  case.encoded(KL.KroneckerFactoredLatticeConstraints.__call__, KL.ScaleConstraints.__call__, KL.KroneckerFactoredLattice.build,
               KL.KroneckerFactoredLattice.call, kl.finalize_weight_constraints, kl.finalize_scale_constraints,
               kl._approximately_project_monotonicity, kl._approximately_project_bounds,
               kl.evaluate_with_hypercube_interpolation, kl.bias_initializer)
  layer = _layer(p)
  ls, dims, units, terms = p['ls'], p['dims'], p['units'], p['terms']
  kshape = (1, ls, units * dims, terms)
  sshape = (units, terms)
  xshape = [2, dims] if units == 1 else [2, units, dims]
  mode = p['mode']  # 'scale-first' | 'kernel-first' | 'finalize'
  if mode == 'finalize':
    kcon, scon = layer._final_kernel_constraints, layer._final_scale_constraints
  else:
    kcon, scon = layer.kernel.constraint, layer.scale.constraint
  case.meta['kernel_constraint_attached'] = kcon is not None
  case.meta['scale_constraint_attached'] = scon is not None
  rng = np.random.default_rng(0)
  vpts = 0
  tr_s = tr_k = None
  if scon is not None:
    tr_s = Traced(lambda s: scon(s), [tf.TensorSpec(list(sshape), tf.float32)], name='ScaleConstraints')
    vpts += tr_s.validate(rng, n=1)[0]
  if kcon is not None:
    tr_k = Traced(lambda k: kcon(k), [tf.TensorSpec(list(kshape), tf.float32)], name='KroneckerFactoredLatticeConstraints')
    vpts += tr_k.validate(rng, n=1)[0]
  tr_c = Traced(lambda xx: layer(xx), [tf.TensorSpec(xshape, tf.float32)], name='KroneckerFactoredLattice.call')
  vpts += tr_c.validate(rng, n=1)[0]
  sym.new_ctx()
  s_raw = sym.symbolic('s', sshape)
  k_raw = sym.symbolic('k', kshape)
  x = sym.symbolic('x', tuple(xshape))
  s2 = tr_s.sym_run(s_raw)[0] if tr_s is not None else s_raw
  if tr_k is not None:
    seen_scale = s2 if mode == 'scale-first' else s_raw
    (k2,) = tr_k.sym_run(k_raw, var_values={layer.scale.ref(): seen_scale})
  else:
    k2 = k_raw
  vv = {layer.scale.ref(): s2, layer.kernel.ref(): k2}
  bsym = None
  # whatever the optimizer may move is arbitrary after training: the bias is symbolic exactly when the built layer makes it
  # trainable (the library keeps it fixed for bounded layers); otherwise it keeps its initial value
  if layer.bias.trainable:
    bsym = sym.symbolic('b', (units,))
    vv[layer.bias.ref()] = bsym
  (out,) = tr_c.sym_run(x, var_values=vv)
  case.meta.update(validation_points=vpts, validation_mismatch=0, ops=tr_c.ops_seen, stubs=sym.ctx().stubs)
  X = x.reshape(2, -1, dims)
  o = out.reshape(2, -1)
  tmo = p.get('timeout', 120)
  replay = dict(fn='kfl', params=p)
  dom = []
  if not p.get('clip', True):
    dom = [z3.And(v >= 0, v <= ls - 1) for v in x.reshape(-1)]
  mono = [1 if mm in (1, 'increasing') else 0 for mm in p['mono']] if p['mono'] is not None else [0] * dims  # documented spellings
  wit = dict(x=x, s=s_raw, k=k_raw)
  if bsym is not None:
    wit['b'] = bsym
  for d0 in [i for i, mm in enumerate(mono) if mm]:
    rel = []
    for u in range(X.shape[1]):
      for dd in range(dims):
        rel.append(X[0, u, dd] <= X[1, u, dd] if dd == d0 else X[0, u, dd] == X[1, u, dd])
    bad = [sym.s_cmp('gt', o[0, u], o[1, u]) for u in range(o.shape[1])]
    case.solve('monotone[dim=%d]' % d0, core.any_of(bad), assumptions=rel + dom, witness=wit, timeout=tmo,
               sig=dict(query='monotone', mode=mode, any_monotonicity=True), replay=replay, required=p.get('required', True))
  bad = []
  for u in range(o.shape[1]):
    if p['omin'] is not None:
      bad.append(sym.s_cmp('lt', o[0, u], Fraction(p['omin'])))
    if p['omax'] is not None:
      bad.append(sym.s_cmp('gt', o[0, u], Fraction(p['omax'])))
  if bad:
    case.solve('bounded', core.any_of(bad), assumptions=dom, witness=wit, timeout=tmo,
               sig=dict(query='bounded', mode=mode, any_monotonicity=any(mono)), replay=replay,
               required=p.get('required', True))
  if bad or any(mono):
    # sabotage twin: without the constraints the same goals are violable
    vv_raw = dict(vv)
    vv_raw[layer.scale.ref()] = s_raw
    vv_raw[layer.kernel.ref()] = k_raw
    (out_raw,) = tr_c.sym_run(x, var_values=vv_raw)
    orw = out_raw.reshape(2, -1)
    tb = []
    if p['omin'] is not None:
      tb.append(sym.s_cmp('lt', orw[0, 0], Fraction(p['omin'])))
    if p['omax'] is not None:
      tb.append(sym.s_cmp('gt', orw[0, 0], Fraction(p['omax'])))
    for d0 in [i for i, mm in enumerate(mono) if mm][:1]:
      rel = []
      for u in range(X.shape[1]):
        for dd in range(dims):
          rel.append(X[0, u, dd] <= X[1, u, dd] if dd == d0 else X[0, u, dd] == X[1, u, dd])
      tb.append(z3.And(rel + [sym.b(sym.s_cmp('gt', orw[0, 0], orw[1, 0]))]))
    case.solve('twin:raw-weights-can-violate', core.any_of(tb), assumptions=dom, expect='sat', kind='twin', timeout=60)
  return case


def replay(r):
  import tensorflow as tf
  p = r['replay']['params']
  layer = _layer(p)
  w = r['witness']
  x = core.witness_np(w['x'])
  s = core.witness_np(w['s']).astype(np.float32)
  k = core.witness_np(w['k']).astype(np.float32)
  layer.scale.assign(s)
  layer.kernel.assign(k)
  if 'b' in w:
    layer.bias.assign(core.witness_np(w['b']).astype(np.float32))
  mode = p['mode']
  if mode == 'finalize':
    layer.finalize_constraints()
  elif mode == 'scale-first':
    if layer.scale.constraint is not None:
      layer.scale.assign(layer.scale.constraint(layer.scale))
    if layer.kernel.constraint is not None:
      layer.kernel.assign(layer.kernel.constraint(layer.kernel))
  else:
    if layer.kernel.constraint is not None:
      layer.kernel.assign(layer.kernel.constraint(layer.kernel))
    if layer.scale.constraint is not None:
      layer.scale.assign(layer.scale.constraint(layer.scale))
  out = layer(tf.constant(x, tf.float32)).numpy().astype(np.float64).reshape(2, -1)
  scale = max(1.0, float(np.max(np.abs(out))))
  tol = 1e-4 * scale
  if r['query'].startswith('monotone'):
    bad = bool(np.any(out[0] > out[1] + tol))
  else:
    bad = bool((p['omin'] is not None and out[0].min() < p['omin'] - tol) or (p['omax'] is not None and out[0].max() > p['omax'] + tol))
  return dict(reproduced=bad, detail=dict(outputs=out.tolist(), x=x.tolist(), scale=layer.scale.numpy().tolist(),
                                          kernel=layer.kernel.numpy().tolist()))


def cases(tier, seed):
  out = []

  def add(required=True, cap=600, **p):
    p.setdefault('clip', True)
    nm = 'ls%d-d%d-u%d-t%d-m%s-b%s,%s-%s%s' % (p['ls'], p['dims'], p['units'], p['terms'],
                                              'N' if p['mono'] is None else ''.join(map(str, p['mono'])), p['omin'], p['omax'],
                                              p['mode'], '' if p['clip'] else '-noclip')
    p['name'] = nm
    p['required'] = required
    out.append(dict(name=nm, fn='case_kfl', params=p, cap=cap, required=required))

  bounds = [(None, None), (0.0, None), (None, 1.0), (0.0, 1.0), (-1.0, 2.5)]
  for mode in ('scale-first', 'kernel-first', 'finalize'):
    for mono in (None, [0, 0], [1, 0], [0, 1], [1, 1]):
      for (omin, omax) in bounds:
        if mono in (None, [0, 0]) and omin is None and omax is None:
          continue
        two = omin is not None and omax is not None
        add(ls=2, dims=2, units=1, terms=1, mono=mono, omin=omin, omax=omax, mode=mode)
        if mode != 'finalize' or mono in ([1, 0],):
          add(ls=2, dims=2, units=1, terms=2, mono=mono, omin=omin, omax=omax, mode=mode, required=not two, timeout=100 if not two else 30)
        if mono in ([1, 0], None) and mode == 'scale-first':
          add(ls=3, dims=2, units=1, terms=1, mono=mono, omin=omin, omax=omax, mode=mode, required=not two, timeout=100 if not two else 30)
          add(ls=2, dims=2, units=2, terms=1, mono=mono, omin=omin, omax=omax, mode=mode, required=not two, timeout=100 if not two else 30)
  # an upper bound that is exactly 0, alone (no monotonicity to hide behind)
  add(ls=2, dims=2, units=1, terms=1, mono=None, omin=None, omax=0.0, mode='scale-first')
  add(ls=2, dims=2, units=1, terms=1, mono=[0, 0], omin=None, omax=0.0, mode='finalize')
  add(ls=2, dims=2, units=1, terms=1, mono=[1, 0], omin=0.0, omax=1.0, mode='scale-first', clip=False)
  add(ls=3, dims=2, units=1, terms=1, mono=[1, 1], omin=None, omax=None, mode='kernel-first', clip=False, required=False)
  # the documented string spellings of the monotonicities
  for mono_s in (['increasing', 'none'], ['none', 'increasing'], [1, 'increasing']):
    add(ls=3, dims=2, units=1, terms=1, mono=mono_s, omin=None, omax=None, mode='kernel-first')
    if tier == 'thorough':
      add(ls=2, dims=2, units=2, terms=1, mono=mono_s, omin=-1.0, omax=2.0, mode='finalize', required=False, timeout=300)
  # bounds whose interval does not contain 0 / is far from 0 (midpoint and half-width differ in sign or size)
  for (lo, hi) in ((2.0, 3.0), (-4.0, -3.0), (1.0, 2.5)):
    for mode in ('scale-first', 'finalize'):
      add(ls=2, dims=2, units=1, terms=1, mono=[1, 0], omin=lo, omax=hi, mode=mode)
    add(ls=2, dims=2, units=2, terms=2, mono=[0, 0], omin=lo, omax=hi, mode='kernel-first', required=False, timeout=100)
  if tier == 'thorough':
    for mode in ('scale-first', 'kernel-first'):
      for mono in (None, [1, 0, 1], [0, 0, 1]):
        for (omin, omax) in bounds:
          if mono is None and omin is None and omax is None:
            continue
          add(ls=2, dims=3, units=1, terms=1, mono=mono, omin=omin, omax=omax, mode=mode, required=False, timeout=600, cap=1500)
      for (omin, omax) in bounds[1:]:
        add(ls=4, dims=2, units=1, terms=1, mono=[1, 0], omin=omin, omax=omax, mode=mode, required=False, timeout=600, cap=1500)
        add(ls=2, dims=2, units=2, terms=2, mono=[0, 1], omin=omin, omax=omax, mode=mode, required=False, timeout=600, cap=1500)
  return out
