"""Reference predicates and formulas (the specification side, DESIGN 1.5).

Everything here is written from the documentation of tensorflow_lattice, not
from its implementation, and works on numpy object arrays of vf.sym elements.
Each constraint is returned as (kind, location, signed_slack) where the
constraint holds iff signed_slack >= 0.
"""
import itertools
from fractions import Fraction
import numpy as np
from vf import sym


def _idx_iter(sizes):
  return np.ndindex(*sizes)


def lattice_constraints(w, sizes, units, monotonicities=None, unimodalities=None, edgeworth=None,
                        trapezoid=None, monotonic_dominances=None, range_dominances=None,
                        joint_monotonicities=None, joint_unimodalities=None, output_min=None, output_max=None):
  """All documented constraints of a Lattice kernel w of shape (prod(sizes), units)."""
  W = np.asarray(w, dtype=object).reshape(list(sizes) + [units])
  nd = len(sizes)
  cons = []
  mono = list(monotonicities or [0] * nd)
  uni = list(unimodalities or [0] * nd)

  def step(idx, d, k=1):
    j = list(idx)
    j[d] += k
    return tuple(j)
  for u in range(units):
    K = W[..., u]
    for d in range(nd):
      if mono[d]:
        for idx in _idx_iter(sizes):
          if idx[d] + 1 < sizes[d]:
            cons.append(('monotonicity', (d, idx, u), sym.s_sub(K[step(idx, d)], K[idx])))
      if uni[d]:
        # valley (1): decreasing for the first size//2 steps ... documented as
        # "first decreases then increases"; peak (-1) the opposite.
        for idx in _idx_iter(sizes):
          if idx[d] + 1 < sizes[d]:
            first = idx[d] < sizes[d] // 2
            diff = sym.s_sub(K[step(idx, d)], K[idx])
            if (uni[d] == 1) == first:
              diff = sym.s_neg(diff)
            cons.append(('unimodality', (d, idx, u), diff))
    for (m, c, dr) in edgeworth or []:
      for idx in _idx_iter(sizes):
        if idx[m] + 1 < sizes[m] and idx[c] + 1 < sizes[c]:
          lo = sym.s_sub(K[step(idx, m)], K[idx])
          hi = sym.s_sub(K[step(step(idx, m), c)], K[step(idx, c)])
          cons.append(('edgeworth', ((m, c, dr), idx, u), sym.s_mul(sym.s_sub(hi, lo), dr)))
    for (m, c, dr) in trapezoid or []:
      for idx in _idx_iter(sizes):
        if idx[c] + 1 < sizes[c] and idx[m] in (0, sizes[m] - 1):
          nxt = step(idx, c)
          if idx[m] == 0:
            # low side of main: value decreases as trust grows
            cons.append(('trapezoid', ((m, c, dr), idx, u), sym.s_mul(sym.s_sub(K[idx], K[nxt]), dr)))
          if idx[m] == sizes[m] - 1:
            cons.append(('trapezoid', ((m, c, dr), idx, u), sym.s_mul(sym.s_sub(K[nxt], K[idx]), dr)))
    for (dom, weak) in monotonic_dominances or []:
      for idx in _idx_iter(sizes):
        if idx[dom] + 1 < sizes[dom] and idx[weak] + 1 < sizes[weak]:
          a = K[idx]
          b = K[step(idx, dom)]
          c_ = K[step(idx, weak)]
          d_ = K[step(step(idx, dom), weak)]
          # effect of dominant step >= effect of weak step, on both triangles
          # (i,j),(i+1,j),(i+1,j+1): k[i+1,j]-k[i,j] >= k[i+1,j+1]-k[i+1,j]
          cons.append(('monotonic_dominance', ((dom, weak), idx, u, 'lower'),
                       sym.s_sub(sym.s_mul(b, 2), sym.s_add(a, d_))))
          # (i,j),(i,j+1),(i+1,j+1): k[i+1,j+1]-k[i,j+1] >= k[i,j+1]-k[i,j]
          cons.append(('monotonic_dominance', ((dom, weak), idx, u, 'upper'),
                       sym.s_sub(sym.s_add(a, d_), sym.s_mul(c_, 2))))
    for (dom, weak) in range_dominances or []:
      for idx in _idx_iter(sizes):
        # constraint per (i over dom, j over weak) pair, fixed others: only emit once per (i,j,rest)
        i, j = idx[dom], idx[weak]
        lo_d = list(idx); lo_d[dom] = 0
        hi_d = list(idx); hi_d[dom] = sizes[dom] - 1
        lo_w = list(idx); lo_w[weak] = 0
        hi_w = list(idx); hi_w[weak] = sizes[weak] - 1
        dom_range = sym.s_sub(K[tuple(hi_d)], K[tuple(lo_d)])
        weak_range = sym.s_sub(K[tuple(hi_w)], K[tuple(lo_w)])
        cons.append(('range_dominance', ((dom, weak), idx, u), sym.s_sub(dom_range, weak_range)))
    for (d1, d2) in joint_monotonicities or []:
      for idx in _idx_iter(sizes):
        if idx[d1] + 1 < sizes[d1] and idx[d2] + 1 < sizes[d2]:
          a = K[idx]
          b = K[step(idx, d1)]
          c_ = K[step(idx, d2)]
          d_ = K[step(step(idx, d1), d2)]
          cons.append(('joint_monotonicity', ((d1, d2), idx, u, 'lower'),
                       sym.s_sub(sym.s_mul(d_, 2), sym.s_add(b, c_))))
          cons.append(('joint_monotonicity', ((d1, d2), idx, u, 'upper'),
                       sym.s_sub(sym.s_add(b, c_), sym.s_mul(a, 2))))
    for idx in _idx_iter(sizes):
      if output_min is not None:
        cons.append(('output_min', (idx, u), sym.s_sub(K[idx], Fraction(output_min))))
      if output_max is not None:
        cons.append(('output_max', (idx, u), sym.s_sub(Fraction(output_max), K[idx])))
  return cons


def holds(cons, margin=0):
  return [sym.GE(c[2], margin) for c in cons]


def violated(cons, margin=0):
  """list of z3 Bools, one per constraint: violated by more than margin."""
  return [sym.b(sym.s_cmp('lt', c[2], -margin if margin else 0)) for c in cons]


def first_violated(cons, model, margin=0):
  """Names (kind, location) of constraints violated under a model."""
  out = []
  for c in cons:
    v = sym.subst_value(c[2], model)
    if v is None or v < -margin:
      out.append((c[0], c[1], None if v is None else float(v)))
  return out


# ---------------------------------------------------------------- interpolation references
def multilinear(K, sizes, x, clip=True):
  """Reference multilinear interpolation of kernel K (shape sizes) at point x
  (list of elements), given the cell `cell` chosen by the caller: returns a
  function of the cell."""
  raise NotImplementedError


def hypercube_in_cell(K, sizes, xs, cell):
  """sum over corners of the cell of prod_d w_d * K[corner]; xs are the
  (already clipped) coordinates, cell[d] the lower corner index."""
  nd = len(sizes)
  total = 0
  for corner in itertools.product([0, 1], repeat=nd):
    wgt = 1
    for d in range(nd):
      t = sym.s_sub(xs[d], cell[d])
      wgt = sym.s_mul(wgt, t if corner[d] else sym.s_sub(1, t))
    total = sym.s_add(total, sym.s_mul(wgt, K[tuple(cell[d] + corner[d] for d in range(nd))]))
  return total


def simplex_in_cell(K, sizes, xs, cell, order):
  """Sorted-simplex interpolation inside `cell` for residuals sorted in
  descending order `order` (a permutation of dims)."""
  nd = len(sizes)
  res = [sym.s_sub(xs[d], cell[d]) for d in range(nd)]
  srt = [res[d] for d in order]
  vertex = list(cell)
  total = sym.s_mul(sym.s_sub(1, srt[0]), K[tuple(vertex)])
  for r, d in enumerate(order):
    vertex[d] += 1
    nxt = srt[r + 1] if r + 1 < nd else 0
    total = sym.s_add(total, sym.s_mul(sym.s_sub(srt[r], nxt), K[tuple(vertex)]))
  return total


def clip(x, lo, hi):
  return sym.s_min(sym.s_max(x, lo), hi)


def pwl_outputs(kernel_col):
  """keypoint outputs = cumulative sums of a PWL kernel column."""
  out = []
  acc = 0
  for k in kernel_col:
    acc = sym.s_add(acc, k)
    out.append(acc)
  return out
