"""C05 - Calibration layers evaluate exactly the function their weights describe."""
import itertools
from fractions import Fraction

import numpy as np
import z3

from vf import sym, specs, core
from vf.core import Case, Traced

PROP = 'C05'

META = dict(
    level='model_checking',
    technique='symbolic execution of the traced TF graphs of PWLCalibration.call / keypoints_inputs / keypoints_outputs and '
              'CategoricalCalibration.call with symbolic kernel, logits and inputs; reference piecewise-linear interpolation '
              'by cases (left of range, segment i, right of range); z3 (QF_NRA, bilinear weight x kernel terms); softmax by '
              'its contract (positive, sums to 1); the documented output form (list iff split_outputs and units > 1) is executed',
    bounds=dict(
        quick='2-4 keypoints with spacings uniform and (1,2,1/2); units 1-2; single-column and per-unit inputs; split_outputs; '
              'cyclic; both missing-value modes; fixed and learned_interior keypoints; 3-4 buckets with default value; all real '
              'kernels / logits / inputs; categorical indices enumerated',
        thorough='adds 5-6 keypoints, units 3'),
    outside=['IEEE-754 rounding other than the modelled softmax underflow (one share exactly 0, division by the zero length '
             'executed as IEEE: x/0 = +-inf, 0/0 = NaN)', 'keypoint counts beyond the bounds'],
    assumptions=['TF op semantics per vf/interp.py (validated per case)', 'z3 is sound',
                 'Softmax contract: outputs positive, sum to 1, ordered like the logits; in the underflow cases one chosen share is '
                 'exactly 0 (what float32 returns for a logit ~104 below the largest)'],
)


def _kps(nk, spacing):
  if spacing == 'u':
    return [float(i) for i in range(nk)]
  if spacing == 'w':
    # a huge dynamic range (gaps below float32 epsilon times the whole range), all values exactly representable
    return ([0.0, 2.0, 33554432.0] if nk == 3 else [-33554432.0, -2.0, 0.0, 2.0, 4.0][:nk])
  gaps = [1.0, 2.0, 0.5, 1.5, 0.25][:nk - 1]
  out = [-1.0]
  for g in gaps:
    out.append(out[-1] + g)
  return out


def _layer(p):
  from tensorflow_lattice.python import pwl_calibration_layer as PL
  kw = dict(input_keypoints=_kps(p['nk'], p['spacing']), units=p['units'], is_cyclic=p.get('cyclic', False),
            split_outputs=p.get('split', False), input_keypoints_type=p.get('kptype', 'fixed'))
  if p.get('missing'):
    kw.update(impute_missing=True, missing_input_value=p.get('missing_input', None))
    if p['missing'] == 'fixed':
      kw.update(missing_output_value=0.25)
  layer = PL.PWLCalibration(**kw)
  return layer


def _softmax_vars(logits):
  """the stub variables standing for softmax(logits) row by row (for replay: logits := log(softmax value))"""
  c = sym.ctx()
  out = np.empty(logits.shape, dtype=object)
  for u in range(logits.shape[0]):
    key = ('softmax',) + tuple(logits[u, i].get_id() for i in range(logits.shape[1]))
    vs = c.softmax[key][1]
    for i, v in enumerate(vs):
      out[u, i] = v
  return out


def _ref_pwl(x, kps, outs):
  """reference: constant left, linear through (kp_i, out_i), constant right; as (condition, value) cases"""
  cases = [(sym.LE(x, kps[0]), outs[0])]
  for i in range(len(kps) - 1):
    t = sym.s_div(sym.s_sub(x, kps[i]), sym.s_sub(kps[i + 1], kps[i]))
    val = sym.s_add(outs[i], sym.s_mul(t, sym.s_sub(outs[i + 1], outs[i])))
    cases.append((z3.And(sym.GE(x, kps[i]), sym.LE(x, kps[i + 1])), val))
  cases.append((sym.GE(x, kps[-1]), outs[-1]))
  return cases


def case_pwl(**p):
  import tensorflow as tf
  from tensorflow_lattice.python import pwl_calibration_layer as PL, pwl_calibration_lib as pl
  case = Case(PROP, p['name'], {k: v for k, v in p.items() if k != 'name'})
  case.encoded(PL.PWLCalibration.call, PL.PWLCalibration.build, PL.PWLCalibration.keypoints_inputs,
               PL.PWLCalibration.keypoints_outputs, pl.compute_interpolation_weights)
  layer = _layer(p)
  _record_output_form(case, 'pwl', p)
  units, nk = p['units'], p['nk']
  cols = units if p.get('per_unit_input', False) else 1
  B = 1
  missing_flag = p.get('missing') and p.get('missing_input') is None
  specs_ = [tf.TensorSpec([B, cols], tf.float32)]
  if missing_flag:
    specs_.append(tf.TensorSpec([B, cols], tf.float32))

  def fn(*a):
    inp = list(a) if missing_flag else a[0]
    out = layer(inp)
    if isinstance(out, (list, tuple)):  # the form itself is checked by 'output-form-as-documented'
      out = tf.concat(out, axis=1)
    return out, layer.keypoints_inputs(), layer.keypoints_outputs()
  tr = Traced(fn, specs_, name='PWLCalibration.call')
  rows = nk - (1 if p.get('cyclic') else 0)
  kvar = layer.kernel
  vs = {kvar.name: lambda r, t: core.dyadic(r, [rows, units], t)}

  def gen(rng, i, shp, trial):
    if i == 1:
      return rng.integers(0, 2, size=shp).astype(np.float64)
    return rng.integers(-12, 20, size=shp) / 4.0
  done, mism = tr.validate(np.random.default_rng(0), n=3, gen=gen, var_shapes=vs)
  sym.new_ctx()
  K = sym.symbolic('k', (rows, units))
  x = sym.symbolic('x', (B, cols))
  vv = {kvar.ref(): K}
  wit = dict(x=x, k=K)
  logits = None
  if p.get('kptype') == 'learned_interior':
    logits = sym.symbolic('lg', (units, nk - 1))
    vv[layer.interpolation_logits.ref()] = logits
    wit['lg'] = logits
  mo = None
  if p.get('missing') == 'learned':
    mo = sym.symbolic('mo', (1, units))
    vv[layer.missing_output.ref()] = mo
    wit['mo'] = mo
  args = [x]
  flag = None
  if missing_flag:
    flag = sym.symbolic('f', (B, cols))
    args.append(flag)
    wit['f'] = flag
  out, kin, kout = tr.sym_run(*args, var_values=vv)
  if logits is not None:
    wit['softmax'] = _softmax_vars(logits)
  case.meta.update(validation_points=done, validation_mismatch=mism, ops=tr.ops_seen, nodes=tr.n_nodes,
                   stubs=sym.ctx().stubs)
  replay = dict(fn='pwl', params=p)
  tmo = p.get('timeout', 60)
  # keypoints_outputs() == cumulative sums (closing the cycle); keypoints_inputs() == configured / ordered keypoints
  bad = []
  for u in range(units):
    outs = specs.pwl_outputs(K[:, u])
    if p.get('cyclic'):
      outs = outs + [outs[0]]
    for i in range(nk):
      bad.append(sym.NE(kout[i, u], outs[i]))
  case.solve('keypoints_outputs-are-cumulative-sums', core.any_of(bad), witness=wit, timeout=tmo,
             sig=dict(query='kp_outputs'), replay=replay)
  kps_cfg = [Fraction(v) for v in _kps(nk, p['spacing'])]
  if logits is None:
    bad = [sym.NE(kin[i, u], kps_cfg[i]) for i in range(nk) for u in range(units)]
    case.solve('keypoints_inputs-are-configured', core.any_of(bad), witness=wit, timeout=tmo, sig=dict(query='kp_inputs'),
               replay=replay)
  else:
    bad = []
    for u in range(units):
      bad.append(sym.NE(kin[0, u], kps_cfg[0]))
      bad.append(sym.NE(kin[nk - 1, u], kps_cfg[-1]))
      for i in range(nk - 1):
        bad.append(sym.b(sym.s_cmp('ge', kin[i, u], kin[i + 1, u])))
    case.solve('learned-keypoints-ordered-between-fixed-ends', core.any_of(bad), witness=wit, timeout=tmo,
               sig=dict(query='kp_learned'), replay=replay)
  # function identity per unit: output == reference PWL through (keypoints_inputs, keypoints_outputs)
  for u in range(units):
    xu = x[0, u if cols > 1 else 0]
    kps = [kin[i, u] for i in range(nk)]
    outs = [kout[i, u] for i in range(nk)]
    o = out[0, u]
    miss_cond = None
    if p.get('missing'):
      if missing_flag:
        fu = flag[0, u if cols > 1 else 0]
        miss_val = mo[0, u] if mo is not None else Fraction(1, 4)
        # is_missing is used as a blend weight: claim for flag in {0,1}
        case.solve('flagged-missing-gives-missing-output[unit=%d]' % u, sym.NE(o, miss_val), assumptions=[fu == 1],
                   witness=wit, timeout=tmo, sig=dict(query='missing'), replay=replay)
        miss_cond = (fu == 0)
      else:
        mi = Fraction(p['missing_input'])
        miss_val = mo[0, u] if mo is not None else Fraction(1, 4)
        case.solve('missing-input-value-gives-missing-output[unit=%d]' % u, sym.NE(o, miss_val), assumptions=[xu == mi],
                   witness=wit, timeout=tmo, sig=dict(query='missing'), replay=replay)
        miss_cond = (xu != mi)
    for ci, (cond, val) in enumerate(_ref_pwl(xu, kps, outs)):
      assume = [cond] + ([miss_cond] if miss_cond is not None else [])
      case.solve('output-is-pwl-interpolation[unit=%d,piece=%d]' % (u, ci), sym.NE(o, val), assumptions=assume, witness=wit,
                 timeout=tmo, sig=dict(query='identity'), replay=replay, required=p.get('required', True))
    if p.get('cyclic'):
      pass  # kout[0] == kout[-1] by construction, and identity above => f(first kp) == f(last kp)
  # consequences asked directly: monotone / bounded keypoint outputs => monotone / bounded function (unit 0)
  if not p.get('missing') and B == 1:
    outs = [kout[i, 0] for i in range(nk)]
    lo, hi = z3.Real('lo'), z3.Real('hi')
    bnd = [z3.And(sym.GE(v, lo), sym.LE(v, hi)) for v in outs]
    case.solve('bounded-keypoint-outputs-give-bounded-function', z3.Or(sym.b(sym.s_cmp('lt', out[0, 0], lo)), sym.b(sym.s_cmp('gt', out[0, 0], hi))),
               assumptions=bnd, witness=wit, timeout=tmo, sig=dict(query='bounded'), replay=replay, required=False)
  case.solve('twin:output-depends-on-kernel', sym.NE(out[0, 0], 0), expect='sat', kind='twin', timeout=30)
  return case


def case_pwl_underflow(**p):
  """Learned interior keypoints one of whose softmax shares has underflowed to exactly 0 (float32 does that once a logit
  is ~104 below the largest): the segment has length 0, the function has a jump there, and the division by the segment
  length is executed the IEEE way (x/0 = +-inf, 0/0 = NaN).  Everywhere else the arithmetic stays exact."""
  import tensorflow as tf
  from tensorflow_lattice.python import pwl_calibration_layer as PL, pwl_calibration_lib as pl
  case = Case(PROP, p['name'], {k: v for k, v in p.items() if k != 'name'})
  case.encoded(PL.PWLCalibration.call, PL.PWLCalibration.keypoints_inputs, PL.PWLCalibration.keypoints_outputs,
               pl.compute_interpolation_weights)
  p = dict(p, kptype='learned_interior', units=1)
  layer = _layer(p)
  nk, zi = p['nk'], p['zero']
  tr = Traced(lambda a: (layer(a), layer.keypoints_inputs(), layer.keypoints_outputs()), [tf.TensorSpec([1, 1], tf.float32)],
              name='PWLCalibration.call')
  done, mism = tr.validate(np.random.default_rng(0), n=2)
  replay = dict(fn='pwl_underflow', params=p)
  tmo = p.get('timeout', 60)
  state = dict(leaves=0)

  def build(extra, leaf):
    c = sym.new_ctx()
    c.memo['ieee_div0'] = True
    c.memo['softmax_zero'] = (zi,)
    c.case_assumptions = list(extra)
    K = sym.symbolic('k', (nk, 1))
    x = sym.symbolic('x', (1, 1))
    logits = sym.symbolic('lg', (1, nk - 1))
    wit = dict(x=x, k=K, lg=logits)
    tag = '[leaf=%s]' % (leaf or 'root')
    state['leaves'] += 1
    try:
      out, kin, kout = tr.sym_run(x, var_values={layer.kernel.ref(): K, layer.interpolation_logits.ref(): logits})
    except sym.Undefined as e:
      wit['softmax'] = _softmax_vars(logits)
      case.solve('output-is-a-number-with-collapsed-segment' + tag, z3.BoolVal(True), witness=wit, timeout=tmo,
                 sig=dict(query='underflow-nan', why=str(e)[:40]), replay=replay)
      return
    wit['softmax'] = _softmax_vars(logits)
    case.meta.update(validation_points=done, validation_mismatch=mism, ops=tr.ops_seen, stubs=sym.ctx().stubs)
    xu, o = x[0, 0], out[0, 0]
    kps = [kin[i, 0] for i in range(nk)]
    outs = [kout[i, 0] for i in range(nk)]
    bad = [sym.NE(kps[0], Fraction(_kps(nk, p['spacing'])[0])), sym.NE(kps[-1], Fraction(_kps(nk, p['spacing'])[-1])),
           sym.NE(kps[zi], kps[zi + 1])]
    for i in range(nk - 1):
      bad.append(sym.b(sym.s_cmp('gt', kps[i], kps[i + 1])))
    case.solve('learned-keypoints-ordered-between-fixed-ends' + tag, core.any_of(bad), witness=wit, timeout=tmo,
               sig=dict(query='kp_learned'), replay=replay)
    # reference by pieces; the collapsed segment is a jump: exactly at the jump either side's value is accepted
    pieces = [(sym.b(sym.s_cmp('lt', xu, kps[0])), [outs[0]])]
    for i in range(nk - 1):
      if i == zi:
        pieces.append((sym.EQ(xu, kps[i]), [outs[i], outs[i + 1]]))
        continue
      t = sym.s_div(sym.s_sub(xu, kps[i]), sym.s_sub(kps[i + 1], kps[i]))
      val = sym.s_add(outs[i], sym.s_mul(t, sym.s_sub(outs[i + 1], outs[i])))
      lo = sym.s_cmp('gt' if i == zi + 1 else 'ge', xu, kps[i])
      hi = sym.s_cmp('lt' if i == zi - 1 else 'le', xu, kps[i + 1])
      pieces.append((z3.And(sym.b(lo), sym.b(hi)), [val]))
    pieces.append((sym.b(sym.s_cmp('gt', xu, kps[-1])), [outs[-1]]))
    for ci, (cond, vals) in enumerate(pieces):
      case.solve('output-is-pwl-interpolation-around-collapsed-segment%s[piece=%d]' % (tag, ci),
                 z3.And([sym.NE(o, v) for v in vals]), assumptions=[cond], witness=wit, timeout=tmo,
                 sig=dict(query='underflow-identity'), replay=replay, required=p.get('required', True))
    if state['leaves'] == 1 or leaf:
      case.solve('twin:leaf-reachable' + tag, z3.BoolVal(True), expect='sat', kind='twin', timeout=30)
  core.split_run(build)
  return case


def case_pwl_monotone(**p):
  """two input points: monotone keypoint outputs => monotone function (asked on the real code)"""
  import tensorflow as tf
  from tensorflow_lattice.python import pwl_calibration_layer as PL
  case = Case(PROP, p['name'], {k: v for k, v in p.items() if k != 'name'})
  case.encoded(PL.PWLCalibration.call)
  layer = _layer(p)
  units, nk = p['units'], p['nk']
  tr = Traced(lambda a: layer(a), [tf.TensorSpec([2, 1], tf.float32)], name='PWLCalibration.call')
  done, mism = tr.validate(np.random.default_rng(0), n=1)
  sym.new_ctx()
  K = sym.symbolic('k', (nk, units))
  x = sym.symbolic('x', (2, 1))
  vv = {layer.kernel.ref(): K}
  wit = dict(x=x, k=K)
  if p.get('kptype') == 'learned_interior':
    logits = sym.symbolic('lg', (units, nk - 1))
    vv[layer.interpolation_logits.ref()] = logits
    wit['lg'] = logits
  (out,) = tr.sym_run(x, var_values=vv)
  if 'lg' in wit:
    wit['softmax'] = _softmax_vars(wit['lg'])
  case.meta.update(validation_points=done, validation_mismatch=mism, ops=tr.ops_seen, stubs=sym.ctx().stubs)
  for sgn in (1, -1):
    heights = [sym.GE(sym.s_mul(K[i, u], sgn), 0) for i in range(1, nk) for u in range(units)]
    bad = [sym.s_cmp('gt', sym.s_mul(out[0, u], sgn), sym.s_mul(out[1, u], sgn)) for u in range(units)]
    case.solve('monotone-heights-give-monotone-function[dir=%d]' % sgn, core.any_of(bad),
               assumptions=heights + [x[0, 0] <= x[1, 0]], witness=wit, timeout=p.get('timeout', 120),
               sig=dict(query='monotone'), replay=dict(fn='pwl2', params=p), required=p.get('required', True))
  return case


def _output_form(kind, p):
  """the documented output form: a list of `units` (batch, 1) tensors iff split_outputs and units > 1 (split_outputs is ignored for
  fewer than two units), otherwise one (batch, units) tensor; also what compute_output_shape declares"""
  import tensorflow as tf
  if kind == 'cat':
    from tensorflow_lattice.python import categorical_calibration_layer as CL
    layer = CL.CategoricalCalibration(num_buckets=p['buckets'], units=p['units'], default_input_value=p.get('default'),
                                      split_outputs=p.get('split', False))
    x = tf.zeros([2, p['units'] if p.get('per_unit_input') else 1], dtype=tf.int32)
  else:
    layer = _layer(p)
    x = tf.zeros([2, p['units'] if p.get('per_unit_input') else 1])
    if p.get('missing') and p.get('missing_input') is None:
      x = [x, tf.zeros_like(x)]
  out = layer(x)
  units = p['units']
  want_list = bool(p.get('split')) and units > 1
  if want_list:
    ok = isinstance(out, (list, tuple)) and len(out) == units and all(tuple(o.shape) == (2, 1) for o in out)
  else:
    ok = (not isinstance(out, (list, tuple))) and tuple(out.shape) == (2, units)
  form = [tuple(o.shape) for o in out] if isinstance(out, (list, tuple)) else tuple(out.shape)
  return ok, 'expected %s, got %r' % ('a list of %d (2, 1) tensors' % units if want_list else 'one (2, %d) tensor' % units, form)


def _record_output_form(case, kind, p):
  pp = {k: v for k, v in p.items() if k != 'name'}
  try:
    ok, note = _output_form(kind, pp)
  except Exception as e:  # pylint: disable=broad-except
    ok, note = False, '%s: %s' % (type(e).__name__, str(e)[:120])
  case.record('output-form-as-documented', 'unsat' if ok else 'sat', kind='structural', witness={}, sig=dict(query='output-form', layer=kind),
              replay=dict(fn='output-form', params=dict(pp, kind=kind)), note=note)


def case_categorical(**p):
  import tensorflow as tf
  from tensorflow_lattice.python import categorical_calibration_layer as CL
  case = Case(PROP, p['name'], {k: v for k, v in p.items() if k != 'name'})
  case.encoded(CL.CategoricalCalibration.call, CL.CategoricalCalibration.build)
  nb, units = p['buckets'], p['units']
  layer = CL.CategoricalCalibration(num_buckets=nb, units=units, default_input_value=p.get('default'),
                                    split_outputs=p.get('split', False))
  cols = units if p.get('per_unit_input') else 1
  _record_output_form(case, 'cat', p)

  def fn(a):
    out = layer(a)
    if isinstance(out, (list, tuple)):  # the form itself is checked by 'output-form-as-documented'
      out = tf.concat(out, axis=1)
    return out
  dt = tf.int32 if p.get('int_input', True) else tf.float32
  tr = Traced(fn, [tf.TensorSpec([1, cols], dt)], name='CategoricalCalibration.call')

  def gen(rng, i, shp, trial):
    return rng.integers(0, nb, size=shp)
  done, mism = tr.validate(np.random.default_rng(0), n=2, gen=gen,
                           var_shapes={layer.kernel.name: lambda r, t: core.dyadic(r, [nb, units], t)})
  case.meta.update(validation_points=done, validation_mismatch=mism)
  values = list(range(nb)) + ([p['default']] if p.get('default') is not None else [])
  for combo in itertools.product(values, repeat=cols):
    sym.new_ctx()
    K = sym.symbolic('k', (nb, units))
    x = sym.obj(np.array([list(combo)], dtype=np.int64))
    (out,) = tr.sym_run(x, var_values={layer.kernel.ref(): K})
    case.meta['ops'] = tr.ops_seen
    bad = []
    for u in range(units):
      v = combo[u if cols > 1 else 0]
      row = nb - 1 if (p.get('default') is not None and v == p['default']) else v
      bad.append(sym.NE(out[0, u], K[row, u]))
    case.solve('category-maps-to-kernel-row[input=%s]' % list(combo), core.any_of(bad), witness=dict(k=K), timeout=30,
               sig=dict(query='categorical'), replay=dict(fn='cat', params=dict(p, combo=list(combo))))
  return case


def _replay_underflow(r, p, w):
  """Real layer, logits = log(softmax share) with the underflowed share 200 below the smallest other logit (so float32
  softmax really returns 0 there); an input the model puts on a keypoint is put on the float keypoint."""
  import tensorflow as tf
  layer = _layer(p)
  nk, zi = p['nk'], p['zero']
  layer(tf.zeros([1, 1]))
  K = core.witness_np(w['k'])
  layer.kernel.assign(K.astype(np.float32))
  sm = core.witness_np(w['softmax']).astype(np.float64)
  lg = np.where(sm > 0, np.log(np.where(sm > 0, sm, 1.0)), 0.0)
  lg[0, zi] = float(np.min(lg[0, [i for i in range(nk - 1) if i != zi]])) - 200.0
  layer.interpolation_logits.assign(lg.astype(np.float32).reshape(layer.interpolation_logits.shape))
  kin = layer.keypoints_inputs().numpy().astype(np.float64)[:, 0]
  kout = layer.keypoints_outputs().numpy().astype(np.float64)[:, 0]
  x = float(core.witness_np(w['x'])[0, 0])
  scale = max(1.0, float(np.max(np.abs(K))), float(np.max(np.abs(kout))))
  j = int(np.argmin(np.abs(kin - x)))
  if abs(kin[j] - x) <= 1e-5 * max(1.0, abs(x)):
    x = float(kin[j])
  out = float(np.asarray(layer(tf.constant([[x]], tf.float32)))[0, 0])
  det = dict(x=x, out=out, kin=kin.tolist(), kout=kout.tolist(), logits=lg.tolist(), kernel=K.tolist())
  if kin[zi] != kin[zi + 1]:
    return dict(reproduced=False, detail=dict(det, note='softmax share did not underflow on the real code'))
  if out != out:
    return dict(reproduced=True, detail=dict(det, what='NaN output for finite kernel, logits and input'))
  q = r['query']
  if q.startswith('learned-keypoints'):
    ok = abs(kin[0] - _kps(nk, p['spacing'])[0]) < 1e-5 and abs(kin[-1] - _kps(nk, p['spacing'])[-1]) < 1e-4 and np.all(np.diff(kin) >= -1e-6)
    return dict(reproduced=not ok, detail=det)
  if x == kin[zi]:
    refs = [kout[zi], kout[zi + 1]]
  elif x < kin[0]:
    refs = [kout[0]]
  elif x > kin[-1]:
    refs = [kout[-1]]
  else:
    refs = []
    for i in range(nk - 1):
      if i != zi and kin[i] <= x <= kin[i + 1] and kin[i + 1] > kin[i]:
        t = (x - kin[i]) / (kin[i + 1] - kin[i])
        refs.append(kout[i] + t * (kout[i + 1] - kout[i]))
  bad = bool(refs) and all(abs(out - v) > 1e-4 * scale for v in refs)
  return dict(reproduced=bad, detail=dict(det, reference=refs))


def replay(r):
  import tensorflow as tf
  rp = r['replay']
  p = rp['params']
  w = r['witness']
  if rp['fn'] == 'output-form':
    try:
      ok, note = _output_form(p['kind'], p)
    except Exception as e:  # pylint: disable=broad-except
      ok, note = False, '%s: %s' % (type(e).__name__, str(e)[:120])
    return dict(reproduced=not ok, detail=note)
  if rp['fn'] == 'cat':
    from tensorflow_lattice.python import categorical_calibration_layer as CL
    layer = CL.CategoricalCalibration(num_buckets=p['buckets'], units=p['units'], default_input_value=p.get('default'),
                                      split_outputs=p.get('split', False))
    x = np.array([p['combo']], dtype=np.int32)
    layer(tf.constant(x))
    K = core.witness_np(w['k'])
    layer.kernel.assign(K.astype(np.float32))
    out = layer(tf.constant(x))
    out = np.concatenate([np.asarray(o) for o in out], axis=1) if isinstance(out, list) else np.asarray(out)
    bad = False
    cols = x.shape[1]
    for u in range(p['units']):
      v = p['combo'][u if cols > 1 else 0]
      row = p['buckets'] - 1 if (p.get('default') is not None and v == p['default']) else v
      if abs(float(out[0, u]) - float(K[row, u])) > 1e-5 * max(1.0, abs(float(K[row, u]))):
        bad = True
    return dict(reproduced=bad, detail=dict(out=out.tolist(), kernel=K.tolist()))
  if rp['fn'] == 'pwl_underflow':
    return _replay_underflow(r, p, w)
  layer = _layer(p)
  x = core.witness_np(w['x'])
  inp = [tf.constant(x, tf.float32), tf.constant(core.witness_np(w['f']), tf.float32)] if 'f' in w else tf.constant(x, tf.float32)
  layer(inp)
  K = core.witness_np(w['k'])
  layer.kernel.assign(K.astype(np.float32))
  if 'softmax' in w:
    layer.interpolation_logits.assign(np.log(core.witness_np(w['softmax'])).astype(np.float32))
  elif 'lg' in w:
    layer.interpolation_logits.assign(core.witness_np(w['lg']).astype(np.float32))
  if 'mo' in w:
    layer.missing_output.assign(core.witness_np(w['mo']).astype(np.float32))
  out = layer(inp)
  out = np.concatenate([np.asarray(o) for o in out], axis=1) if isinstance(out, list) else np.asarray(out)
  kin = layer.keypoints_inputs().numpy()
  kout = layer.keypoints_outputs().numpy()
  scale = max(1.0, float(np.max(np.abs(K))))
  det = dict(out=out.tolist(), kin=kin.tolist(), kout=kout.tolist(), x=x.tolist())
  if rp['fn'] == 'pwl2':
    bad = False
    for sgn in (1, -1):
      if np.all(sgn * K[1:] >= 0) and x[0, 0] <= x[1, 0] and np.any(sgn * out[0] > sgn * out[1] + 1e-4 * scale):
        bad = True
    return dict(reproduced=bad, detail=det)
  # numeric reference
  bad = False
  q = r['query']
  cum = np.cumsum(K, axis=0)
  if p.get('cyclic'):
    cum = np.concatenate([cum, cum[:1]], axis=0)
  if np.max(np.abs(cum - kout)) > 1e-4 * scale:
    bad = True
  for u in range(p['units']):
    xu = float(x[0, u if x.shape[1] > 1 else 0])
    ref = float(np.interp(xu, kin[:, u], kout[:, u]))
    is_missing = False
    if p.get('missing'):
      if 'f' in w:
        is_missing = float(core.witness_np(w['f'])[0, u if x.shape[1] > 1 else 0]) == 1.0
        if float(core.witness_np(w['f'])[0, u if x.shape[1] > 1 else 0]) not in (0.0, 1.0):
          continue
      else:
        is_missing = xu == p['missing_input']
    if is_missing:
      ref = float(core.witness_np(w['mo'])[0, u]) if 'mo' in w else 0.25
    if abs(float(out[0, u]) - ref) > 1e-4 * scale:
      bad = True
      det['mismatch'] = (u, float(out[0, u]), ref)
  if q.startswith('learned-keypoints'):
    bad = bad or bool(np.any(np.diff(kin, axis=0) <= 0))
  return dict(reproduced=bad, detail=det)


def cases(tier, seed):
  out = []

  def add(fn, required=True, cap=600, **p):
    nm = fn.replace('case_', '') + '-' + '-'.join('%s%s' % (k[:3], v) for k, v in sorted(p.items()) if k not in ('timeout',))
    p['name'] = nm
    p['required'] = required
    out.append(dict(name=nm, fn=fn, params=p, cap=cap, required=required))

  for nk, spacing in ((2, 'a'), (3, 'a'), (4, 'u')):
    for units, per in ((1, False), (2, False), (2, True)):
      add('case_pwl', nk=nk, spacing=spacing, units=units, per_unit_input=per)
  add('case_pwl', nk=3, spacing='a', units=2, per_unit_input=True, split=True)
  add('case_pwl', nk=4, spacing='a', units=1, cyclic=True)
  add('case_pwl', nk=3, spacing='w', units=1)
  add('case_pwl', nk=4, spacing='w', units=2, per_unit_input=True)
  add('case_pwl', nk=4, spacing='w', units=1, cyclic=True)
  add('case_pwl', nk=3, spacing='u', units=2, cyclic=True, per_unit_input=False)
  for missing in ('learned', 'fixed'):
    add('case_pwl', nk=3, spacing='a', units=2, per_unit_input=True, missing=missing, missing_input=-2.0)
    add('case_pwl', nk=3, spacing='a', units=1, missing=missing, missing_input=None)
  add('case_pwl', nk=3, spacing='a', units=1, kptype='learned_interior')
  add('case_pwl', nk=3, spacing='u', units=2, kptype='learned_interior', per_unit_input=True, required=False, timeout=120)
  add('case_pwl', nk=4, spacing='a', units=1, kptype='learned_interior', required=False, timeout=120)
  add('case_pwl_monotone', nk=3, spacing='a', units=2)
  add('case_pwl_monotone', nk=4, spacing='u', units=1)
  add('case_pwl_monotone', nk=3, spacing='a', units=1, kptype='learned_interior', required=False, timeout=120)
  # floating point: a softmax share that underflowed to exactly 0 collapses a segment (jump)
  for nk_, zeros in ((3, (0, 1)), (4, (0, 1, 2))):
    for z_ in zeros:
      add('case_pwl_underflow', nk=nk_, spacing='a', zero=z_, required=(nk_ == 3), timeout=60 if nk_ == 3 else 120)
  add('case_categorical', buckets=3, units=1, default=-1)
  add('case_categorical', buckets=3, units=2, default=0, per_unit_input=True)
  add('case_categorical', buckets=4, units=1, default=2)
  add('case_pwl', nk=3, spacing='a', units=1, missing='learned', missing_input=0.0)
  add('case_pwl', nk=3, spacing='u', units=2, per_unit_input=True, missing='fixed', missing_input=0.0)
  add('case_categorical', buckets=4, units=2, default=7, per_unit_input=True)
  add('case_categorical', buckets=3, units=2, default=None, per_unit_input=False, split=True)
  add('case_categorical', buckets=3, units=1, default=-1, int_input=False)
  # split_outputs is documented as ignored for fewer than two units
  add('case_categorical', buckets=3, units=1, default=-1, split=True)
  add('case_categorical', buckets=3, units=3, default=None, per_unit_input=True, split=True)
  add('case_pwl', nk=3, spacing='a', units=1, split=True)
  add('case_pwl', nk=3, spacing='a', units=2, split=True)
  if tier == 'thorough':
    for nk in (5, 6):
      add('case_pwl', nk=nk, spacing='a', units=1, required=False, timeout=300)
      add('case_pwl', nk=nk, spacing='a', units=3, per_unit_input=True, required=False, timeout=300)
      add('case_pwl', nk=nk, spacing='u', units=1, kptype='learned_interior', required=False, timeout=600)
      add('case_pwl_monotone', nk=nk, spacing='a', units=1, required=False, timeout=600)
      add('case_pwl', nk=nk, spacing='u', units=2, cyclic=True, required=False, timeout=300)
      add('case_pwl', nk=nk, spacing='a', units=2, per_unit_input=True, split=True, missing='learned', missing_input=-2.0, required=False, timeout=300)
      add('case_pwl', nk=nk, spacing='a', units=2, missing='fixed', missing_input=None, required=False, timeout=300)
      for z_ in range(nk - 1):
        add('case_pwl_underflow', nk=nk, spacing='a', zero=z_, required=False, timeout=300)
    for nk in (7, 8):
      add('case_pwl', nk=nk, spacing='u', units=1, required=False, timeout=600)
    add('case_pwl', nk=4, spacing='a', units=3, kptype='learned_interior', per_unit_input=True, required=False, timeout=600)
    add('case_pwl_monotone', nk=4, spacing='u', units=2, kptype='learned_interior', required=False, timeout=600)
    add('case_categorical', buckets=5, units=2, default=3, per_unit_input=True)
    add('case_categorical', buckets=6, units=1, default=None)
  return out
