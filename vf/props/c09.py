"""C09 - Units and examples never interact: projections are per-unit, outputs per-row."""
import itertools
from fractions import Fraction

import numpy as np
import z3

from vf import sym, specs, core
from vf.core import Case, Traced
from vf.props import c01, c04, c06

PROP = 'C09'

META = dict(
    level='model_checking',
    technique='two symbolic executions of the same real object on related symbolic tensors (multi-unit kernel vs. its single '
              'columns; batch of 3 vs. its single rows) and an equality query per pair; z3 (QF_LRA / QF_NRA), identical terms '
              'are discharged by the rewriter (polynomial normal form)',
    bounds=dict(quick='units 2 (3 for calibrators), batch 3; Lattice 2x2/3x3/2x2x2 with trusts and bounds, PWL 3-4 keypoints, '
                      'categorical 4 buckets, Linear 3 inputs, KFL size 2-3 dims 2 terms 1-2, CDF 2-4 inputs, cdf_fn, '
                      'pwl_calibration_fn, one premade calibrated lattice; all real kernels and inputs',
                thorough='units 3 everywhere, Lattice 3x3x2, KFL dims 3'),
    outside=['IEEE-754 rounding', 'configurations beyond the enumerated ones'],
    assumptions=['TF op semantics per vf/interp.py (validated per case)', 'z3 is sound', 'Softmax/Sigmoid/Exp/Log/Root contracts'],
)


def _cols_equal(case, qname, multi, singles, wit, replay, timeout=120, assumptions=(), required=True):
  """multi: (rows, units) array; singles: list of (rows, 1) arrays"""
  pairs = []
  for u, s1 in enumerate(singles):
    for i in range(multi.shape[0]):
      pairs.append((multi[i, u], s1[i, 0]))
  return case.identity(qname, pairs, assumptions=assumptions, witness=wit, timeout=timeout,
                       sig=dict(query=qname.split('[')[0]), replay=replay, required=required)


# ---------------------------------------------------------------- A: constraints per unit
def case_constraint(**p):
  import tensorflow as tf
  case = Case(PROP, p['name'], {k: v for k, v in p.items() if k != 'name'})
  kind = p['layer']
  units = p['units']
  if kind == 'lattice':
    from tensorflow_lattice.python import lattice_layer as LL, lattice_lib as ll
    case.encoded(LL.LatticeConstraints.__call__, ll.project_by_dykstra, ll.finalize_constraints)
    q = p['cfg']
    rows = int(np.prod(q['sizes']))
    mk = lambda: c01._mk_constraint(q['sizes'], q['mono'], q.get('edge', []), q.get('trap', []), q.get('omin'), q.get('omax'),
                                    q.get('iters', 1), uni=q.get('uni'), mdom=q.get('mdom'), rdom=q.get('rdom'), jmono=q.get('jmono'))
  elif kind == 'pwl':
    from tensorflow_lattice.python import pwl_calibration_layer as PL, pwl_calibration_lib as pl
    case.encoded(PL.PWLCalibrationConstraints.__call__, pl.project_all_constraints)
    q = p['cfg']
    rows = q['nk']
    mk = lambda: c04._mk(q)
  elif kind == 'categorical':
    from tensorflow_lattice.python import categorical_calibration_layer as CL
    case.encoded(CL.CategoricalCalibrationConstraints.__call__)
    q = p['cfg']
    rows = q['n']
    mk = lambda: c06._mk_cat(q)
  else:
    from tensorflow_lattice.python import linear_layer as LL2, linear_lib
    case.encoded(LL2.LinearConstraints.__call__, linear_lib.project)
    q = p['cfg']
    rows = len(q['mono'])
    mk = lambda: c06._mk_lin(q)
  con = mk()
  trm = Traced(lambda w: con(w), [tf.TensorSpec([rows, units], tf.float32)], name=kind + '.constraint[multi]')
  tr1 = Traced(lambda w: con(w), [tf.TensorSpec([rows, 1], tf.float32)], name=kind + '.constraint[single]')
  done, mism = trm.validate(np.random.default_rng(0), n=1)
  sym.new_ctx()
  K = sym.symbolic('w', (rows, units))
  (om,) = trm.sym_run(K)
  singles = [tr1.sym_run(K[:, u:u + 1])[0] for u in range(units)]
  case.meta.update(validation_points=done, validation_mismatch=mism, ops=trm.ops_seen, stubs=sym.ctx().stubs)
  _cols_equal(case, 'constraint-acts-per-unit', om, singles, dict(w=K), dict(fn='constraint', params=p),
              timeout=p.get('timeout', 120), required=p.get('required', True))
  # permuting units permutes results
  perm = list(range(1, units)) + [0]
  (op,) = trm.sym_run(K[:, perm])
  pairs = [(op[i, j], om[i, perm[j]]) for i in range(rows) for j in range(units)]
  case.identity('unit-permutation-commutes', pairs, witness=dict(w=K), timeout=p.get('timeout', 120),
                sig=dict(query='permute'), replay=dict(fn='constraint', params=p), required=False)
  if not sym.dens(om):
    case.solve('twin:constraint-changes-something', core.neq_arrays(om, K), expect='sat', kind='twin', timeout=30)
  return case


def case_kfl_constraint(**p):
  import tensorflow as tf
  from tensorflow_lattice.python import kronecker_factored_lattice_layer as KL, kronecker_factored_lattice_lib as kl
  case = Case(PROP, p['name'], {k: v for k, v in p.items() if k != 'name'})
  case.encoded(KL.KroneckerFactoredLatticeConstraints.__call__, KL.ScaleConstraints.__call__, kl.finalize_weight_constraints,
               kl._approximately_project_monotonicity, kl._approximately_project_bounds, kl.finalize_scale_constraints)
  ls, dims, units, terms = p['ls'], p['dims'], p['units'], p['terms']

  def build(u):
    layer = KL.KroneckerFactoredLattice(lattice_sizes=ls, units=u, num_terms=terms, monotonicities=list(p['mono']),
                                        output_min=p['omin'], output_max=p['omax'])
    layer.build(tf.TensorShape([None, dims] if u == 1 else [None, u, dims]))
    return layer
  Lm, L1 = build(units), build(1)
  trm = Traced(lambda k: Lm.kernel.constraint(k), [tf.TensorSpec([1, ls, units * dims, terms], tf.float32)], name='kfl[multi]')
  tr1 = Traced(lambda k: L1.kernel.constraint(k), [tf.TensorSpec([1, ls, dims, terms], tf.float32)], name='kfl[single]')
  done, mism = trm.validate(np.random.default_rng(0), n=1)
  sym.new_ctx()
  K = sym.symbolic('k', (1, ls, units * dims, terms))
  S = sym.symbolic('s', (units, terms))
  sym.ctx().assume(*[S[u, t] != 0 for u in range(units) for t in range(terms)])
  (om,) = trm.sym_run(K, var_values={Lm.scale.ref(): S})
  case.meta.update(validation_points=done, validation_mismatch=mism, ops=trm.ops_seen, stubs=sym.ctx().stubs)
  pairs = []
  for u in range(units):
    (o1,) = tr1.sym_run(K[:, :, u * dims:(u + 1) * dims, :], var_values={L1.scale.ref(): S[u:u + 1, :]})
    for idx in np.ndindex(*o1.shape):
      pairs.append((om[idx[0], idx[1], u * dims + idx[2], idx[3]], o1[idx]))
  case.identity('kfl-kernel-constraint-acts-per-unit', pairs, witness=dict(k=K, s=S), timeout=p.get('timeout', 120),
                sig=dict(query='kfl-per-unit'), replay=dict(fn='kfl', params=p), required=p.get('required', True))
  if Lm.scale.constraint is not None:
    trs = Traced(lambda s: Lm.scale.constraint(s), [tf.TensorSpec([units, terms], tf.float32)])
    trs1 = Traced(lambda s: L1.scale.constraint(s), [tf.TensorSpec([1, terms], tf.float32)])
    (sm,) = trs.sym_run(S)
    pairs = []
    for u in range(units):
      (s1,) = trs1.sym_run(S[u:u + 1, :])
      pairs += [(sm[u, t], s1[0, t]) for t in range(terms)]
    case.identity('kfl-scale-constraint-acts-per-unit', pairs, witness=dict(s=S), timeout=60, sig=dict(query='kfl-scale'),
                  replay=None)
  return case


# ---------------------------------------------------------------- B/C: outputs per unit and per row
def _mk_layer(p, units=None):
  import tensorflow as tf
  kind = p['layer']
  u = p['units'] if units is None else units
  if kind == 'lattice':
    from tensorflow_lattice.python import lattice_layer as LL
    L = LL.Lattice(lattice_sizes=list(p['sizes']), units=u, interpolation=p.get('interp', 'hypercube'))
    shp = [len(p['sizes'])] if u == 1 else [u, len(p['sizes'])]
  elif kind == 'pwl':
    from tensorflow_lattice.python import pwl_calibration_layer as PL
    L = PL.PWLCalibration(input_keypoints=[0.0, 1.0, 3.0, 3.5][:p['nk']], units=u, impute_missing=bool(p.get('missing')),
                          missing_input_value=-1.0 if p.get('missing') else None,
                          input_keypoints_type=p.get('kptype', 'fixed'), is_cyclic=p.get('cyclic', False))
    shp = [u]
  elif kind == 'categorical':
    from tensorflow_lattice.python import categorical_calibration_layer as CL
    L = CL.CategoricalCalibration(num_buckets=p['buckets'], units=u, default_input_value=0)
    shp = [u]
  elif kind == 'linear':
    from tensorflow_lattice.python import linear_layer as LL2
    n = p['n']
    L = LL2.Linear(num_input_dims=n, units=u, input_min=[0.0] + [None] * (n - 1), input_max=[None] * (n - 1) + [1.0])
    shp = [n] if u == 1 else [u, n]
  elif kind == 'kfl':
    from tensorflow_lattice.python import kronecker_factored_lattice_layer as KL
    L = KL.KroneckerFactoredLattice(lattice_sizes=p['ls'], units=u, num_terms=p['terms'])
    shp = [p['dims']] if u == 1 else [u, p['dims']]
  elif kind == 'cdf':
    from tensorflow_lattice.python import cdf_layer as CDFL
    L = CDFL.CDF(num_keypoints=p['nk'], units=u, activation=p.get('activation', 'relu6'), reduction=p.get('reduction', 'mean'),
                 input_scaling_type=p.get('scaling', 'learned_per_input'), sparsity_factor=p.get('sparsity', 1))
    shp = [p['dim']]
  else:
    raise ValueError(kind)
  L.build(tf.TensorShape([None] + shp))
  return L, shp


def _sym_vars(L, prefix='v'):
  vv, wit = {}, {}
  for i, v in enumerate(L.weights):
    a = sym.symbolic('%s%d' % (prefix, i), tuple(v.shape))
    vv[v.ref()] = a
    wit['%s%d' % (prefix, i)] = a
  return vv, wit


def case_batch(**p):
  """layer(X)[i] == layer(X[i:i+1])[0] for a batch of 3."""
  import tensorflow as tf
  case = Case(PROP, p['name'], {k: v for k, v in p.items() if k != 'name'})
  kind = p['layer']
  B = 3
  if kind in ('cdf_fn', 'pwl_fn'):
    return _case_batch_fn(case, p, B)
  if kind == 'premade':
    return _case_batch_premade(case, p, B)
  L, shp = _mk_layer(p)
  case.encoded(type(L).call)
  dt = tf.int32 if kind == 'categorical' else tf.float32
  tr3 = Traced(lambda x: L(x), [tf.TensorSpec([B] + shp, dt)], name=kind + '.call[batch3]')
  tr1 = Traced(lambda x: L(x), [tf.TensorSpec([1] + shp, dt)], name=kind + '.call[batch1]')
  if kind != 'categorical':
    done, mism = tr3.validate(np.random.default_rng(0), n=1, gen=lambda r, i, s, t: r.integers(0, 9, size=s) / 8.0)
    case.meta.update(validation_points=done, validation_mismatch=mism)
  combos = [None]
  if kind == 'categorical':
    combos = [np.array(c).reshape([B] + shp) for c in itertools.islice(itertools.product(range(p['buckets']), repeat=B * int(np.prod(shp))), 0, None, 7)]
  for ci, combo in enumerate(combos):
    sym.new_ctx()
    vv, wit = _sym_vars(L)
    x = sym.symbolic('x', tuple([B] + shp)) if combo is None else sym.obj(combo)
    if kind == 'lattice' and p.get('interp') == 'simplex':
      # pin every row into the first cell with descending coordinate order (casts / sorts forced)
      conds = []
      X = x.reshape(-1, len(p['sizes']))
      for r_ in range(X.shape[0]):
        for d in range(X.shape[1]):
          conds += [X[r_, d] >= 0, X[r_, d] < 1]
        conds += [X[r_, d] > X[r_, d + 1] for d in range(X.shape[1] - 1)]
      sym.ctx().case_assumptions = conds
    (o3,) = tr3.sym_run(x, var_values=vv)
    pairs = []
    for i in range(B):
      (o1,) = tr1.sym_run(x[i:i + 1], var_values=vv)
      for a, b_ in zip(np.asarray(o3[i]).reshape(-1), np.asarray(o1[0]).reshape(-1)):
        pairs.append((a, b_))
    case.meta.update(ops=tr3.ops_seen, stubs=sym.ctx().stubs)
    if combo is None:
      wit['x'] = x
    def rp(m, x=x, vv=vv):
      vvn = {k: core.model_np(m, v) for k, v in vv.items()}
      xn = core.model_np(m, x)
      if kind == 'categorical':
        xn = xn.astype(np.int64)
      full = np.asarray(tr3.tf_run(xn, var_values=vvn)[0])
      worst = 0.0
      for i in range(B):
        one = np.asarray(tr1.tf_run(xn[i:i + 1], var_values=vvn)[0])
        worst = max(worst, float(np.max(np.abs(full[i] - one[0]))))
      return dict(reproduced=bool(worst > 1e-4 * max(1.0, float(np.max(np.abs(full))))), detail=dict(max_abs_diff=worst))
    case.identity('row-independent-of-batch[%d]' % ci, pairs, witness=wit, timeout=p.get('timeout', 60),
                  sig=dict(query='batch', layer=kind), inline_replay=rp, required=p.get('required', True))
  return case


def _case_batch_fn(case, p, B):
  import tensorflow as tf
  from tensorflow_lattice.python import conditional_cdf as cc, conditional_pwl_calibration as cp
  if p['layer'] == 'cdf_fn':
    case.encoded(cc.cdf_fn)
    dim, nf, units = p['dim'], p['nk'], p['units']
    shapes = lambda b: [[b, dim], [b, dim, nf, units], [b, dim, 1, 1]]
    fn = lambda x, l, s: cc.cdf_fn(x, l, s, units=units, activation=p.get('activation', 'relu6'), reduction=p.get('reduction', 'mean'))
  else:
    case.encoded(cp.pwl_calibration_fn)
    units, nk = p['units'], p['nk']
    if p.get('two_d'):
      # the documented 2-D per-example form of keypoint_input_parameters (shared by all units)
      shapes = lambda b: [[b, units if p.get('per_unit_input') else 1], [b, nk - 2], [b, units, nk]]
    elif p.get('bcast_units'):
      shapes = lambda b: [[b, 1], [b, 1, nk - 2], [b, 1, nk]]
    else:
      shapes = lambda b: [[b, 1], [b, units, nk - 2], [b, units, nk]]
    fn = lambda x, ki, ko: cp.pwl_calibration_fn(x, ki, ko, units=units, monotonicity=p.get('mono', 'none'),
                                                 keypoint_input_min=0.0, keypoint_input_max=2.0)
  tr3 = Traced(fn, [tf.TensorSpec(s, tf.float32) for s in shapes(B)], name=p['layer'] + '[batch3]')
  tr1 = Traced(fn, [tf.TensorSpec(s, tf.float32) for s in shapes(1)], name=p['layer'] + '[batch1]')
  done, mism = tr3.validate(np.random.default_rng(0), n=1, gen=lambda r, i, s, t: r.integers(0, 9, size=s) / 8.0)
  sym.new_ctx()
  args = [sym.symbolic('a%d' % i, tuple(s)) for i, s in enumerate(shapes(B))]
  (o3,) = tr3.sym_run(*args)
  pairs = []
  for i in range(B):
    (o1,) = tr1.sym_run(*[a[i:i + 1] for a in args])
    for a, b_ in zip(np.asarray(o3[i]).reshape(-1), np.asarray(o1[0]).reshape(-1)):
      pairs.append((a, b_))
  case.meta.update(validation_points=done, validation_mismatch=mism, ops=tr3.ops_seen, stubs=sym.ctx().stubs)
  def rp(m):
    an = [core.model_np(m, a) for a in args]
    full = np.asarray(tr3.tf_run(*an)[0])
    worst = 0.0
    for i in range(B):
      one = np.asarray(tr1.tf_run(*[a[i:i + 1] for a in an])[0])
      worst = max(worst, float(np.max(np.abs(full[i] - one[0]))))
    return dict(reproduced=bool(worst > 1e-4 * max(1.0, float(np.max(np.abs(full))))), detail=dict(max_abs_diff=worst))
  case.identity('row-independent-of-batch', pairs, witness={'a%d' % i: a for i, a in enumerate(args)}, timeout=p.get('timeout', 60),
                sig=dict(query='batch', layer=p['layer']), inline_replay=rp)
  return case


def _case_batch_premade(case, p, B):
  import tensorflow as tf
  import tensorflow_lattice as tfl
  kp = [0.0, 1.0, 2.0]
  fc = [tfl.configs.FeatureConfig(name='a', lattice_size=2, monotonicity='increasing', pwl_calibration_input_keypoints=kp),
        tfl.configs.FeatureConfig(name='b', lattice_size=2, pwl_calibration_input_keypoints=kp)]
  mc = tfl.configs.CalibratedLatticeConfig(feature_configs=fc, output_min=0.0, output_max=1.0, output_initialization=[0.0, 1.0])
  model = tfl.premade.CalibratedLattice(mc)
  case.encoded(tfl.premade.CalibratedLattice.__init__)
  fn = lambda a, b_: model([a, b_])
  tr3 = Traced(fn, [tf.TensorSpec([B, 1], tf.float32)] * 2, name='premade[batch3]')
  tr1 = Traced(fn, [tf.TensorSpec([1, 1], tf.float32)] * 2, name='premade[batch1]')
  done, mism = tr3.validate(np.random.default_rng(0), n=1, gen=lambda r, i, s, t: r.integers(0, 17, size=s) / 8.0)
  sym.new_ctx()
  vv, wit = {}, {}
  for i, v in enumerate(tr3.variables):
    a = sym.symbolic('v%d' % i, tuple(v.shape))
    vv[v.ref()] = a
    wit['v%d' % i] = a
  xa, xb = sym.symbolic('xa', (B, 1)), sym.symbolic('xb', (B, 1))
  (o3,) = tr3.sym_run(xa, xb, var_values=vv)
  pairs = []
  for i in range(B):
    (o1,) = tr1.sym_run(xa[i:i + 1], xb[i:i + 1], var_values=vv)
    pairs.append((o3[i, 0], o1[0, 0]))
  case.meta.update(validation_points=done, validation_mismatch=mism, ops=tr3.ops_seen)
  def rp(m):
    vvn = {k: core.model_np(m, v) for k, v in vv.items()}
    a_, b_ = core.model_np(m, xa), core.model_np(m, xb)
    full = np.asarray(tr3.tf_run(a_, b_, var_values=vvn)[0])
    worst = 0.0
    for i in range(B):
      one = np.asarray(tr1.tf_run(a_[i:i + 1], b_[i:i + 1], var_values=vvn)[0])
      worst = max(worst, float(np.max(np.abs(full[i] - one[0]))))
    return dict(reproduced=bool(worst > 1e-4 * max(1.0, float(np.max(np.abs(full))))), detail=dict(max_abs_diff=worst))
  case.identity('row-independent-of-batch', pairs, witness=dict(wit, xa=xa, xb=xb), timeout=120, sig=dict(query='batch', layer='premade'),
                inline_replay=rp)
  return case


def case_unit_output(**p):
  """multi-unit layer output of unit u == single-unit layer holding unit u's parameters on unit u's inputs"""
  import tensorflow as tf
  case = Case(PROP, p['name'], {k: v for k, v in p.items() if k != 'name'})
  kind = p['layer']
  units = p['units']
  Lm, shpm = _mk_layer(p)
  L1, shp1 = _mk_layer(p, units=1)
  case.encoded(type(Lm).call)
  dt = tf.float32
  trm = Traced(lambda x: Lm(x), [tf.TensorSpec([1] + shpm, dt)], name=kind + '.call[multi]')
  tr1 = Traced(lambda x: L1(x), [tf.TensorSpec([1] + shp1, dt)], name=kind + '.call[single]')
  done, mism = trm.validate(np.random.default_rng(0), n=1, gen=lambda r, i, s, t: r.integers(0, 9, size=s) / 8.0)
  sym.new_ctx()
  vv, wit = _sym_vars(Lm)
  x = sym.symbolic('x', tuple([1] + shpm))
  wit['x'] = x
  (om,) = trm.sym_run(x, var_values=vv)
  om = np.asarray(om, dtype=object).reshape(-1)
  pairs = []
  singles_in = []
  for u in range(units):
    vv1 = {}
    for vm, v1 in zip(Lm.weights, L1.weights):
      a = vv[vm.ref()]
      nm = vm.name
      if kind == 'kfl' and 'kernel' in nm:
        d = p['dims']
        a1 = a[:, :, u * d:(u + 1) * d, :]
      elif kind == 'kfl' and 'scale' in nm:
        a1 = a[u:u + 1, :]
      elif kind == 'kfl' and 'bias' in nm:
        a1 = a[u:u + 1]
      elif kind == 'linear' and 'bias' in nm:
        a1 = a[u]
        a1 = sym._arr(a1) if hasattr(sym, '_arr') else np.array(a1, dtype=object).reshape(())
      elif kind == 'pwl' and 'logits' in nm:
        a1 = a[u:u + 1, :]
      else:
        a1 = a[..., u:u + 1]
      vv1[v1.ref()] = a1
    if kind in ('pwl', 'categorical'):
      x1 = x[:, u:u + 1]
    else:
      x1 = x[:, u, :]
    (o1,) = tr1.sym_run(x1, var_values=vv1)
    singles_in.append((x1, vv1))
    pairs.append((om[u], np.asarray(o1, dtype=object).reshape(-1)[0]))
  case.meta.update(validation_points=done, validation_mismatch=mism, ops=trm.ops_seen, stubs=sym.ctx().stubs)
  case.identity('unit-output-depends-only-on-its-own-parameters', pairs, witness=wit, timeout=p.get('timeout', 120),
                sig=dict(query='unit-output', layer=kind), required=p.get('required', True),
                inline_replay=lambda m: _unit_replay(m, trm, tr1, x, vv, singles_in))
  return case


def _unit_replay(m, trm, tr1, x, vv, singles_in):
  """runs the real multi-unit and single-unit layers on the witness.  The stubs (exp, softmax) make the solver's parameter values
  only one representative: when they do not show the difference in float32, the same comparison is repeated with every parameter
  moved by a large amount (the same amount in the multi-unit layer and in the single-unit layer holding that parameter), which is
  as good a witness for a claim quantified over all parameter values."""
  rng = np.random.default_rng(0)
  worst_all = 0.0
  for scale in (0.0, 8.0, 40.0, 40.0, 40.0):
    off = {}

    def val(arr, is_input=False):
      arr = np.asarray(arr, dtype=object)
      base = core.model_np(m, arr)
      for idx in np.ndindex(*arr.shape):
        t = arr[idx]
        if scale and sym.is_z(t) and t.num_args() == 0 and t.decl().kind() == z3.Z3_OP_UNINTERPRETED:
          if t.get_id() not in off:
            # inputs move a little (they should stay near the keypoints / vertices), parameters a lot
            off[t.get_id()] = float(rng.choice([0.3, 0.7, 1.3, 2.1])) if is_input else scale * float(rng.choice([-1.0, -0.5, 0.5, 1.0]))
          base[idx] += off[t.get_id()]
      return base
    xs = val(x, True)
    full = np.asarray(trm.tf_run(xs, var_values={k: val(v) for k, v in vv.items()})[0]).reshape(-1)
    worst = 0.0
    for u, (x1, vv1) in enumerate(singles_in):
      one = np.asarray(tr1.tf_run(val(x1, True), var_values={k: val(v) for k, v in vv1.items()})[0]).reshape(-1)
      if np.isfinite(full[u]) and np.isfinite(one[0]):
        worst = max(worst, abs(float(full[u]) - float(one[0])) / max(1.0, abs(float(full[u]))))
    worst_all = max(worst_all, worst)
    if worst > 1e-4:
      return dict(reproduced=True, detail=dict(max_rel_diff=worst, parameters_moved_by=scale))
  return dict(reproduced=False, detail=dict(max_rel_diff=worst_all))


def replay(r):
  import tensorflow as tf
  rp = r['replay']
  p = rp['params']
  w = r['witness']
  if rp['fn'] == 'kfl':
    from tensorflow_lattice.python import kronecker_factored_lattice_layer as KL
    ls, dims, units, terms = p['ls'], p['dims'], p['units'], p['terms']
    K = core.witness_np(w['k']).astype(np.float32)
    S = core.witness_np(w['s']).astype(np.float32)

    def run(u, k, s):
      layer = KL.KroneckerFactoredLattice(lattice_sizes=ls, units=u, num_terms=terms, monotonicities=list(p['mono']),
                                          output_min=p['omin'], output_max=p['omax'])
      layer.build(tf.TensorShape([None, dims] if u == 1 else [None, u, dims]))
      layer.scale.assign(s)
      return layer.kernel.constraint(tf.constant(k)).numpy()
    om = run(units, K, S)
    worst = 0.0
    for u in range(units):
      o1 = run(1, K[:, :, u * dims:(u + 1) * dims, :], S[u:u + 1])
      worst = max(worst, float(np.max(np.abs(om[:, :, u * dims:(u + 1) * dims, :] - o1))))
    return dict(reproduced=bool(worst > 1e-4 * max(1.0, float(np.max(np.abs(K))))), detail=dict(max_abs_diff=worst))
  K = core.witness_np(w['w'])
  kind = p['layer']
  q = p['cfg']
  if kind == 'lattice':
    con = c01._mk_constraint(q['sizes'], q['mono'], q.get('edge', []), q.get('trap', []), q.get('omin'), q.get('omax'), q.get('iters', 1),
                             uni=q.get('uni'), mdom=q.get('mdom'), rdom=q.get('rdom'), jmono=q.get('jmono'))
  elif kind == 'pwl':
    con = c04._mk(q)
  elif kind == 'categorical':
    con = c06._mk_cat(q)
  else:
    con = c06._mk_lin(q)
  om = con(tf.constant(K, tf.float32)).numpy()
  worst = 0.0
  for u in range(K.shape[1]):
    o1 = con(tf.constant(K[:, u:u + 1], tf.float32)).numpy()
    worst = max(worst, float(np.max(np.abs(om[:, u] - o1[:, 0]))))
  return dict(reproduced=bool(worst > 1e-4 * max(1.0, float(np.max(np.abs(K))))), detail=dict(max_abs_diff=worst, kernel=K.tolist()))


def cases(tier, seed):
  out = []

  def add(fn, required=True, cap=600, **p):
    nm = '%s-%s' % (fn.replace('case_', ''), '-'.join('%s%s' % (k[:3], str(v).replace(' ', '')) for k, v in sorted(p.items()) if k not in ('timeout',)))
    p['name'] = nm[:200]
    p['required'] = required
    out.append(dict(name=p['name'], fn=fn, params=p, cap=cap, required=required))

  U = 2
  lat = [dict(sizes=[3, 3], mono=[1, 1], edge=[[0, 1, 1]], trap=[[0, 1, 1]], omin=0.0, omax=1.0, iters=1),
         dict(sizes=[2, 2, 2], mono=[1, 0, 1], edge=[[0, 1, 1]], iters=1),
         dict(sizes=[2, 2, 2], mono=[1, 1, 0], edge=[[0, 2, -1]], trap=[[1, 2, 1]], omin=-1.0, omax=2.5, iters=0),
         dict(sizes=[2, 3], mono=[1, 0], trap=[[0, 1, -1]], omax=1.0, iters=2),
         dict(sizes=[3, 3], mono=[1, 1], mdom=[[0, 1]], jmono=[[0, 1]], iters=1),
         dict(sizes=[3, 2], mono=[0, 1], uni=[1, 0], rdom=None, omin=0.0, iters=1)]
  for i, cfg in enumerate(lat):
    add('case_constraint', layer='lattice', units=U if i else 3, cfg=cfg)
  pw = [dict(nk=4, spacing='a', units=1, mono=1, conv=1, omin=0.0, omax=1.0, clamp_min=False, clamp_max=False, iters=2),
        dict(nk=3, spacing='a', units=1, mono=-1, conv=0, omin=0.0, omax=1.0, clamp_min=True, clamp_max=False, iters=4),
        dict(nk=4, spacing='u', units=1, mono=0, conv=-1, omin=None, omax=1.0, clamp_min=False, clamp_max=False, iters=2)]
  for cfg in pw:
    add('case_constraint', layer='pwl', units=3, cfg=cfg, required=not (cfg['mono'] and cfg['conv']))
  add('case_constraint', layer='categorical', units=3, cfg=dict(n=4, pairs=[[0, 1], [1, 2], [0, 3]], omin=0.0, omax=1.0))
  add('case_constraint', layer='linear', units=2, cfg=dict(mono=[1, 1, 0], mdom=[[0, 1]], rdom=[], imin=[None] * 3, imax=[None] * 3, norm=1))
  add('case_constraint', layer='linear', units=2, cfg=dict(mono=[-1, -1, 1], mdom=[], rdom=[[0, 1]], imin=[0.0, -1.0, None], imax=[2.0, 1.0, None], norm=None))
  add('case_constraint', layer='linear', units=2, cfg=dict(mono=[1, 0], mdom=[], rdom=[], imin=[None] * 2, imax=[None] * 2, norm=2), required=False)
  for (omin, omax) in ((None, None), (0.0, None), (0.0, 1.0)):
    for mono in ([1, 0], [1, 1]):
      add('case_kfl_constraint', ls=2, dims=2, units=2, terms=1, mono=mono, omin=omin, omax=omax,
          required=not (omin is not None and omax is not None), timeout=120)
  add('case_kfl_constraint', ls=3, dims=2, units=2, terms=2, mono=[0, 1], omin=None, omax=1.0)
  # outputs per unit
  add('case_unit_output', layer='lattice', sizes=[2, 3], units=2)
  add('case_unit_output', layer='lattice', sizes=[2, 2, 2], units=2)
  add('case_unit_output', layer='pwl', nk=3, units=3)
  add('case_unit_output', layer='pwl', nk=3, units=2, kptype='learned_interior')
  add('case_unit_output', layer='pwl', nk=4, units=3, cyclic=True)
  add('case_unit_output', layer='pwl', nk=3, units=2, cyclic=True, missing=True)
  add('case_unit_output', layer='linear', n=3, units=2)
  add('case_unit_output', layer='kfl', ls=2, dims=2, terms=2, units=2)
  add('case_unit_output', layer='kfl', ls=3, dims=2, terms=1, units=2)
  # rows of a batch
  add('case_batch', layer='lattice', sizes=[2, 3], units=1)
  add('case_batch', layer='lattice', sizes=[2, 2], units=2)
  add('case_batch', layer='lattice', sizes=[2, 2, 2], units=1, interp='simplex')
  add('case_batch', layer='pwl', nk=3, units=2, missing=True)
  add('case_batch', layer='pwl', nk=4, units=1, cyclic=True)
  add('case_batch', layer='categorical', buckets=3, units=1)
  add('case_batch', layer='linear', n=3, units=2)
  add('case_batch', layer='kfl', ls=2, dims=2, terms=2, units=1)
  add('case_batch', layer='cdf', nk=2, dim=2, units=2, activation='relu6', reduction='mean')
  add('case_batch', layer='cdf', nk=2, dim=4, units=2, activation='sigmoid', reduction='none', sparsity=2, scaling='learned_shared')
  add('case_batch', layer='cdf', nk=3, dim=2, units=1, activation='relu6', reduction='geometric_mean', scaling='fixed')
  add('case_batch', layer='cdf_fn', nk=2, dim=2, units=2)
  add('case_batch', layer='cdf_fn', nk=2, dim=2, units=1, activation='sigmoid', reduction='geometric_mean')
  add('case_batch', layer='pwl_fn', nk=3, units=2, mono='increasing')
  add('case_batch', layer='pwl_fn', nk=4, units=1, mono='none')
  add('case_batch', layer='pwl_fn', nk=3, units=2, mono='none', two_d=True)
  add('case_batch', layer='pwl_fn', nk=4, units=3, mono='increasing', two_d=True, per_unit_input=True)
  add('case_batch', layer='pwl_fn', nk=3, units=2, mono='increasing', bcast_units=True)
  add('case_batch', layer='premade')
  if tier == 'thorough':
    add('case_constraint', layer='lattice', units=3, cfg=dict(sizes=[3, 3, 2], mono=[1, 1, 0], edge=[[0, 2, 1]], trap=[[1, 2, 1]], omin=0.0, omax=1.0, iters=1),
        required=False, timeout=600)
    add('case_kfl_constraint', ls=2, dims=3, units=2, terms=1, mono=[1, 0, 1], omin=0.0, omax=None, required=False, timeout=600)
    add('case_kfl_constraint', ls=2, dims=2, units=3, terms=2, mono=[1, 0], omin=0.0, omax=1.0, required=False, timeout=600)
    add('case_unit_output', layer='lattice', sizes=[3, 3, 2], units=3, required=False)
  return out
