"""C20 - Linear layer computes the clipped affine function its weights describe."""
import itertools
from fractions import Fraction

import numpy as np
import z3

from vf import sym, specs, core
from vf.core import Case, Traced
from vf.props import c06

PROP = 'C20'

META = dict(
    level='model_checking',
    technique='symbolic execution of the traced TF graph of Linear.call (after the real Linear.build) with symbolic kernel, bias '
              'and inputs; polynomial identity against b_u + sum_i k[i,u]*clip(x_i); consequences asked on the real graph with '
              'weights assumed to satisfy the reference constraint predicates; z3 QF_NRA (bilinear)',
    bounds=dict(quick='1-4 inputs, units 1-2, every subset pattern of bounded inputs from a catalogue, with/without bias; '
                      'all real kernels, biases and inputs', thorough='5 inputs, units 3'),
    outside=['IEEE-754 rounding'],
    assumptions=['TF op semantics per vf/interp.py (validated per case)', 'z3 is sound'],
)


def _layer(p):
  from tensorflow_lattice.python import linear_layer as LL
  n = len(p['mono'])
  return LL.Linear(num_input_dims=n, units=p['units'], monotonicities=list(p['mono']),
                   monotonic_dominances=[tuple(e) for e in p.get('mdom', [])] or None,
                   range_dominances=[tuple(e) for e in p.get('rdom', [])] or None,
                   input_min=list(p['imin']) if any(v is not None for v in p['imin']) else None,
                   input_max=list(p['imax']) if any(v is not None for v in p['imax']) else None,
                   normalization_order=p.get('norm'), use_bias=p.get('bias', True))


def _clip(x, lo, hi):
  if lo is not None:
    x = sym.s_max(x, Fraction(lo))
  if hi is not None:
    x = sym.s_min(x, Fraction(hi))
  return x


def case_linear(**p):
  import tensorflow as tf
  from tensorflow_lattice.python import linear_layer as LL
  case = Case(PROP, p['name'], {k: v for k, v in p.items() if k != 'name'})
  case.encoded(LL.Linear.call, LL.Linear.build)
  layer = _layer(p)
  n, units = len(p['mono']), p['units']
  shp = [2, n] if units == 1 else [2, units, n]
  tr = Traced(lambda x: layer(x), [tf.TensorSpec(shp, tf.float32)], name='Linear.call')
  vs = {layer.kernel.name: lambda r, t: core.dyadic(r, [n, units], t)}
  if p.get('bias', True):
    vs[layer.bias.name] = lambda r, t: core.dyadic(r, [] if units == 1 else [units], t)
  done, mism = tr.validate(np.random.default_rng(0), n=2, var_shapes=vs)
  sym.new_ctx()
  K = sym.symbolic('k', (n, units))
  x = sym.symbolic('x', tuple(shp))
  vv = {layer.kernel.ref(): K}
  wit = dict(x=x, k=K)
  b = None
  if p.get('bias', True):
    b = sym.symbolic('b', () if units == 1 else (units,))
    vv[layer.bias.ref()] = b
    wit['b'] = b
  (out,) = tr.sym_run(x, var_values=vv)
  case.meta.update(validation_points=done, validation_mismatch=mism, ops=tr.ops_seen, nodes=tr.n_nodes)
  replay = dict(fn='linear', params=p)
  X = x.reshape(2, -1, n)
  o = out.reshape(2, -1)
  bad = []
  for r_ in range(2):
    for u in range(units):
      ref = 0 if b is None else (b[()] if units == 1 else b[u])
      for i in range(n):
        ref = sym.s_add(ref, sym.s_mul(K[i, u], _clip(X[r_, u if units > 1 else 0, i], p['imin'][i], p['imax'][i])))
      bad.append(sym.NE(o[r_, u], ref))
  case.solve('output-is-clipped-affine', core.any_of(bad), witness=wit, timeout=60, sig=dict(query='identity'), replay=replay)
  case.solve('twin:output-varies', sym.NE(o[0, 0], 0), expect='sat', kind='twin', timeout=30)
  # consequences with weights satisfying the constraint predicates (reference: c06.lin_cons)
  q = dict(mono=p['mono'], mdom=p.get('mdom', []), rdom=p.get('rdom', []), imin=p['imin'], imax=p['imax'])
  feas = specs.holds(c06.lin_cons(K, q))
  tmo = p.get('timeout', 60)
  for i, m in enumerate(p['mono']):
    if not m:
      continue
    rel = []
    for u in range(X.shape[1]):
      for j in range(n):
        rel.append(X[0, u, j] <= X[1, u, j] if j == i else X[0, u, j] == X[1, u, j])
    bad = [sym.s_cmp('gt', sym.s_mul(o[0, u], m), sym.s_mul(o[1, u], m)) for u in range(units)]
    case.solve('monotone-in-constrained-input[%d]' % i, core.any_of(bad), assumptions=feas + rel, witness=wit, timeout=tmo,
               sig=dict(query='monotone'), replay=replay)
  for (d, k) in p.get('mdom', []):
    # unit step along dominant changes output at least as much as unit step along weak (inside the clip range: unbounded dims)
    if p['imin'][d] is None and p['imax'][d] is None and p['imin'][k] is None and p['imax'][k] is None:
      y = sym.symbolic('y', tuple(shp))
      (out2,) = tr.sym_run(y, var_values=vv)
      Y = y.reshape(2, -1, n)
      o2 = out2.reshape(2, -1)
      rel = []
      for u in range(X.shape[1]):
        for j in range(n):
          rel.append(X[1, u, j] == X[0, u, j] + (1 if j == d else 0))
          rel.append(Y[0, u, j] == X[0, u, j])
          rel.append(Y[1, u, j] == X[0, u, j] + (1 if j == k else 0))
      bad = [sym.s_cmp('lt', sym.s_sub(o[1, u], o[0, u]), sym.s_sub(o2[1, u], o2[0, u])) for u in range(units)]
      case.solve('dominant-step-at-least-weak-step[%d,%d]' % (d, k), core.any_of(bad), assumptions=feas + rel,
                 witness=dict(wit, y=y), timeout=tmo, sig=dict(query='mdom'),
                 inline_replay=lambda m, y=y: _dom_replay(m, tr, x, y, vv, strict=False))
  for (d, k) in p.get('rdom', []):
    # sweeping the dominant input over its full range changes the output at least as much as sweeping the weak one
    y = sym.symbolic('y', tuple(shp))
    (out2,) = tr.sym_run(y, var_values=vv)
    Y = y.reshape(2, -1, n)
    o2 = out2.reshape(2, -1)
    rel = []
    for u in range(X.shape[1]):
      for j in range(n):
        if j == d:
          rel += [X[0, u, j] == Fraction(p['imin'][d]), X[1, u, j] == Fraction(p['imax'][d])]
        else:
          rel.append(X[1, u, j] == X[0, u, j])
        if j == k:
          rel += [Y[0, u, j] == Fraction(p['imin'][k]), Y[1, u, j] == Fraction(p['imax'][k])]
        else:
          rel.append(Y[1, u, j] == Y[0, u, j])
    bad = [sym.s_cmp('lt', sym.s_abs(sym.s_sub(o[1, u], o[0, u])), sym.s_abs(sym.s_sub(o2[1, u], o2[0, u]))) for u in range(units)]
    case.solve('dominant-range-at-least-weak-range[%d,%d]' % (d, k), core.any_of(bad), assumptions=feas + rel,
               witness=dict(wit, y=y), timeout=tmo, sig=dict(query='rdom'),
               inline_replay=lambda m, y=y: _dom_replay(m, tr, x, y, vv, strict=False, absolute=True))
  if p.get('norm') == 1 and all(m == 1 for m in p['mono']) and not p.get('bias', True):
    # weighted average: weights >= 0 summing to 1 -> output within [min_i clip(x_i), max_i clip(x_i)]
    ns = [sym.EQ(t, 1) for t in c06.norm_terms(K, 1)]
    bad = []
    for u in range(units):
      xs = [_clip(X[0, u if units > 1 else 0, i], p['imin'][i], p['imax'][i]) for i in range(n)]
      lo, hi = xs[0], xs[0]
      for v in xs[1:]:
        lo, hi = sym.s_min(lo, v), sym.s_max(hi, v)
      bad += [sym.s_cmp('lt', o[0, u], lo), sym.s_cmp('gt', o[0, u], hi)]
    case.solve('normalised-increasing-layer-is-weighted-average', core.any_of(bad), assumptions=feas + ns, witness=wit,
               timeout=tmo, sig=dict(query='average'), replay=replay)
  return case


def case_linear_projected(**p):
  """End to end: raw weights -> the layer's own kernel constraint (real projection graph) -> the layer's function.  The
  consequences are asked of that composition, with no assumption on the raw weights."""
  import tensorflow as tf
  from tensorflow_lattice.python import linear_layer as LL, linear_lib
  case = Case(PROP, p['name'], {k: v for k, v in p.items() if k != 'name'})
  case.encoded(LL.Linear.call, LL.LinearConstraints.__call__, linear_lib.project)
  layer = _layer(p)
  n, units = len(p['mono']), p['units']
  layer.build(tf.TensorShape([None, n] if units == 1 else [None, units, n]))
  con = layer.kernel.constraint
  trc = Traced(lambda w: con(w), [tf.TensorSpec([n, units], tf.float32)], name='LinearConstraints')
  shp = [2, n] if units == 1 else [2, units, n]
  tr = Traced(lambda x: layer(x), [tf.TensorSpec(shp, tf.float32)], name='Linear.call')
  sym.new_ctx()
  W = sym.symbolic('w', (n, units))
  (K,) = trc.sym_run(W)
  x = sym.symbolic('x', tuple(shp))
  y = sym.symbolic('y', tuple(shp))
  vv = {layer.kernel.ref(): K}
  if p.get('bias', True):
    vv[layer.bias.ref()] = sym.symbolic('b', () if units == 1 else (units,))
  (out,) = tr.sym_run(x, var_values=vv)
  (out2,) = tr.sym_run(y, var_values=vv)
  case.meta.update(ops=dict(trc.ops_seen, **tr.ops_seen))
  X, Y = x.reshape(2, -1, n), y.reshape(2, -1, n)
  o, o2 = out.reshape(2, -1), out2.reshape(2, -1)
  tmo = p.get('timeout', 90)

  def rp(m, what, d, k):
    wn = core.model_np(m, W)
    kn = np.asarray(trc.tf_run(wn)[0], dtype=np.float64)
    vvn = {layer.kernel.ref(): kn}
    if p.get('bias', True):
      vvn[layer.bias.ref()] = core.model_np(m, vv[layer.bias.ref()])
    a = np.asarray(tr.tf_run(core.model_np(m, x), var_values=vvn)[0], dtype=np.float64).reshape(2, -1)
    b_ = np.asarray(tr.tf_run(core.model_np(m, y), var_values=vvn)[0], dtype=np.float64).reshape(2, -1)
    gap = np.abs(a[1] - a[0]) - np.abs(b_[1] - b_[0])
    return dict(reproduced=bool(np.min(gap) < -1e-4 * max(1.0, float(np.max(np.abs(kn))))),
                detail=dict(raw_weights=wn.tolist(), projected=kn.tolist(), dominant_change=(a[1] - a[0]).tolist(), weak_change=(b_[1] - b_[0]).tolist()))
  # monotone in every constrained input, for arbitrary raw weights: the projection is what makes it so
  def rpm(m, j, sgn):
    wn = core.model_np(m, W)
    kn = np.asarray(trc.tf_run(wn)[0], dtype=np.float64)
    vvn = {layer.kernel.ref(): kn}
    if p.get('bias', True):
      vvn[layer.bias.ref()] = core.model_np(m, vv[layer.bias.ref()])
    a = np.asarray(tr.tf_run(core.model_np(m, x), var_values=vvn)[0], dtype=np.float64).reshape(2, -1)
    worst = float(np.max(sgn * (a[0] - a[1])))
    return dict(reproduced=bool(worst > 1e-4 * max(1.0, float(np.max(np.abs(kn))))),
                detail=dict(raw_weights=wn.tolist(), projected=kn.tolist(), outputs=a.tolist(), input=j, direction=sgn))
  for j, mj in enumerate(p['mono']):
    if not mj:
      continue
    rel = []
    for u in range(X.shape[1]):
      for i in range(n):
        rel.append(X[1, u, i] >= X[0, u, i] if i == j else X[1, u, i] == X[0, u, i])
    bad = [sym.s_cmp('gt', sym.s_mul(o[0, u], mj), sym.s_mul(o[1, u], mj)) for u in range(units)]
    case.solve('projected-weights-give-monotone-output[input=%d]' % j, core.any_of(bad), assumptions=rel, witness=dict(w=W, x=x), timeout=tmo,
               sig=dict(query='mono-projected'), inline_replay=lambda m, j=j, mj=mj: rpm(m, j, mj),
               robust=dict(bad=core.any_of([sym.s_cmp('gt', sym.s_mul(o[0, u], mj), sym.s_add(sym.s_mul(o[1, u], mj), Fraction(1, 8))) for u in range(units)]),
                           assumptions=core.box(W, -8, 8) + core.box(x, -8, 8), margin='1/8 on |inputs| <= 8'))
  for (d, k) in p.get('rdom', []):
    rel = []
    for u in range(X.shape[1]):
      for j in range(n):
        rel += ([X[0, u, j] == Fraction(p['imin'][d]), X[1, u, j] == Fraction(p['imax'][d])] if j == d else [X[1, u, j] == X[0, u, j]])
        rel += ([Y[0, u, j] == Fraction(p['imin'][k]), Y[1, u, j] == Fraction(p['imax'][k])] if j == k else [Y[1, u, j] == Y[0, u, j]])
    bad = [sym.s_cmp('lt', sym.s_abs(sym.s_sub(o[1, u], o[0, u])), sym.s_abs(sym.s_sub(o2[1, u], o2[0, u]))) for u in range(units)]
    case.solve('projected-weights-give-dominant-range-at-least-weak-range[%d,%d]' % (d, k), core.any_of(bad), assumptions=rel,
               witness=dict(w=W, x=x, y=y), timeout=tmo, sig=dict(query='rdom-projected'), inline_replay=lambda m, d=d, k=k: rp(m, 'rdom', d, k))
  for (d, k) in p.get('mdom', []):
    rel = []
    for u in range(X.shape[1]):
      for j in range(n):
        rel.append(X[1, u, j] == X[0, u, j] + (1 if j == d else 0))
        rel.append(Y[0, u, j] == X[0, u, j])
        rel.append(Y[1, u, j] == X[0, u, j] + (1 if j == k else 0))
    bad = [sym.s_cmp('lt', sym.s_abs(sym.s_sub(o[1, u], o[0, u])), sym.s_abs(sym.s_sub(o2[1, u], o2[0, u]))) for u in range(units)]
    case.solve('projected-weights-give-dominant-step-at-least-weak-step[%d,%d]' % (d, k), core.any_of(bad), assumptions=rel,
               witness=dict(w=W, x=x, y=y), timeout=tmo, sig=dict(query='mdom-projected'), inline_replay=lambda m, d=d, k=k: rp(m, 'mdom', d, k))
  if p.get('norm') == 1:
    # with normalization_order=1 every unit's projected column has L1 norm 1, or is the all-zero column - unit by unit
    bad = []
    for u in range(units):
      tot = 0
      for i in range(n):
        tot = sym.s_add(tot, sym.s_abs(K[i, u]))
      # clearly neither the unit norm nor a (numerically) zero column
      bad.append(z3.And(sym.b(sym.s_cmp('ge', tot, Fraction(1, 4))), z3.Or(sym.b(sym.s_cmp('le', tot, Fraction(3, 4))), sym.b(sym.s_cmp('ge', tot, Fraction(5, 4))))))

    def rpn(m):
      kn = np.asarray(trc.tf_run(core.model_np(m, W))[0], dtype=np.float64)
      norms = np.sum(np.abs(kn), axis=0)
      return dict(reproduced=bool(np.any((np.abs(norms - 1) > 1e-4) & (norms > 1e-6))), detail=dict(raw_weights=core.model_np(m, W).tolist(), projected=kn.tolist(), norms=norms.tolist()))
    case.solve('projected-weights-are-a-weighted-average-per-unit', core.any_of(bad), witness=dict(w=W), timeout=tmo, sig=dict(query='norm-projected'),
               inline_replay=rpn)
  case.solve('twin:projection-changes-something', core.neq_arrays(K, W), expect='sat', kind='twin', timeout=30)
  return case


def _dom_replay(m, tr, x, y, vv, strict=False, absolute=False):
  vvn = {k: core.model_np(m, v) for k, v in vv.items()}
  o1 = np.asarray(tr.tf_run(core.model_np(m, x), var_values=vvn)[0]).reshape(2, -1)
  o2 = np.asarray(tr.tf_run(core.model_np(m, y), var_values=vvn)[0]).reshape(2, -1)
  d1, d2 = o1[1] - o1[0], o2[1] - o2[0]
  if absolute:
    d1, d2 = np.abs(d1), np.abs(d2)
  tol = 1e-4 * max(1.0, float(np.max(np.abs(o1))))
  return dict(reproduced=bool(np.any(d1 < d2 - tol)), detail=dict(dominant_effect=d1.tolist(), weak_effect=d2.tolist()))


def replay(r):
  import tensorflow as tf
  p = r['replay']['params']
  w = r['witness']
  layer = _layer(p)
  x = core.witness_np(w['x'])
  layer(tf.constant(x, tf.float32))
  K = core.witness_np(w['k'])
  layer.kernel.assign(K.astype(np.float32))
  bv = 0.0
  if 'b' in w:
    bv = core.witness_np(w['b'])
    layer.bias.assign(np.asarray(bv, dtype=np.float32))
  out = layer(tf.constant(x, tf.float32)).numpy().astype(np.float64).reshape(2, -1)
  n, units = len(p['mono']), p['units']
  X = x.reshape(2, -1, n)
  ref = np.zeros_like(out)
  for r_ in range(2):
    for u in range(units):
      acc = float(bv if np.ndim(bv) == 0 else bv[u])
      for i in range(n):
        v = X[r_, u if units > 1 else 0, i]
        if p['imin'][i] is not None:
          v = max(v, p['imin'][i])
        if p['imax'][i] is not None:
          v = min(v, p['imax'][i])
        acc += K[i, u] * v
      ref[r_, u] = acc
  scale = max(1.0, float(np.max(np.abs(ref))))
  diff = float(np.max(np.abs(out - ref)))
  bad = diff > 1e-4 * scale
  q = r['query']
  if q.startswith('monotone'):
    i = int(q.split('[')[1].rstrip(']'))
    m = p['mono'][i]
    bad = bad or bool(np.any(m * out[0] > m * out[1] + 1e-4 * scale))
  return dict(reproduced=bool(bad), detail=dict(out=out.tolist(), ref=ref.tolist()))


def cases(tier, seed):
  out = []

  def add(**p):
    n = len(p['mono'])
    p.setdefault('imin', [None] * n)
    p.setdefault('imax', [None] * n)
    nm = 'lin-m%s-u%d-b%d-min%s-max%s-md%s-rd%s-n%s' % (''.join(str(m) for m in p['mono']), p['units'], int(p.get('bias', True)),
                                                         p['imin'], p['imax'], p.get('mdom', []), p.get('rdom', []), p.get('norm'))
    p['name'] = nm
    out.append(dict(name=nm, fn='case_linear', params=p, cap=600))

  for units in (1, 2):
    for bias in (True, False):
      add(mono=[1, -1, 0], units=units, bias=bias)
      add(mono=[1, -1, 0], units=units, bias=bias, imin=[0.0, None, None], imax=[1.0, None, 2.0])
      add(mono=[0, 0], units=units, bias=bias, imin=[None, -1.0], imax=[None, None])
      add(mono=[1, 1, 0, -1], units=units, bias=bias, imin=[0.0, 0.0, None, -2.0], imax=[1.0, 2.0, 0.5, None])
  add(mono=[1], units=1, bias=True, imin=[0.0], imax=[1.0])
  # bounds whose only specified values are falsy (0.0), one-sided lists, a single bounded input
  add(mono=[1, 0], units=1, bias=True, imin=[0.0, 0.0])
  add(mono=[0, -1, 0], units=2, bias=False, imin=[0.0, None, None])
  add(mono=[1, 1], units=1, bias=True, imax=[0.0, 0.0])
  add(mono=[0, 0], units=2, bias=True, imin=[0.0, None], imax=[None, 0.0])
  add(mono=[1, 0], units=1, bias=False, imin=[None, -0.0], imax=[None, None])
  add(mono=[0], units=1, bias=True, imin=[0.0])
  add(mono=[1, 1, 0], units=2, mdom=[[0, 1]])
  add(mono=[1, 1, 1], units=1, mdom=[[0, 1], [1, 2]], bias=False)
  add(mono=[1, 1, 0], units=2, rdom=[[0, 1]], imin=[0.0, -1.0, None], imax=[2.0, 1.0, None])
  add(mono=[-1, -1], units=1, rdom=[[1, 0]], imin=[0.0, 0.5], imax=[1.0, 0.75])
  add(mono=[1, 1, 1], units=2, norm=1, bias=False)
  add(mono=[1, 1], units=1, norm=1, bias=False, imin=[0.0, None], imax=[1.0, None])
  # raw weights -> the layer's own constraint -> the layer (several dominances sharing an input, ranges other than 1)
  for q in (dict(mono=[1, 1, 1], units=1, rdom=[[0, 1], [0, 2]], imin=[0.0, 0.0, -1.0], imax=[3.0, 1.0, 1.0]),
            dict(mono=[-1, -1, -1], units=2, rdom=[[0, 2], [1, 2]], imin=[0.0, 0.0, 0.0], imax=[1.0, 2.0, 0.5], bias=False),
            dict(mono=[1, 1, 1], units=1, rdom=[[0, 1], [1, 2]], imin=[0.0, 1.0, 0.0], imax=[2.0, 4.0, 0.5]),
            dict(mono=[1, 1, 0], units=2, rdom=[[0, 1]], imin=[0.0, -1.0, None], imax=[2.0, 1.0, None]),
            dict(mono=[1, 1, 1], units=1, mdom=[[0, 1], [0, 2]]),
            dict(mono=[1, 1, 1], units=2, norm=1, bias=False),
            dict(mono=[1, 1], units=3, norm=1, bias=False),
            # inputs of both directions (and none) in one layer
            dict(mono=[1, -1, 0], units=1),
            dict(mono=[-1, 1, 1], units=2, bias=False),
            dict(mono=[1, -1], units=1, imin=[0.0, 0.0], imax=[1.0, 2.0], norm=1)):
    n_ = len(q['mono'])
    q.setdefault('imin', [None] * n_)
    q.setdefault('imax', [None] * n_)
    nm = 'linproj-m%s-u%d-min%s-max%s-md%s-rd%s-n%s' % (''.join(str(m) for m in q['mono']), q['units'], q['imin'], q['imax'], q.get('mdom', []), q.get('rdom', []), q.get('norm'))
    out.append(dict(name=nm, fn='case_linear_projected', params=dict(q, name=nm), cap=600))
  if tier == 'thorough':
    add(mono=[1, -1, 0, 1, 0], units=3, imin=[0.0, None, -1.0, None, None], imax=[1.0, 2.0, None, None, None])
    add(mono=[1, 1, 1, 1, 1], units=3, norm=1, bias=False)
    add(mono=[1, 1, 1, 1], units=2, mdom=[[0, 1], [0, 2], [2, 3]])
  return out
