"""C12 - assert_constraints accepts exactly the weights that meet the covered constraints."""
import itertools
from fractions import Fraction

import numpy as np
import z3

from vf import sym, specs, core
from vf.core import Case, Traced
from vf.props import c04, c06

PROP = 'C12'
EPS = [Fraction(1, 1024), Fraction(1, 4)]

META = dict(
    level='model_checking',
    technique='symbolic execution of the traced TF graph of each layer\'s assert_constraints(eps) with a symbolic kernel; the '
              'predicates feeding its tf.Assert ops form passes(w); z3 decides soundness (some covered constraint violated by '
              'more than 2*eps, anywhere, and passes) and completeness (all hold with margin eps and not passes)',
    bounds=dict(quick='eps in {2^-10, 1/4}; Lattice 3x3 / 2x3x2 with every covered family, units 1-2; PWLCalibration 3-4 keypoints '
                      'with bounds/clamps/monotonicity and learned missing output; Linear 3-4 inputs with dominances and norm 1; '
                      'CategoricalCalibration 4 buckets with 1-3 ordering pairs; KFL size 2-3 dims 2 units 1-2; RTL with 2 lattices; '
                      'all real weight tensors', thorough='adds Lattice 3x3x2 / 3x3x3 with several trusts, units 3, Linear with 5 inputs and both dominance kinds, 6 buckets, KFL 3 dims'),
    outside=['IEEE-754 rounding', 'violations between eps and 2*eps (neither required to fail nor to pass)',
             'joint unimodality and unimodality (not covered by assert_constraints, as documented in the source)'],
    assumptions=['TF op semantics per vf/interp.py (validated per case)', 'z3 is sound', 'reference predicates vf/specs.py'],
)


def _passes(tr):
  preds = [sym.b(c) for _, c in tr.assert_preds]
  return z3.And(preds) if preds else z3.BoolVal(True), len(preds)


def _queries(case, passes, npreds, cons, eps, wit, replay, tmo=60, kinds=None):
  """cons: list of (kind, loc, slack, type) ; type 'ineq' (slack >= 0) or 'eq' (slack == 0, slack <= 0 always)."""
  case.meta['assert_ops'] = npreds
  by_kind = {}
  for c in cons:
    by_kind.setdefault(c[0], []).append(c)
  for kind, lst in sorted(by_kind.items()):
    viol = [sym.b(sym.s_cmp('lt', c[2], -2 * eps)) for c in lst]

    def sig(m, lst=lst, kind=kind):
      bad = [str(c[1]) for c in lst if (lambda v: v is None or v < -2 * eps)(sym.subst_value(c[2], m))]
      return dict(query='sound', kind=kind, n_constraints=len(lst), offender=bad[:1])
    case.solve('violation-is-rejected[%s,eps=%s]' % (kind, eps), z3.And(z3.Or(viol), passes), witness=wit, timeout=tmo,
               sig=sig, replay=dict(replay, eps=str(eps), expect='raise'))
  ok = []
  for c in cons:
    ok.append(sym.EQ(c[2], 0) if c[3] == 'eq' else sym.GE(c[2], eps))
  case.solve('feasible-with-margin-is-accepted[eps=%s]' % eps, z3.Not(passes), assumptions=ok, witness=wit, timeout=tmo,
             sig=dict(query='complete'), replay=dict(replay, eps=str(eps), expect='pass'))
  case.solve('twin:margin-feasible-set-nonempty[eps=%s]' % eps, z3.BoolVal(True), assumptions=ok, expect='sat', kind='twin', timeout=30,
             probe=True, witness=wit, replay=dict(replay, eps=str(eps), expect='pass'), sig=dict(query='complete-eager'))
  case.solve('twin:assert-can-fail[eps=%s]' % eps, z3.Not(passes), expect='sat', kind='twin', timeout=30)


def _ineq(cons):
  return [(c[0], c[1], c[2], 'ineq') for c in cons]


# ---------------------------------------------------------------- lattice (and RTL)
def _lattice_layer(p):
  import tensorflow as tf
  from tensorflow_lattice.python import lattice_layer as LL
  sizes = list(p['sizes'])

  def tl(x):
    return [tuple(t) for t in x] if x else None
  layer = LL.Lattice(lattice_sizes=sizes, units=p['units'], monotonicities=list(p['mono']), edgeworth_trusts=tl(p.get('edge')),
                     trapezoid_trusts=tl(p.get('trap')), monotonic_dominances=tl(p.get('mdom')), range_dominances=tl(p.get('rdom')),
                     joint_monotonicities=tl(p.get('jmono')), output_min=p.get('omin'), output_max=p.get('omax'))
  layer.build(tf.TensorShape([None, len(sizes)] if p['units'] == 1 else [None, p['units'], len(sizes)]))
  return layer


def case_lattice(**p):
  import tensorflow as tf
  from tensorflow_lattice.python import lattice_layer as LL, lattice_lib as ll
  case = Case(PROP, p['name'], {k: v for k, v in p.items() if k != 'name'})
  case.encoded(LL.Lattice.assert_constraints, ll.assert_constraints)
  layer = _lattice_layer(p)
  sizes, units = list(p['sizes']), p['units']
  n = int(np.prod(sizes))
  for eps in EPS:
    tr = Traced(lambda: (layer.assert_constraints(eps=float(eps)), tf.constant(0.0))[1], [], name='Lattice.assert_constraints')
    sym.new_ctx()
    K = sym.symbolic('w', (n, units))
    tr.sym_run(var_values={layer.kernel.ref(): K})
    passes, npreds = _passes(tr)
    case.meta['ops'] = tr.ops_seen
    cons = specs.lattice_constraints(K, sizes, units, monotonicities=p['mono'], edgeworth=p.get('edge'), trapezoid=p.get('trap'),
                                     monotonic_dominances=p.get('mdom'), range_dominances=p.get('rdom'),
                                     joint_monotonicities=p.get('jmono'), output_min=p.get('omin'), output_max=p.get('omax'))
    # the dominance / joint monotonicity asserts compare against the midpoint: slack/2 in the reference units
    cons2 = []
    for c in cons:
      if c[0] in ('monotonic_dominance', 'joint_monotonicity'):
        cons2.append((c[0], c[1], sym.s_mul(c[2], Fraction(1, 2)), 'ineq'))
      else:
        cons2.append((c[0], c[1], c[2], 'ineq'))
    _queries(case, passes, npreds, cons2, eps, dict(w=K), dict(fn='lattice', params=p), tmo=p.get('timeout', 60))
  return case


def case_rtl(**p):
  import tensorflow as tf
  from tensorflow_lattice.python import rtl_layer as RL, lattice_lib as ll
  case = Case(PROP, p['name'], {k: v for k, v in p.items() if k != 'name'})
  case.encoded(RL.RTL.assert_constraints, ll.assert_constraints)
  layer = RL.RTL(num_lattices=2, lattice_rank=2, lattice_size=2, output_min=0.0, output_max=1.0, random_seed=1)
  layer({'unconstrained': tf.zeros([1, 1]), 'increasing': tf.zeros([1, 2])})
  eps = EPS[0]
  tr = Traced(lambda: (layer.assert_constraints(eps=float(eps)), tf.constant(0.0))[1], [], name='RTL.assert_constraints')
  sym.new_ctx()
  vv, wit, cons = {}, {}, []
  for monos, lat in layer._lattice_layers.items():
    K = sym.symbolic('w%s' % ''.join(str(m) for m in monos), tuple(lat.kernel.shape))
    vv[lat.kernel.ref()] = K
    wit[str(monos)] = K
    mono = [1 if m else 0 for m in lat.monotonicities] if lat.monotonicities else [0] * 2
    cons += [(c[0], (str(monos),) + tuple(c[1]), c[2], 'ineq') for c in
             specs.lattice_constraints(K, [2, 2], lat.units, monotonicities=mono, output_min=0.0, output_max=1.0)]
  tr.sym_run(var_values=vv)
  passes, npreds = _passes(tr)
  case.meta['ops'] = tr.ops_seen
  _queries(case, passes, npreds, cons, eps, wit, dict(fn='rtl', params=p))
  return case


# ---------------------------------------------------------------- PWL
def _pwl_layer(p):
  import tensorflow as tf
  from tensorflow_lattice.python import pwl_calibration_layer as PL
  layer = PL.PWLCalibration(input_keypoints=[0.0, 1.0, 3.0, 3.5][:p['nk']], units=p['units'], output_min=p.get('omin'),
                            output_max=p.get('omax'), clamp_min=p.get('clamp_min', False), clamp_max=p.get('clamp_max', False),
                            monotonicity=p.get('mono', 0), impute_missing=p.get('missing', False),
                            missing_input_value=-1.0 if p.get('missing') else None)
  layer.build(tf.TensorShape([None, p['units']]))
  return layer


def pwl_assert_cons(K, p, missing=None):
  cons = []
  nk, units = K.shape
  for u in range(units):
    outs = specs.pwl_outputs(K[:, u])
    mn, mx = outs[0], outs[0]
    for o in outs[1:]:
      mn, mx = sym.s_min(mn, o), sym.s_max(mx, o)
    if p.get('omin') is not None:
      if p.get('clamp_min'):
        cons.append(('clamp_min', (u,), sym.s_neg(sym.s_abs(sym.s_sub(mn, Fraction(p['omin'])))), 'eq'))
      else:
        cons.append(('output_min', (u,), sym.s_sub(mn, Fraction(p['omin'])), 'ineq'))
    if p.get('omax') is not None:
      if p.get('clamp_max'):
        cons.append(('clamp_max', (u,), sym.s_neg(sym.s_abs(sym.s_sub(mx, Fraction(p['omax'])))), 'eq'))
      else:
        cons.append(('output_max', (u,), sym.s_sub(Fraction(p['omax']), mx), 'ineq'))
    if p.get('mono'):
      for i in range(1, nk):
        cons.append(('monotonicity', (i, u), sym.s_mul(K[i, u], p['mono']), 'ineq'))
    if missing is not None:
      if p.get('omin') is not None:
        cons.append(('missing_min', (u,), sym.s_sub(missing[0, u], Fraction(p['omin'])), 'ineq'))
      if p.get('omax') is not None:
        cons.append(('missing_max', (u,), sym.s_sub(Fraction(p['omax']), missing[0, u]), 'ineq'))
  return cons


def case_pwl(**p):
  import tensorflow as tf
  from tensorflow_lattice.python import pwl_calibration_layer as PL, pwl_calibration_lib as pl
  case = Case(PROP, p['name'], {k: v for k, v in p.items() if k != 'name'})
  case.encoded(PL.PWLCalibration.assert_constraints, pl.assert_constraints)
  layer = _pwl_layer(p)
  for eps in EPS:
    tr = Traced(lambda: (layer.assert_constraints(eps=float(eps)), tf.constant(0.0))[1], [], name='PWLCalibration.assert_constraints')
    sym.new_ctx()
    K = sym.symbolic('w', (p['nk'], p['units']))
    vv = {layer.kernel.ref(): K}
    wit = dict(w=K)
    M = None
    if p.get('missing'):
      M = sym.symbolic('m', (1, p['units']))
      vv[layer.missing_output.ref()] = M
      wit['m'] = M
    tr.sym_run(var_values=vv)
    passes, npreds = _passes(tr)
    case.meta['ops'] = tr.ops_seen
    _queries(case, passes, npreds, pwl_assert_cons(K, p, M), eps, wit, dict(fn='pwl', params=p), tmo=p.get('timeout', 60))
  return case


# ---------------------------------------------------------------- linear / categorical
def case_linear(**p):
  import tensorflow as tf
  from tensorflow_lattice.python import linear_layer as LL, linear_lib
  from vf.props import c20
  case = Case(PROP, p['name'], {k: v for k, v in p.items() if k != 'name'})
  case.encoded(LL.Linear.assert_constraints, linear_lib.assert_constraints)
  layer = c20._layer(p)
  n, units = len(p['mono']), p['units']
  layer.build(tf.TensorShape([None, n] if units == 1 else [None, units, n]))
  for eps in EPS:
    tr = Traced(lambda: (layer.assert_constraints(eps=float(eps)), tf.constant(0.0))[1], [], name='Linear.assert_constraints')
    sym.new_ctx()
    K = sym.symbolic('w', (n, units))
    tr.sym_run(var_values={layer.kernel.ref(): K})
    passes, npreds = _passes(tr)
    case.meta.update(ops=tr.ops_seen, stubs=sym.ctx().stubs)
    q = dict(mono=p['mono'], mdom=p.get('mdom', []), rdom=p.get('rdom', []), imin=p['imin'], imax=p['imax'])
    cons = _ineq(c06.lin_cons(K, q))
    if p.get('norm') == 1:
      for u, t in enumerate(c06.norm_terms(K, 1)):
        # |norm - 1| must be within eps (or the norm numerically zero: excluded from the violation side below)
        tiny = Fraction(float(np.float32(1e-8)))
        cons.append(('norm', (u,), sym.s_ite(sym.b(sym.s_cmp('lt', t, tiny)), 0, sym.s_neg(sym.s_abs(sym.s_sub(t, 1)))), 'eq'))
    _queries(case, passes, npreds, cons, eps, dict(w=K), dict(fn='linear', params=p), tmo=p.get('timeout', 60))
  return case


def case_categorical(**p):
  import tensorflow as tf
  from tensorflow_lattice.python import categorical_calibration_layer as CL, categorical_calibration_lib as cl
  case = Case(PROP, p['name'], {k: v for k, v in p.items() if k != 'name'})
  case.encoded(CL.CategoricalCalibration.assert_constraints, cl.assert_constraints)
  layer = CL.CategoricalCalibration(num_buckets=p['n'], units=p['units'], output_min=p.get('omin'), output_max=p.get('omax'),
                                    monotonicities=[tuple(e) for e in p['pairs']] or None)
  layer.build(tf.TensorShape([None, p['units']]))
  for eps in EPS:
    tr = Traced(lambda: (layer.assert_constraints(eps=float(eps)), tf.constant(0.0))[1], [], name='CategoricalCalibration.assert_constraints')
    sym.new_ctx()
    K = sym.symbolic('w', (p['n'], p['units']))
    tr.sym_run(var_values={layer.kernel.ref(): K})
    passes, npreds = _passes(tr)
    case.meta['ops'] = tr.ops_seen
    cons = _ineq(c06.cat_cons(K, dict(pairs=p['pairs'], omin=p.get('omin'), omax=p.get('omax'))))
    _queries(case, passes, npreds, cons, eps, dict(w=K), dict(fn='categorical', params=p))
  return case


# ---------------------------------------------------------------- KFL
def case_kfl(**p):
  import tensorflow as tf
  from tensorflow_lattice.python import kronecker_factored_lattice_layer as KL, kronecker_factored_lattice_lib as kl
  case = Case(PROP, p['name'], {k: v for k, v in p.items() if k != 'name'})
  case.encoded(KL.KroneckerFactoredLattice.assert_constraints, kl.assert_constraints, kl._assert_monotonicity_constraints,
               kl._assert_bound_constraints)
  ls, dims, units, terms = p['ls'], p['dims'], p['units'], p['terms']
  layer = KL.KroneckerFactoredLattice(lattice_sizes=ls, units=units, num_terms=terms, monotonicities=list(p['mono']),
                                      output_min=p.get('omin'), output_max=p.get('omax'))
  layer.build(tf.TensorShape([None, dims] if units == 1 else [None, units, dims]))
  for eps in EPS[:1]:
    tr = Traced(lambda: (layer.assert_constraints(eps=float(eps)), tf.constant(0.0))[1], [], name='KFL.assert_constraints')
    sym.new_ctx()
    K = sym.symbolic('k', (1, ls, units * dims, terms))
    S = sym.symbolic('s', (units, terms))
    # signs of scale are enumerated by assumption: every entry non-zero
    tr.sym_run(var_values={layer.kernel.ref(): K, layer.scale.ref(): S})
    passes, npreds = _passes(tr)
    case.meta['ops'] = tr.ops_seen
    cons = []
    for u in range(units):
      for d, m in enumerate(p['mono']):
        if not m:
          continue
        for t in range(terms):
          for i in range(ls - 1):
            sg = sym.s_sign(S[u, t])
            diff = sym.s_mul(sg, sym.s_sub(K[0, i + 1, u * dims + d, t], K[0, i, u * dims + d, t]))
            cons.append(('monotonicity', (u, d, t, i), diff, 'ineq'))
    # output bounds as the layer's constraint establishes them (kl._approximately_project_bounds / ScaleConstraints)
    omin, omax = p.get('omin'), p.get('omax')
    if omin is not None and omax is not None:
      for u in range(units):
        for t in range(terms):
          prod = 1
          for d in range(dims):
            prod = sym.s_mul(prod, sym.reduce(sym.maximum, np.array([sym.s_abs(K[0, i, u * dims + d, t]) for i in range(ls)], dtype=object),
                                             axes=(0,), keepdims=False)[()])
          cons.append(('output_bounds', ('max-product', u, t), sym.s_sub(1, prod), 'ineq'))
          half = Fraction(omax - omin) / 2
          cons.append(('scale_bounds', (u, t), sym.s_sub(half, sym.s_abs(S[u, t])), 'ineq'))
    elif omin is not None or omax is not None:
      for idx in np.ndindex(*K.shape):
        cons.append(('output_bounds', ('non-negative',) + idx, K[idx], 'ineq'))
      for u in range(units):
        for t in range(terms):
          cons.append(('scale_bounds', (u, t), S[u, t] if omin is not None else sym.s_mul(-1, S[u, t]), 'ineq'))
    _queries(case, passes, npreds, cons, eps, dict(k=K, s=S), dict(fn='kfl', params=p), kinds=None)
  return case


# ---------------------------------------------------------------- replay: run the real assert eagerly
def replay(r):
  import tensorflow as tf
  rp = r['replay']
  p = rp['params']
  eps = float(Fraction(rp['eps']))
  w = r['witness']
  if rp['fn'] == 'lattice':
    layer = _lattice_layer(p)
    layer.kernel.assign(core.witness_np(w['w']).astype(np.float32))
  elif rp['fn'] == 'pwl':
    layer = _pwl_layer(p)
    layer.kernel.assign(core.witness_np(w['w']).astype(np.float32))
    if 'm' in w:
      layer.missing_output.assign(core.witness_np(w['m']).astype(np.float32))
  elif rp['fn'] == 'linear':
    from vf.props import c20
    layer = c20._layer(p)
    n, units = len(p['mono']), p['units']
    layer.build(tf.TensorShape([None, n] if units == 1 else [None, units, n]))
    layer.kernel.assign(core.witness_np(w['w']).astype(np.float32))
  elif rp['fn'] == 'categorical':
    from tensorflow_lattice.python import categorical_calibration_layer as CL
    layer = CL.CategoricalCalibration(num_buckets=p['n'], units=p['units'], output_min=p.get('omin'), output_max=p.get('omax'),
                                      monotonicities=[tuple(e) for e in p['pairs']] or None)
    layer.build(tf.TensorShape([None, p['units']]))
    layer.kernel.assign(core.witness_np(w['w']).astype(np.float32))
  elif rp['fn'] == 'kfl':
    from tensorflow_lattice.python import kronecker_factored_lattice_layer as KL
    layer = KL.KroneckerFactoredLattice(lattice_sizes=p['ls'], units=p['units'], num_terms=p['terms'], monotonicities=list(p['mono']),
                                        output_min=p.get('omin'), output_max=p.get('omax'))
    layer.build(tf.TensorShape([None, p['dims']] if p['units'] == 1 else [None, p['units'], p['dims']]))
    layer.kernel.assign(core.witness_np(w['k']).astype(np.float32))
    layer.scale.assign(core.witness_np(w['s']).astype(np.float32))
  else:
    from tensorflow_lattice.python import rtl_layer as RL
    layer = RL.RTL(num_lattices=2, lattice_rank=2, lattice_size=2, output_min=0.0, output_max=1.0, random_seed=1)
    layer({'unconstrained': tf.zeros([1, 1]), 'increasing': tf.zeros([1, 2])})
    for monos, lat in layer._lattice_layers.items():
      lat.kernel.assign(core.witness_np(w[str(monos)]).astype(np.float32))
  raised = False
  msg = ''
  try:
    layer.assert_constraints(eps=eps)
  except tf.errors.InvalidArgumentError as e:
    raised = True
    msg = str(e)[:200]
  except Exception as e:  # pylint: disable=broad-except
    raised = True
    msg = 'unexpected %s: %s' % (type(e).__name__, str(e)[:160])
  if rp['expect'] == 'raise':
    rep = not raised   # a clear violation was accepted
  else:
    rep = raised       # weights feasible with margin were rejected
  return dict(reproduced=bool(rep), detail=dict(assert_raised=raised, expected=rp['expect'], message=msg, eps=eps,
                                                weights={k: core.witness_np(v).tolist() for k, v in w.items()}))


def cases(tier, seed):
  out = []

  def add(fn, required=True, cap=600, **p):
    nm = '%s-%s' % (fn.replace('case_', ''), '-'.join('%s%s' % (k[:3], str(v).replace(' ', '')) for k, v in sorted(p.items()) if k not in ('timeout',)))
    p['name'] = nm[:200]
    out.append(dict(name=p['name'], fn=fn, params=p, cap=cap, required=required))

  add('case_lattice', sizes=[3, 3], units=2, mono=[1, 0], edge=[[0, 1, 1]], trap=[[0, 1, 1]], omin=0.0, omax=4.0)
  add('case_lattice', sizes=[3, 3], units=1, mono=[1, 1], mdom=[[0, 1]], jmono=[[0, 1]], omin=-1.0)
  add('case_lattice', sizes=[3, 2], units=2, mono=[1, 1], rdom=[[1, 0]], omax=1.0)
  add('case_lattice', sizes=[2, 3, 2], units=2, mono=[1, 0, 1], edge=[[0, 1, -1]], trap=[[2, 1, 1]], omax=2.5)
  add('case_lattice', sizes=[2, 2], units=1, mono=[0, 1], jmono=[[0, 1]])
  add('case_rtl')
  for mono in (1, -1, 0):
    add('case_pwl', nk=3, units=2, mono=mono, omin=0.0, omax=1.0)
    add('case_pwl', nk=4, units=1, mono=mono, omin=-1.0, omax=None, missing=True)
  add('case_pwl', nk=3, units=2, mono=1, omin=0.0, omax=1.0, clamp_min=True, clamp_max=True)
  add('case_pwl', nk=3, units=1, mono=-1, omin=0.0, omax=1.0, clamp_min=True, missing=True)
  add('case_linear', mono=[1, -1, 0], units=2, imin=[None] * 3, imax=[None] * 3)
  add('case_linear', mono=[1, 1, 1, 0], units=1, mdom=[[0, 1], [1, 2]], imin=[None] * 4, imax=[None] * 4)
  add('case_linear', mono=[-1, -1, 0], units=2, rdom=[[0, 1]], imin=[0.0, -1.0, None], imax=[2.0, 1.0, None])
  add('case_linear', mono=[1, 1, 0], units=2, norm=1, imin=[None] * 3, imax=[None] * 3)
  add('case_categorical', n=4, units=2, pairs=[[0, 1]], omin=0.0, omax=1.0)
  add('case_categorical', n=4, units=1, pairs=[[0, 1], [1, 2]], omin=None, omax=None)
  add('case_categorical', n=4, units=2, pairs=[[0, 1], [2, 3], [0, 3]], omin=-1.0, omax=None)
  add('case_kfl', ls=2, dims=2, units=1, terms=1, mono=[1, 0])
  add('case_kfl', ls=3, dims=2, units=2, terms=2, mono=[1, 1])
  add('case_kfl', ls=2, dims=2, units=2, terms=1, mono=[1, 0], omin=0.0, omax=1.0)
  add('case_kfl', ls=3, dims=2, units=1, terms=2, mono=[0, 0], omin=-1.0, omax=2.0)
  add('case_kfl', ls=2, dims=2, units=2, terms=1, mono=[0, 1], omin=0.0)
  add('case_kfl', ls=2, dims=2, units=1, terms=2, mono=[1, 1], omax=1.0)
  if tier == 'thorough':
    add('case_lattice', sizes=[3, 3, 2], units=3, mono=[1, 1, 0], edge=[[0, 2, 1], [1, 2, -1]], trap=[[0, 2, 1]], mdom=[[0, 1]],
        omin=0.0, omax=8.0, required=False, timeout=300)
    add('case_pwl', nk=4, units=3, mono=1, omin=0.0, omax=2.0, clamp_max=True, missing=True, required=False)
    add('case_lattice', sizes=[3, 3, 3], units=1, mono=[1, 0, 1], edge=[[0, 1, 1]], trap=[[2, 1, -1]], omin=-4.0, omax=8.0,
        required=False, timeout=300)
    add('case_lattice', sizes=[2, 4], units=2, mono=[1, 1], rdom=[[0, 1]], mdom=[], omin=0.0, required=False, timeout=300)
    add('case_linear', mono=[1, 1, -1, -1, 0], units=3, mdom=[[0, 1]], rdom=[[2, 3]], imin=[None, None, 0.0, -1.0, None], imax=[None, None, 2.0, 1.0, None],
        required=False)
    add('case_categorical', n=6, units=2, pairs=[[0, 1], [1, 2], [3, 4], [0, 5], [2, 5]], omin=0.0, omax=4.0, required=False)
    add('case_kfl', ls=3, dims=3, units=2, terms=2, mono=[1, 0, 1], omin=0.0, omax=1.0, required=False)
    add('case_kfl', ls=4, dims=2, units=1, terms=3, mono=[1, 1], omax=0.0, required=False)
  return out
