"""Scalar algebra for the graph interpreter.

A tensor element is one of
  * a concrete exact value: bool, int, fractions.Fraction
  * a z3 term (Real- or Bool-sorted)
  * Frac(n, d): the rational function n/d whose parts are concrete or z3 terms.
    Divisions by symbolic terms are never handed to the solver; they are kept as
    numerator/denominator pairs and comparisons are cross-multiplied
    (DESIGN 1.3).  An element is *defined* iff its denominator is non-zero.
"""
from fractions import Fraction
import itertools
import numpy as np
import z3


class HarnessError(Exception):
  pass


class NeedSplit(Exception):
  """A float->int cast or a sort order is not determined by the case assumption: the caller splits the case."""

  def __init__(self, cond, why):
    Exception.__init__(self, why)
    self.cond = cond
    self.why = why


class Undefined(Exception):
  """The real code would fail here (e.g. gather index out of range) for every input of the current case - or, when
  `cond` is given, for the inputs of the case that satisfy `cond`."""

  def __init__(self, msg, cond=None):
    Exception.__init__(self, msg)
    self.cond = cond


class Ctx:
  """Per-query context: stub contracts, side obligations, sign cache."""

  def __init__(self):
    self.assumptions = []      # contracts of stubs + harness preconditions
    self.cmp_obligations = []  # denominators consumed by a comparison
    self.stubs = []            # human readable list of stubs used
    self.sig_args = []         # (arg term, result var) for Sigmoid stubs
    self.exp_args = []
    self.log_args = []
    self.softmax = {}
    self.memo = {}
    self._sign = {}
    self.side_queries = 0
    self.fresh = itertools.count()
    self.case_assumptions = []  # forced-concretisation case assumption
    self.forced = []            # log of forced concretisations
    self.resolve_comparisons = False  # decide comparisons that the assumptions force (keeps terms polynomial)
    self._resolved = {}
    self._rsolver = None

  def assume(self, *conds):
    for c in conds:
      if isinstance(c, (bool, np.bool_)):
        if not c:
          self.assumptions.append(z3.BoolVal(False))
      else:
        self.assumptions.append(c)

  def fresh_real(self, prefix):
    return z3.Real('%s!%d' % (prefix, next(self.fresh)))

  def sign(self, d):
    """+1 / -1 when the assumptions force the sign of term d, else None."""
    if not is_z(d):
      return 1 if d > 0 else (-1 if d < 0 else 0)
    k = d.get_id()
    if k in self._sign:
      return self._sign[k][1]
    res = None
    s = z3.Solver()
    s.set('timeout', 3000)
    s.add(*self.assumptions)
    s.add(*self.case_assumptions)
    self.side_queries += 1
    s.push()
    s.add(z3.Not(d > 0))
    if s.check() == z3.unsat:
      res = 1
    s.pop()
    if res is None:
      s.add(z3.Not(d < 0))
      self.side_queries += 1
      if s.check() == z3.unsat:
        res = -1
    self._sign[k] = (d, res)  # keep d alive so the id is not reused
    return res

  def resolve(self, cond):
    """cond -> True / False when forced by the assumptions in force *now*, else cond itself."""
    k = cond.get_id()
    if k in self._resolved:
      return self._resolved[k][1]
    if self._rsolver is None or self._rsolver[0] != (len(self.assumptions), len(self.case_assumptions)):
      s = z3.Solver()
      s.set('timeout', 3000)
      s.add(*self.assumptions)
      s.add(*self.case_assumptions)
      self._rsolver = ((len(self.assumptions), len(self.case_assumptions)), s)
      self._resolved = {}
    s = self._rsolver[1]
    res = cond
    self.side_queries += 1
    s.push()
    s.add(z3.Not(cond))
    if s.check() == z3.unsat:
      res = True
    s.pop()
    if res is cond:
      self.side_queries += 1
      s.push()
      s.add(cond)
      if s.check() == z3.unsat:
        res = False
      s.pop()
    self._resolved[k] = (cond, res)
    return res

  def forced_value(self, term, candidates):
    """Concrete value of `term` forced by assumptions, among candidates."""
    s = z3.Solver()
    s.set('timeout', 5000)
    s.add(*self.assumptions)
    s.add(*self.case_assumptions)
    for c in candidates:
      s.push()
      s.add(z3.Not(c))
      self.side_queries += 1
      r = s.check()
      s.pop()
      if r == z3.unsat:
        return c
    return None


CTX = Ctx()


def new_ctx():
  global CTX
  CTX = Ctx()
  return CTX


def ctx():
  return CTX


class Frac(object):
  __slots__ = ('n', 'd')

  def __init__(self, n, d):
    self.n = n
    self.d = d

  def __repr__(self):
    return 'Frac(%s / %s)' % (self.n, self.d)


def is_z(x):
  return isinstance(x, z3.ExprRef)


def is_sym(x):
  return isinstance(x, (z3.ExprRef, Frac))


def conc(v):
  """numpy / python scalar -> exact concrete value."""
  if isinstance(v, (bool, np.bool_)):
    return bool(v)
  if isinstance(v, (int, np.integer)):
    return int(v)
  if isinstance(v, (float, np.floating)):
    f = float(v)
    if f != f or f in (float('inf'), float('-inf')):
      return Inf(f)
    return Fraction(f)
  if isinstance(v, bytes):
    return v
  return v


class Inf(object):
  """+-inf / nan constants (clip bounds of Linear, -inf fill).  Only
  comparisons, min/max and negation are supported."""
  __slots__ = ('v',)

  def __init__(self, v):
    self.v = v

  def __repr__(self):
    return 'Inf(%r)' % self.v


def Z(x):
  if isinstance(x, z3.ExprRef):
    return x
  if isinstance(x, (bool, np.bool_)):
    return z3.BoolVal(bool(x))
  if isinstance(x, (int, np.integer)):
    return z3.RealVal(int(x))
  if isinstance(x, Fraction):
    return z3.RealVal(x)
  if isinstance(x, float):
    return z3.RealVal(Fraction(x))
  if isinstance(x, Frac):
    raise HarnessError('Frac passed where a plain term is needed: %r' % (x,))
  raise HarnessError('cannot convert %r' % (type(x),))


def _same(a, b):
  if is_z(a) and is_z(b):
    return a.eq(b)
  if is_z(a) or is_z(b):
    return False
  return a == b


# ---------------------------------------------------------------- float32 regime (on demand)
# A z3 FloatingPoint term as an array element switches the scalar operations below to IEEE float32 with round-to-nearest-even
# (what TensorFlow's CPU kernels do for these elementwise ops).  Only what the float32 cases need is modelled: + - * / neg abs,
# comparisons, max/min/select, constants that are exactly representable.  Everything else raises HarnessError (inconclusive).
_F32 = z3.Float32()


def is_fp(x):
  return isinstance(x, z3.FPRef)


def _fpc(x):
  if is_fp(x):
    return x
  if isinstance(x, Inf):
    return z3.fpPlusInfinity(_F32) if x.v > 0 else z3.fpMinusInfinity(_F32)
  if isinstance(x, (bool, np.bool_)) or isinstance(x, z3.ExprRef) or isinstance(x, Frac):
    raise HarnessError('float32 regime: unsupported operand %r' % (x,))
  f = float(np.float32(float(x)))
  if Fraction(f) != Fraction(x):
    raise HarnessError('float32 regime: constant %r is not a float32 value' % (x,))
  return z3.FPVal(f, _F32)


def _fp_bin(op, a, b):
  if op == 'mul':
    if not is_fp(a) and not isinstance(a, Inf) and a == 1:
      return b
    if not is_fp(b) and not isinstance(b, Inf) and b == 1:
      return a
  if op in ('add', 'sub') and not is_fp(b) and not isinstance(b, Inf) and b == 0:
    return a
  if op == 'add' and not is_fp(a) and not isinstance(a, Inf) and a == 0:
    return b
  if op == 'div' and not is_fp(b) and not isinstance(b, Inf) and b == 1:
    return a
  fn = {'add': z3.fpAdd, 'sub': z3.fpSub, 'mul': z3.fpMul, 'div': z3.fpDiv}[op]
  return fn(z3.RNE(), _fpc(a), _fpc(b))


def _fp_cmp(op, a, b):
  A, B = _fpc(a), _fpc(b)
  if op == 'ne':
    return z3.Not(z3.fpEQ(A, B))
  return {'lt': z3.fpLT, 'le': z3.fpLEQ, 'gt': z3.fpGT, 'ge': z3.fpGEQ, 'eq': z3.fpEQ}[op](A, B)


def fp_value(term, model):
  """float value of a float32 term under a model"""
  import struct
  bv = model.eval(z3.fpToIEEEBV(term), model_completion=True).as_long()
  return struct.unpack('<f', struct.pack('<I', bv))[0]


# ---------------------------------------------------------------- arithmetic
def s_add(a, b):
  if is_fp(a) or is_fp(b):
    return _fp_bin('add', a, b)
  if isinstance(a, Frac) or isinstance(b, Frac):
    if isinstance(a, Inf) or isinstance(b, Inf):
      raise HarnessError('inf arithmetic with Frac')
    if isinstance(a, Frac) and isinstance(b, Frac):
      if _same(a.d, b.d):
        return Frac(s_add(a.n, b.n), a.d)
      return Frac(s_add(s_mul(a.n, b.d), s_mul(b.n, a.d)), s_mul(a.d, b.d))
    if isinstance(a, Frac):
      return Frac(s_add(a.n, s_mul(b, a.d)), a.d)
    return Frac(s_add(s_mul(a, b.d), b.n), b.d)
  if isinstance(a, Inf) or isinstance(b, Inf):
    return _inf_arith('add', a, b)
  za, zb = is_z(a), is_z(b)
  if not za and not zb:
    return a + b
  if not za and a == 0:
    return b
  if not zb and b == 0:
    return a
  return Z(a) + Z(b)


def s_neg(a):
  if is_fp(a):
    return z3.fpNeg(a)
  if isinstance(a, Frac):
    return Frac(s_neg(a.n), a.d)
  if isinstance(a, Inf):
    return Inf(-a.v)
  return -a


def s_sub(a, b):
  if is_fp(a) or is_fp(b):
    return _fp_bin('sub', a, b)
  if not is_sym(a) and not is_sym(b) and not isinstance(a, Inf) and not isinstance(b, Inf):
    return a - b
  if is_z(a) and is_z(b):
    return a - b
  if is_z(a) and not is_sym(b) and not isinstance(b, Inf):
    if b == 0:
      return a
    return a - Z(b)
  return s_add(a, s_neg(b))


def s_mul(a, b):
  if is_fp(a) or is_fp(b):
    return _fp_bin('mul', a, b)
  if isinstance(a, Frac) and isinstance(b, Frac):
    return Frac(s_mul(a.n, b.n), s_mul(a.d, b.d))
  if isinstance(a, Frac):
    return Frac(s_mul(a.n, b), a.d)
  if isinstance(b, Frac):
    return Frac(s_mul(a, b.n), b.d)
  if isinstance(a, Inf) or isinstance(b, Inf):
    return _inf_arith('mul', a, b)
  za, zb = is_z(a), is_z(b)
  if not za and not zb:
    return a * b
  if not za:
    if a == 0:
      return 0
    if a == 1:
      return b
  if not zb:
    if b == 0:
      return 0
    if b == 1:
      return a
  return Z(a) * Z(b)


def _ieee_div_by_zero(a):
  """a / 0 as floating point does it (only when the case asks for it: ctx().memo['ieee_div0']): +-inf by the sign
  of a, NaN (reported as `Undefined`) for 0/0; an undetermined sign splits the case."""
  c = ctx()
  if isinstance(a, Frac):
    raise HarnessError('ieee division of a fraction by zero')
  if not is_z(a):
    if a == 0:
      raise Undefined('0/0 = NaN')
    return Inf(float('inf') if a > 0 else float('-inf'))
  pos = c.resolve(a > 0)
  if pos is True:
    return Inf(float('inf'))
  neg = c.resolve(a < 0)
  if neg is True:
    return Inf(float('-inf'))
  if pos is False and neg is False:
    raise Undefined('0/0 = NaN')
  raise NeedSplit(a > 0 if pos is not False else a < 0, 'sign of the numerator of a division by an exact zero')


def s_div(a, b):
  if is_fp(a) or is_fp(b):
    return _fp_bin('div', a, b)
  if isinstance(a, Inf) or isinstance(b, Inf):
    return _inf_arith('div', a, b)
  if not is_sym(b) and b == 0 and ctx().memo.get('ieee_div0'):
    return _ieee_div_by_zero(a)
  if isinstance(b, Frac):
    # a / (n/d) = a*d / n
    if isinstance(a, Frac):
      if _same(a.d, b.d):
        return _mkfrac(a.n, b.n)
      return _mkfrac(s_mul(a.n, b.d), s_mul(a.d, b.n))
    return _mkfrac(s_mul(a, b.d), b.n)
  if isinstance(a, Frac):
    if not is_z(b):
      if b == 0:
        return Frac(a.n, 0)
      return Frac(s_mul(a.n, Fraction(1) / Fraction(b)), a.d)
    return Frac(a.n, s_mul(a.d, b))
  if not is_z(b):
    if b == 0:
      return Frac(a, 0)
    if not is_z(a):
      return Fraction(a) / Fraction(b)
    return s_mul(a, Fraction(1) / Fraction(b))
  return Frac(a, b)


def _mkfrac(n, d):
  if not is_z(d) and d != 0:
    return s_mul(n, Fraction(1) / Fraction(d))
  return Frac(n, d)


def _inf_arith(op, a, b):
  av = a.v if isinstance(a, Inf) else a
  bv = b.v if isinstance(b, Inf) else b
  if is_sym(av) or is_sym(bv):
    raise HarnessError('inf arithmetic with symbolic operand (%s)' % op)
  av, bv = float(av), float(bv)
  if op == 'add':
    r = av + bv
  elif op == 'mul':
    r = av * bv
  else:
    r = av / bv
  return conc(r)


# ---------------------------------------------------------------- comparisons
def _cmp_plain(op, a, b):
  if isinstance(a, Inf) or isinstance(b, Inf):
    av = a.v if isinstance(a, Inf) else None
    bv = b.v if isinstance(b, Inf) else None
    if av is not None and bv is not None:
      return {'ge': av >= bv, 'gt': av > bv, 'le': av <= bv, 'lt': av < bv,
              'eq': av == bv, 'ne': av != bv}[op]
    # finite (possibly symbolic) value against an infinity
    if av is None:
      if bv != bv:
        return op == 'ne'
      pos = bv > 0
      return {'ge': not pos, 'gt': not pos, 'le': pos, 'lt': pos,
              'eq': False, 'ne': True}[op]
    if av != av:
      return op == 'ne'
    pos = av > 0
    return {'ge': pos, 'gt': pos, 'le': not pos, 'lt': not pos,
            'eq': False, 'ne': True}[op]
  if not is_z(a) and not is_z(b):
    return {'ge': a >= b, 'gt': a > b, 'le': a <= b, 'lt': a < b,
            'eq': a == b, 'ne': a != b}[op]
  a, b = Z(a), Z(b)
  if op == 'ge':
    r = a >= b
  elif op == 'gt':
    r = a > b
  elif op == 'le':
    r = a <= b
  elif op == 'lt':
    r = a < b
  elif op == 'eq':
    r = a == b
  else:
    r = a != b
  c = CTX
  if c.resolve_comparisons:
    return c.resolve(r)
  return r


_FLIP = {'ge': 'le', 'gt': 'lt', 'le': 'ge', 'lt': 'gt', 'eq': 'eq', 'ne': 'ne'}


def _common(a, b):
  """Frac operands -> (na, nb, D) with a = na/D, b = nb/D."""
  if isinstance(a, Frac) and isinstance(b, Frac):
    if _same(a.d, b.d):
      return a.n, b.n, a.d
    return s_mul(a.n, b.d), s_mul(b.n, a.d), s_mul(a.d, b.d)
  if isinstance(a, Frac):
    return a.n, s_mul(b, a.d), a.d
  return s_mul(a, b.d), b.n, b.d


def s_cmp(op, a, b):
  if is_fp(a) or is_fp(b):
    return _fp_cmp(op, a, b)
  if isinstance(a, Frac) or isinstance(b, Frac):
    if isinstance(a, Inf) or isinstance(b, Inf):
      fin = a if isinstance(b, Inf) else b
      ctx().cmp_obligations.append(fin.d)
      return _cmp_plain(op, 0 if isinstance(b, Inf) else a, 0 if isinstance(a, Inf) else b)
    na, nb, D = _common(a, b)
    ctx().cmp_obligations.append(D)
    if op in ('eq', 'ne'):
      return _cmp_plain(op, na, nb)
    sg = ctx().sign(D)
    if sg == 1:
      return _cmp_plain(op, na, nb)
    if sg == -1:
      return _cmp_plain(_FLIP[op], na, nb)
    if sg == 0:
      return False
    return z3.Or(z3.And(Z(D) > 0, Z(_cmp_plain(op, na, nb))),
                 z3.And(Z(D) < 0, Z(_cmp_plain(_FLIP[op], na, nb))))
  return _cmp_plain(op, a, b)


def s_ite(c, a, b):
  if is_fp(a) or is_fp(b):
    return z3.If(c, _fpc(a), _fpc(b)) if is_z(c) else (a if c else b)
  if not is_z(c):
    return a if c else b
  if isinstance(a, Inf) or isinstance(b, Inf):
    raise HarnessError('symbolic select over an infinite constant')
  if isinstance(a, Frac) or isinstance(b, Frac):
    an, ad = (a.n, a.d) if isinstance(a, Frac) else (a, 1)
    bn, bd = (b.n, b.d) if isinstance(b, Frac) else (b, 1)
    if _same(ad, bd):
      return Frac(s_ite(c, an, bn), ad)
    return Frac(s_ite(c, an, bn), s_ite(c, ad, bd))
  if isinstance(a, (bool, np.bool_)) and isinstance(b, (bool, np.bool_)):
    if a == b:
      return bool(a)
    return c if a else z3.Not(c)
  if not is_z(a) and not is_z(b) and a == b:
    return a
  if is_z(a) and is_z(b) and a.eq(b):
    return a
  return z3.If(c, Z(a), Z(b))


def s_max(a, b):
  if is_fp(a) or is_fp(b):
    A, B = _fpc(a), _fpc(b)
    return z3.If(z3.fpGEQ(A, B), A, B)
  if not is_sym(a) and not is_sym(b):
    if isinstance(a, Inf) or isinstance(b, Inf):
      return a if _cmp_plain('ge', a, b) else b
    return a if a >= b else b
  if isinstance(a, Inf) or isinstance(b, Inf):
    c = s_cmp('ge', a, b)
    return a if c else b
  if isinstance(a, Frac) or isinstance(b, Frac):
    na, nb, D = _common(a, b)
    sg = ctx().sign(D)
    if sg == 1:
      return Frac(s_max(na, nb), D)
    if sg == -1:
      return Frac(s_min(na, nb), D)
    return Frac(s_ite(Z(D) > 0, s_max(na, nb), s_min(na, nb)), D)
  return s_ite(s_cmp('ge', a, b), a, b)


def s_min(a, b):
  if is_fp(a) or is_fp(b):
    A, B = _fpc(a), _fpc(b)
    return z3.If(z3.fpLEQ(A, B), A, B)
  if not is_sym(a) and not is_sym(b):
    if isinstance(a, Inf) or isinstance(b, Inf):
      return a if _cmp_plain('le', a, b) else b
    return a if a <= b else b
  if isinstance(a, Inf) or isinstance(b, Inf):
    c = s_cmp('le', a, b)
    return a if c else b
  if isinstance(a, Frac) or isinstance(b, Frac):
    na, nb, D = _common(a, b)
    sg = ctx().sign(D)
    if sg == 1:
      return Frac(s_min(na, nb), D)
    if sg == -1:
      return Frac(s_max(na, nb), D)
    return Frac(s_ite(Z(D) > 0, s_min(na, nb), s_max(na, nb)), D)
  return s_ite(s_cmp('le', a, b), a, b)


def s_abs(a):
  if is_fp(a):
    return z3.fpAbs(a)
  if isinstance(a, Frac):
    return s_max(a, s_neg(a))
  if isinstance(a, Inf):
    return Inf(abs(a.v))
  if is_z(a):
    return z3.If(a >= 0, a, -a)
  return abs(a)


def s_sign(a):
  if isinstance(a, Frac):
    sg = ctx().sign(a.d)
    if sg == 1:
      return s_sign(a.n)
    if sg == -1:
      return s_neg(s_sign(a.n))
    raise HarnessError('sign of Frac with unknown denominator sign')
  if is_z(a):
    return z3.If(a > 0, z3.RealVal(1), z3.If(a < 0, z3.RealVal(-1), z3.RealVal(0)))
  return 1 if a > 0 else (-1 if a < 0 else 0)


def s_and(a, b):
  if not is_z(a):
    return b if a else False
  if not is_z(b):
    return a if b else False
  return z3.And(a, b)


def s_or(a, b):
  if not is_z(a):
    return True if a else b
  if not is_z(b):
    return True if b else a
  return z3.Or(a, b)


def s_not(a):
  if is_z(a):
    return z3.Not(a)
  return not a


# ---------------------------------------------------------------- ufuncs
def _uf2(f):
  u = np.frompyfunc(f, 2, 1)

  def g(a, b):
    r = u(a, b)
    if not isinstance(r, np.ndarray):
      x = np.empty((), dtype=object)
      x[()] = r
      return x
    return r
  return g


def _uf1(f):
  u = np.frompyfunc(f, 1, 1)

  def g(a):
    r = u(a)
    if not isinstance(r, np.ndarray):
      x = np.empty((), dtype=object)
      x[()] = r
      return x
    return r
  return g


add = _uf2(s_add)
sub = _uf2(s_sub)
mul = _uf2(s_mul)
div = _uf2(s_div)
maximum = _uf2(s_max)
minimum = _uf2(s_min)
neg = _uf1(s_neg)
absv = _uf1(s_abs)
sign = _uf1(s_sign)
ge = _uf2(lambda a, b: s_cmp('ge', a, b))
gt = _uf2(lambda a, b: s_cmp('gt', a, b))
le = _uf2(lambda a, b: s_cmp('le', a, b))
lt = _uf2(lambda a, b: s_cmp('lt', a, b))
eq = _uf2(lambda a, b: s_cmp('eq', a, b))
ne = _uf2(lambda a, b: s_cmp('ne', a, b))
logical_and = _uf2(s_and)
logical_or = _uf2(s_or)
logical_not = _uf1(s_not)
_sel = np.frompyfunc(s_ite, 3, 1)


def select(c, a, b):
  c, a, b = np.broadcast_arrays(c, a, b)
  r = _sel(c, a, b)
  if not isinstance(r, np.ndarray):
    x = np.empty((), dtype=object)
    x[()] = r
    return x
  return r


def obj(x):
  """numpy array / python scalar -> object array of exact concrete values."""
  x = np.asarray(x)
  a = np.empty(x.shape, dtype=object)
  if x.shape == ():
    a[()] = conc(x.item() if x.dtype != object else x[()])
    return a
  flat = x.reshape(-1)
  out = a.reshape(-1)
  for i in range(flat.shape[0]):
    v = flat[i]
    out[i] = conc(v.item() if hasattr(v, 'item') else v)
  return a


def symbolic(name, shape):
  a = np.empty(shape, dtype=object)
  for idx in np.ndindex(*shape):
    a[idx] = z3.Real(name + ''.join('_%d' % i for i in idx))
  return a


def full(shape, v):
  a = np.empty(shape, dtype=object)
  a[...] = v
  return a


def scalar(a):
  if isinstance(a, np.ndarray):
    if a.shape != ():
      a = a.reshape(-1)
      if a.shape[0] != 1:
        raise HarnessError('scalar() of non-scalar array')
      return a[0]
    return a[()]
  return a


def reduce(op, a, axes, keepdims=False, empty=None):
  a = np.asarray(a, dtype=object)
  if axes is None:
    axes = list(range(a.ndim))
  axes = sorted(set(int(x) % a.ndim for x in np.atleast_1d(axes))) if a.ndim else []
  res = a
  for ax in reversed(axes):
    n = res.shape[ax]
    if n == 0:
      if empty is None:
        raise HarnessError('reduce over empty axis')
      shp = list(res.shape)
      del shp[ax]
      res = full(shp, empty)
      continue
    acc = np.take(res, 0, axis=ax)
    for i in range(1, n):
      acc = op(acc, np.take(res, i, axis=ax))
    if not isinstance(acc, np.ndarray):
      x = np.empty((), dtype=object)
      x[()] = acc
      acc = x
    res = acc
  if keepdims:
    for ax in axes:
      res = np.expand_dims(res, ax)
  return res


# ---------------------------------------------------------------- helpers for queries
def plain(x):
  """Element -> z3 Real term; refuses Frac (use num/den helpers)."""
  if isinstance(x, Frac):
    raise HarnessError('unexpected Frac')
  return Z(x)


def b(x):
  """Element -> z3 Bool."""
  if isinstance(x, (bool, np.bool_)):
    return z3.BoolVal(bool(x))
  return x


def GE(a, b_):
  return b(s_cmp('ge', a, b_))


def GT(a, b_):
  return b(s_cmp('gt', a, b_))


def LE(a, b_):
  return b(s_cmp('le', a, b_))


def EQ(a, b_):
  return b(s_cmp('eq', a, b_))


def NE(a, b_):
  return b(s_cmp('ne', a, b_))


def defined(x):
  """z3 Bool: element is defined (its denominator is non-zero)."""
  if isinstance(x, Frac):
    if is_z(x.d):
      return x.d != 0
    return z3.BoolVal(x.d != 0)
  return z3.BoolVal(True)


def dens(arr):
  out = []
  for x in np.asarray(arr, dtype=object).reshape(-1):
    if isinstance(x, Frac):
      out.append(x.d)
  return out


def subst_value(term, model):
  """Evaluate an element under a z3 model -> Fraction (or bool)."""
  if isinstance(term, Frac):
    n = subst_value(term.n, model)
    d = subst_value(term.d, model)
    if d == 0:
      return None
    return Fraction(n) / Fraction(d)
  if not is_z(term):
    return term
  v = model.eval(term, model_completion=True)
  return z3_to_py(v)


def z3_to_py(v):
  if z3.is_true(v):
    return True
  if z3.is_false(v):
    return False
  if z3.is_rational_value(v):
    return Fraction(v.numerator_as_long(), v.denominator_as_long())
  if z3.is_algebraic_value(v):
    a = v.approx(30)
    return Fraction(a.numerator_as_long(), a.denominator_as_long())
  if z3.is_int_value(v):
    return v.as_long()
  if isinstance(v, z3.FPNumRef):
    if v.isNaN():
      return None
    if v.isInf():
      return float('-inf') if v.isNegative() else float('inf')
    import struct
    bits = (int(v.sign()) << 31) | (v.exponent_as_long(biased=True) << 23) | v.significand_as_long()
    return Fraction(struct.unpack('<f', struct.pack('<I', bits))[0])
  raise HarnessError('cannot read model value %s' % v)
