"""E3 - a small path-forking executor over z3 reals for NumPy-on-floats Python (DESIGN 1/E3).

Values are SR wrappers around vf.sym elements (z3 terms or num/den fractions).  bool() of a symbolic comparison asks the
solver whether the path condition forces it and otherwise forks: the function is re-executed with a decision prefix
(depth first) until every path is explored.  After each path the postcondition is decided by z3 under the path condition.
"""
import time
from fractions import Fraction

import z3

from vf import sym
from vf.sym import Frac, is_z


class Abort(Exception):
  pass


class TooManyPaths(Exception):
  pass


class Run(object):
  def __init__(self, prefix, assumptions):
    self.prefix = list(prefix)
    self.pos = 0
    self.pc = []
    self.work = []
    self.solver = z3.Solver()
    self.solver.set('timeout', 10000)
    self.solver.add(*assumptions)
    self.nq = 0


CUR = [None]


def _check(extra):
  r = CUR[0]
  r.nq += 1
  r.solver.push()
  r.solver.add(*extra)
  res = r.solver.check()
  r.solver.pop()
  return res


def decide(cond):
  """cond: python bool or z3 Bool -> python bool (forking when the path condition does not decide it)."""
  if isinstance(cond, bool):
    return cond
  c = z3.simplify(cond)
  if z3.is_true(c):
    return True
  if z3.is_false(c):
    return False
  r = CUR[0]
  can_t = _check([c])
  can_f = _check([z3.Not(c)])
  if can_t == z3.unknown or can_f == z3.unknown:
    raise Abort('solver unknown on a branch condition')
  if can_t == z3.sat and can_f == z3.unsat:
    return True
  if can_f == z3.sat and can_t == z3.unsat:
    return False
  if can_t == z3.unsat and can_f == z3.unsat:
    raise Abort('infeasible path')
  if r.pos < len(r.prefix):
    ch = r.prefix[r.pos]
  else:
    ch = True
    r.work.append(r.prefix[:r.pos] + [False])
    r.prefix = r.prefix + [True]
  r.pos += 1
  lit = c if ch else z3.Not(c)
  r.pc.append(lit)
  r.solver.add(lit)
  sym.ctx().case_assumptions.append(lit)
  return ch


def el(x):
  """python number / SR -> vf.sym element"""
  if isinstance(x, SR):
    return x.v
  if isinstance(x, bool):
    raise TypeError('bool in arithmetic')
  if isinstance(x, int):
    return x
  if isinstance(x, float):
    if x != x or x in (float('inf'), float('-inf')):
      raise Abort('non-finite constant')
    return Fraction(x)
  if isinstance(x, Fraction):
    return x
  if hasattr(x, 'item'):
    return el(x.item())
  raise TypeError(type(x))


class SB(object):
  """symbolic bool"""

  def __init__(self, c):
    self.c = c

  def __bool__(self):
    return decide(self.c if not isinstance(self.c, bool) else self.c)

  def __invert__(self):
    return SB(sym.s_not(self.c))


class SR(object):
  __array_priority__ = 1000

  def __init__(self, v):
    self.v = v

  def _bin(self, o, f, swap=False):
    try:
      b = el(o)
    except TypeError:
      return NotImplemented
    return SR(f(b, self.v) if swap else f(self.v, b))

  def __add__(self, o): return self._bin(o, sym.s_add)
  def __radd__(self, o): return self._bin(o, sym.s_add, True)
  def __sub__(self, o): return self._bin(o, sym.s_sub)
  def __rsub__(self, o): return self._bin(o, sym.s_sub, True)
  def __mul__(self, o): return self._bin(o, sym.s_mul)
  def __rmul__(self, o): return self._bin(o, sym.s_mul, True)

  def __truediv__(self, o):
    d = el(o)
    if decide(sym.b(sym.s_cmp('eq', d, 0))):
      raise ZeroDivisionError('division by zero (numpy would produce inf/nan)')
    return SR(sym.s_div(self.v, d))

  def __rtruediv__(self, o):
    if decide(sym.b(sym.s_cmp('eq', self.v, 0))):
      raise ZeroDivisionError('division by zero (numpy would produce inf/nan)')
    return SR(sym.s_div(el(o), self.v))

  def __neg__(self): return SR(sym.s_neg(self.v))
  def __pos__(self): return self
  def __abs__(self): return SR(sym.s_abs(self.v))

  def _cmp(self, op, o):
    return SB(sym.s_cmp(op, self.v, el(o)))

  def __lt__(self, o): return self._cmp('lt', o)
  def __le__(self, o): return self._cmp('le', o)
  def __gt__(self, o): return self._cmp('gt', o)
  def __ge__(self, o): return self._cmp('ge', o)

  def __eq__(self, o):
    if o is None:
      return False
    return self._cmp('eq', o)

  def __ne__(self, o):
    if o is None:
      return True
    return self._cmp('ne', o)
  __hash__ = None

  def __float__(self):
    raise Abort('float() of a symbolic value')

  def __round__(self, nd=None):
    if nd is not None:
      raise Abort('round(x, ndigits) of a symbolic value')
    return rint(self)

  def __int__(self):
    return trunc(self)


def value_of(x, model):
  return sym.subst_value(el(x), model)


def _feasible_value(v):
  r = CUR[0]
  r.nq += 1
  if r.solver.check() != z3.sat:
    raise Abort('path condition unsat/unknown')
  return sym.subst_value(v, r.solver.model())


def rint(x, max_forks=64):
  """round-half-even of a symbolic value: forks over the integers the path condition allows."""
  if not isinstance(x, SR):
    return int(round(x))
  v = x.v
  for _ in range(max_forks):
    val = _feasible_value(v)
    if val is None:
      raise Abort('rint of undefined value')
    k = int(round(Fraction(val)))  # python round = half to even on Fraction
    inside = z3.And(sym.b(sym.s_cmp('gt', v, Fraction(2 * k - 1, 2))), sym.b(sym.s_cmp('lt', v, Fraction(2 * k + 1, 2))))
    ties = []
    if k % 2 == 0:
      ties = [sym.b(sym.s_cmp('eq', v, Fraction(2 * k - 1, 2))), sym.b(sym.s_cmp('eq', v, Fraction(2 * k + 1, 2)))]
    if decide(z3.Or([inside] + ties)):
      return k
  raise Abort('rint: too many candidate integers')


def trunc(x, max_forks=64):
  if not isinstance(x, SR):
    return int(x)
  v = x.v
  for _ in range(max_forks):
    val = Fraction(_feasible_value(v))
    k = int(val)
    if val >= 0:
      cond = z3.And(sym.b(sym.s_cmp('ge', v, k)), sym.b(sym.s_cmp('lt', v, k + 1)))
    else:
      cond = z3.And(sym.b(sym.s_cmp('gt', v, k - 1)), sym.b(sym.s_cmp('le', v, k)))
    if decide(cond):
      return k
  raise Abort('int(): too many candidate integers')


def explore(fn, make_inputs, post, max_paths=4000, time_budget=600, expected_exceptions=()):
  """Runs fn(*inputs) on every path.  make_inputs() -> (inputs, assumptions) is called per path (same variable names).
  post(inputs, result) -> z3 Bool / bool that must hold under the path condition.
  Returns a dict with paths, violations [(model-values, description)], errors, exhausted."""
  work = [[]]
  paths = 0
  t0 = time.time()
  nq = 0
  viol, errs = [], []
  exhausted = True
  while work:
    if paths >= max_paths or time.time() - t0 > time_budget:
      exhausted = False
      break
    pre = work.pop()
    sym.new_ctx()
    inputs, assumptions, names = make_inputs()
    sym.ctx().assume(*assumptions)
    run = Run(pre, assumptions)
    CUR[0] = run
    try:
      res = fn(*inputs)
      goal = post(inputs, res)
      if goal is not True:
        g = sym.b(goal) if not isinstance(goal, bool) else z3.BoolVal(goal)
        run.nq += 1
        run.solver.push()
        run.solver.add(z3.Not(g))
        r = run.solver.check()
        if r == z3.sat:
          m = run.solver.model()
          viol.append(dict(kind='postcondition', model={k: str(sym.subst_value(v, m)) for k, v in names.items()}))
        elif r == z3.unknown:
          errs.append(dict(kind='unknown', detail='postcondition query unknown'))
        run.solver.pop()
    except Abort as e:
      if 'infeasible' not in str(e):
        errs.append(dict(kind='abort', detail=str(e)))
    except expected_exceptions:
      pass
    except Exception as e:  # pylint: disable=broad-except
      run.nq += 1
      m = run.solver.model() if run.solver.check() == z3.sat else None
      viol.append(dict(kind='exception', exception='%s: %s' % (type(e).__name__, str(e)[:160]),
                       model={k: str(sym.subst_value(v, m)) for k, v in names.items()} if m is not None else {}))
    paths += 1
    nq += run.nq
    work.extend(run.work)
  return dict(paths=paths, violations=viol, errors=errs, exhausted=exhausted and not work, wall=round(time.time() - t0, 2),
              solver_queries=nq)
