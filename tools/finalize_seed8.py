#!/verif/.venv/bin/python
"""usage: finalize_seed8.py <ID> <name> <detected-text>  -- writes seeded/<name>/meta.json from the agent's meta.json, the
outcome of tools/confirm_seed8.sh (seeded/<name>/confirm.txt) and the observed detection."""
import json, sys
ID, name, det = sys.argv[1:4]
m = json.load(open('/tmp/seeds8/%s/meta.json' % ID))
rw, rwo, rb, base = open('/verif/seeded/%s/confirm.txt' % name).read().strip().split(' ', 3)
m['confirmed_by_main'] = dict(demo_exit_with_change=int(rw), demo_exit_without_change=int(rwo), baseline_exit_with_change=int(rb),
                              baseline_summary=base,
                              ran=['git apply patch.diff in a scratch worktree of /repo HEAD (70f22d3)',
                                   'PYTHONPATH=<wt> /venv/bin/python demo.py (with and without the change)',
                                   '/tmp/seedtools/run_baseline.sh <wt> (pinned 281-test suite, with the change)'])
m['confirmed'] = (int(rw) != 0 and int(rwo) == 0 and int(rb) == 0)
m['detected_by'] = {ID: det}
m['detection_cmd'] = 'git worktree add <wt> HEAD; git -C <wt> apply seeded/%s/patch.diff; VERIF_REPO=<wt> ./check %s --tier quick' % (name, ID)
json.dump(m, open('/verif/seeded/%s/meta.json' % name, 'w'), indent=1)
print(name, 'confirmed' if m['confirmed'] else 'NOT CONFIRMED')
