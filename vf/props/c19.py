"""C19 - Gradients delivered to training equal the true derivatives of layer functions."""
import itertools
from fractions import Fraction

import numpy as np
import z3

from vf import sym, specs, core
from vf.core import Case, Traced

PROP = 'C19'

META = dict(
    level='model_checking',
    technique='tf.GradientTape is traced, so the hand-written grad_fn of custom_reduce_prod and the autodiff gradient graphs '
              'of the layers become TF graphs that are executed symbolically; z3 polynomial identities against the analytic '
              'derivative of the reference expression; zero patterns enumerated as case assumptions',
    bounds=dict(quick='custom_reduce_prod: reduced axis of length 2-4, outer axes 1-2, every pattern of exact zeros along the '
                      'reduced axis, arbitrary upstream gradient; KFL layer (lattice size 2-3, dims 2, 1-2 terms) w.r.t. kernel, '
                      'scale, input; Lattice (2x2, 3x2, 2x2x2), PWLCalibration (3-4 keypoints), CategoricalCalibration (3 buckets) '
                      'd out / d kernel', thorough='reduced axis 5, KFL dims 3'),
    outside=['IEEE-754 rounding', 'points of non-differentiability (cell boundaries, keypoints, clip edges)',
             'simplex interpolation gradients'],
    assumptions=['TF autodiff graph construction is trusted to differentiate the primitive ops it is given (only the custom '
                 'gradient is hand-written); TF op semantics per vf/interp.py (validated per case)', 'z3 is sound'],
)


def case_reduce_prod(**p):
  import tensorflow as tf
  from tensorflow_lattice.python import kronecker_factored_lattice_lib as kl
  case = Case(PROP, p['name'], {k: v for k, v in p.items() if k != 'name'})
  case.encoded(kl.custom_reduce_prod)
  shape = list(p['shape'])
  axis = p['axis']
  out_shape = [s for i, s in enumerate(shape) if i != axis % len(shape)]

  def g(x, dy):
    with tf.GradientTape() as t:
      t.watch(x)
      y = kl.custom_reduce_prod(x, axis=axis)
    return t.gradient(y, x, output_gradients=dy), y
  tr = Traced(g, [tf.TensorSpec(shape, tf.float32), tf.TensorSpec(out_shape, tf.float32)], name='custom_reduce_prod.grad')

  def gen(rng, i, shp, trial):
    a = rng.integers(-4, 5, size=shp) / 2.0
    if i == 0 and trial % 2 == 0:
      a.reshape(-1)[:: 3] = 0.0
    return a
  done, mism = tr.validate(np.random.default_rng(0), n=4, gen=gen)
  case.meta.update(validation_points=done, validation_mismatch=mism, nodes=tr.n_nodes)
  ax = axis % len(shape)
  L = shape[ax]
  for zeros in itertools.chain.from_iterable(itertools.combinations(range(L), k) for k in range(0, L + 1)):
    if len(zeros) > p.get('max_zeros', 3):
      continue
    sym.new_ctx()
    x = sym.symbolic('x', tuple(shape))
    dy = sym.symbolic('dy', tuple(out_shape))
    # the zero pattern is imposed on the first slice along the other axes; all other slices are unconstrained
    first = tuple(0 for _ in out_shape)
    assume = []
    for i in range(L):
      idx = list(first)
      idx.insert(ax, i)
      assume.append(x[tuple(idx)] == 0 if i in zeros else x[tuple(idx)] != 0)
    sym.ctx().assume(*assume)
    grad, y = tr.sym_run(x, dy)
    case.meta['ops'] = tr.ops_seen
    bad = []
    for idx in np.ndindex(*shape):
      oidx = tuple(v for i, v in enumerate(idx) if i != ax)
      ref = dy[oidx]
      for j in range(L):
        if j != idx[ax]:
          jdx = list(idx)
          jdx[ax] = j
          ref = sym.s_mul(ref, x[tuple(jdx)])
      bad.append(z3.Or(z3.Not(sym.defined(grad[idx])), sym.NE(grad[idx], ref)))
    fwd_bad = []
    for oidx in np.ndindex(*out_shape):
      ref = 1
      for j in range(L):
        jdx = list(oidx)
        jdx.insert(ax, j)
        ref = sym.s_mul(ref, x[tuple(jdx)])
      fwd_bad.append(sym.NE(y[oidx], ref))
    case.solve('gradient-is-derivative-of-product[zeros=%s]' % list(zeros), core.any_of(bad + fwd_bad), witness=dict(x=x, dy=dy),
               timeout=p.get('timeout', 120), sig=dict(query='reduce_prod'), replay=dict(fn='reduce_prod', params=p),
               required=len(zeros) <= 2 and p.get('required', True))
  sym.new_ctx()
  x = sym.symbolic('x', tuple(shape))
  dy = sym.symbolic('dy', tuple(out_shape))
  grad, y = tr.sym_run(x, dy)
  case.solve('twin:gradient-nonzero', sym.NE(grad[tuple(0 for _ in shape)], 0), expect='sat', kind='twin', timeout=30)
  return case


def case_kfl(**p):
  import tensorflow as tf
  from tensorflow_lattice.python import kronecker_factored_lattice_layer as KL, kronecker_factored_lattice_lib as kl
  case = Case(PROP, p['name'], {k: v for k, v in p.items() if k != 'name'})
  case.encoded(kl.evaluate_with_hypercube_interpolation, kl.custom_reduce_prod, KL.KroneckerFactoredLattice.call)
  ls, dims, terms = p['ls'], p['dims'], p['terms']
  layer = KL.KroneckerFactoredLattice(lattice_sizes=ls, units=1, num_terms=terms)
  layer.build(tf.TensorShape([None, dims]))

  def g(x):
    with tf.GradientTape() as t:
      t.watch(x)
      y = layer(x)
    return t.gradient(y, [layer.kernel, layer.scale, x, layer.bias])
  tr = Traced(g, [tf.TensorSpec([1, dims], tf.float32)], name='KFL.grad')
  kshape = (1, ls, dims, terms)

  def gen(rng, i, shp, trial):
    return (rng.integers(1, 8 * (ls - 1), size=shp) / 8.0)
  vs = {layer.kernel.name: lambda r, t: core.dyadic(r, list(kshape), t),
        layer.scale.name: lambda r, t: core.dyadic(r, [1, terms], t)}
  done, mism = tr.validate(np.random.default_rng(0), n=2, gen=gen, var_shapes=vs)
  case.meta.update(validation_points=done, validation_mismatch=mism, nodes=tr.n_nodes)
  for cell in itertools.product(range(ls - 1), repeat=dims):
    sym.new_ctx()
    x = sym.symbolic('x', (1, dims))
    K = sym.symbolic('k', kshape)
    S = sym.symbolic('s', (1, terms))
    B = sym.symbolic('b', (1,))
    interior = [z3.And(x[0, d] > cell[d], x[0, d] < cell[d] + 1) for d in range(dims)]
    sym.ctx().assume(*interior)
    sym.ctx().resolve_comparisons = True
    gk, gs, gx, gb = tr.sym_run(x, var_values={layer.kernel.ref(): K, layer.scale.ref(): S, layer.bias.ref(): B})
    case.meta['ops'] = tr.ops_seen
    # reference: out = b + (1/T) sum_t s_t prod_d f_{d,t},  f_{d,t} = (1-r_d) k[c_d,d,t] + r_d k[c_d+1,d,t], r_d = x_d - c_d
    r_ = [sym.s_sub(x[0, d], cell[d]) for d in range(dims)]
    f = [[sym.s_add(sym.s_mul(sym.s_sub(1, r_[d]), K[0, cell[d], d, t]), sym.s_mul(r_[d], K[0, cell[d] + 1, d, t])) for t in range(terms)]
         for d in range(dims)]
    invT = Fraction(1, terms)
    pairs = []

    def prod_except(t, skip):
      v = 1
      for d in range(dims):
        if d != skip:
          v = sym.s_mul(v, f[d][t])
      return v
    for t in range(terms):
      pairs.append((gs[0, t], sym.s_mul(prod_except(t, None), invT)))
      for d in range(dims):
        for i in range(ls):
          wgt = sym.s_sub(1, r_[d]) if i == cell[d] else (r_[d] if i == cell[d] + 1 else 0)
          ref = sym.s_mul(sym.s_mul(sym.s_mul(S[0, t], invT), wgt), prod_except(t, d))
          pairs.append((gk[0, i, d, t], ref))
    for d in range(dims):
      ref = 0
      for t in range(terms):
        df = sym.s_sub(K[0, cell[d] + 1, d, t], K[0, cell[d], d, t])
        ref = sym.s_add(ref, sym.s_mul(sym.s_mul(sym.s_mul(S[0, t], invT), df), prod_except(t, d)))
      pairs.append((gx[0, d], ref))
    pairs.append((gb[0], 1))
    undefined = [z3.Not(sym.defined(v)) for arr in (gk, gs, gx) for v in arr.reshape(-1)]
    case.identity('kfl-gradients-are-analytic-derivatives[cell=%s]' % list(cell), pairs, extra_bad=undefined, witness=dict(x=x, k=K, s=S),
               timeout=p.get('timeout', 200), sig=dict(query='kfl'), replay=dict(fn='kfl', params=p), required=p.get('required', True))
  return case


def case_kernel_grad(**p):
  """d out / d kernel == interpolation weights of the example; no kernel variable occurs in it."""
  import tensorflow as tf
  case = Case(PROP, p['name'], {k: v for k, v in p.items() if k != 'name'})
  kind = p['layer']
  if kind == 'lattice':
    from tensorflow_lattice.python import lattice_layer as LL, lattice_lib as ll
    case.encoded(LL.Lattice.call, ll.evaluate_with_hypercube_interpolation, ll.compute_interpolation_weights)
    sizes = list(p['sizes'])
    layer = LL.Lattice(lattice_sizes=sizes, units=p['units'], interpolation='hypercube')
    xshape = [1, len(sizes)] if p['units'] == 1 else [1, p['units'], len(sizes)]
    layer.build(tf.TensorShape([None] + xshape[1:]))
    kshape = (int(np.prod(sizes)), p['units'])
    wfn = lambda x: ll.compute_interpolation_weights(x, sizes, True)
  elif kind == 'pwl':
    from tensorflow_lattice.python import pwl_calibration_layer as PL, pwl_calibration_lib as pl
    case.encoded(PL.PWLCalibration.call, pl.compute_interpolation_weights)
    kps = [0.0, 1.0, 3.0, 3.5][:p['nk']]
    layer = PL.PWLCalibration(input_keypoints=kps, units=p['units'])
    xshape = [1, 1]
    layer.build(tf.TensorShape([None, 1]))
    kshape = (p['nk'], p['units'])
    wfn = lambda x: pl.compute_interpolation_weights(x, layer._interpolation_keypoints, layer._lengths)
  else:
    from tensorflow_lattice.python import categorical_calibration_layer as CL
    case.encoded(CL.CategoricalCalibration.call)
    layer = CL.CategoricalCalibration(num_buckets=p['buckets'], units=p['units'])
    xshape = [1, 1]
    layer.build(tf.TensorShape([None, 1]))
    kshape = (p['buckets'], p['units'])
    wfn = None
  u0 = p.get('unit', 0)

  def g(x):
    with tf.GradientTape() as t:
      y = layer(x)
      yy = tf.reshape(y, [-1])[u0]
    grads = t.gradient(yy, layer.kernel)
    if wfn is not None:
      return grads, wfn(x)
    return grads, tf.one_hot(tf.reshape(tf.cast(x, tf.int32), [-1]), depth=kshape[0])
  dt = tf.float32 if kind != 'categorical' else tf.int32
  tr = Traced(g, [tf.TensorSpec(xshape, dt)], name='%s.kernel_grad' % kind)

  def gen(rng, i, shp, trial):
    if kind == 'categorical':
      return rng.integers(0, kshape[0], size=shp)
    return rng.integers(1, 15, size=shp) / 8.0 + 0.03125
  done, mism = tr.validate(np.random.default_rng(0), n=2, gen=gen, var_shapes={layer.kernel.name: lambda r, t: core.dyadic(r, list(kshape), t)})
  case.meta.update(validation_points=done, validation_mismatch=mism, nodes=tr.n_nodes)
  inputs = []
  if kind == 'categorical':
    inputs = [sym.obj(np.array([[b_]], dtype=np.int64)) for b_ in range(kshape[0])]
  else:
    inputs = [sym.symbolic('x', tuple(xshape))]
  for xi, x in enumerate(inputs):
    sym.new_ctx()
    K = sym.symbolic('k', kshape)
    if kind == 'lattice':
      # differentiability: strictly inside some cell (all cells enumerated through a disjunction-free assumption per cell)
      pass
    grads, W = tr.sym_run(x, var_values={layer.kernel.ref(): K})
    case.meta['ops'] = tr.ops_seen
    # independence of the kernel value: no kernel variable occurs in the gradient terms
    knames = set(str(v) for v in K.reshape(-1))
    occurs = False
    for gval in grads.reshape(-1):
      if sym.is_z(gval):
        from z3 import z3util
        if any(str(v) in knames for v in z3util.get_vars(gval)):
          occurs = True
    case.record('kernel-gradient-independent-of-kernel[input=%d]' % xi, 'sat' if occurs else 'unsat', kind='structural',
                sig=dict(query='independent', layer=kind), witness={}, replay=None)
    W2 = np.asarray(W, dtype=object).reshape(-1, kshape[0])
    row = u0 if (kind == 'lattice' and p['units'] > 1) else 0
    if p.get('independent'):
      # reference written from the definition (not taken from the library): multilinear weights of a 2 x ... x 2 lattice at a
      # point of the open unit cube, vertices in row-major order; decided as polynomial identities (normal form)
      pts = x.reshape(-1, len(p['sizes']))
      pairs = []
      for v_, vert in enumerate(itertools.product(*[range(s_) for s_ in p['sizes']])):
        ref = 1
        for d, c in enumerate(vert):
          ref = sym.s_mul(ref, pts[row, d] if c == 1 else sym.s_sub(1, pts[row, d]))
        pairs.append((grads[v_, u0], ref))
      sym.ctx().case_assumptions = [z3.And(v > 0, v < 1) for v in pts.reshape(-1)]
      case.identity('kernel-gradient-is-multilinear-weight-by-definition[input=%d]' % xi, pairs, witness=dict(x=x, k=K), timeout=p.get('timeout', 300),
                    sig=dict(query='kernel-grad-def', layer=kind), required=p.get('required', True),
                    inline_replay=lambda m, x=x, K=K: _kgrad_def_replay(m, tr, x, K, layer, p))
      continue
    bad = []
    interior = []
    if kind == 'lattice':
      pts = x.reshape(-1, len(p['sizes']))
      for d, s_ in enumerate(p['sizes']):
        v = pts[row, d]
        interior.append(z3.And(v > 0, v < s_ - 1))
        interior += [v != c for c in range(1, s_ - 1)]
    elif kind == 'pwl':
      v = x[0, 0]
      interior = [v != Fraction(c) for c in kps] + [z3.And(v > kps[0], v < kps[-1])]
    for v_ in range(kshape[0]):
      for u in range(kshape[1]):
        ref = W2[row, v_] if u == u0 else 0
        bad.append(sym.NE(grads[v_, u], ref))
    extra = []
    if kind == 'lattice':
      tot = 0
      for v_ in range(kshape[0]):
        tot = sym.s_add(tot, grads[v_, u0])
        extra.append(sym.s_cmp('lt', grads[v_, u0], 0))
      extra.append(sym.NE(tot, 1))
    case.solve('kernel-gradient-is-interpolation-weights[input=%d]' % xi, core.any_of(bad + extra), assumptions=interior,
               witness=dict(x=x, k=K) if kind != 'categorical' else dict(k=K), timeout=p.get('timeout', 120),
               sig=dict(query='kernel-grad', layer=kind),
               inline_replay=lambda m, x=x, K=K: _kgrad_replay(m, tr, x, K, layer, kind, u0, kshape, p))
  return case


def case_kernel_grad_simplex(**p):
  """Lattice with simplex interpolation: d out / d kernel is a convex weight vector (non-negative, sums to one) that does
  not depend on the kernel, for every input of a box around the lattice (clipped inputs) - cell and order by case split."""
  import tensorflow as tf
  from z3 import z3util
  from tensorflow_lattice.python import lattice_layer as LL, lattice_lib as ll
  case = Case(PROP, p['name'], {k: v for k, v in p.items() if k != 'name'})
  case.encoded(LL.Lattice.call, ll.evaluate_with_simplex_interpolation)
  sizes = list(p['sizes'])
  layer = LL.Lattice(lattice_sizes=sizes, units=1, interpolation='simplex', clip_inputs=p.get('clip', True))
  layer.build(tf.TensorShape([None, len(sizes)]))
  n = int(np.prod(sizes))

  def g(x):
    with tf.GradientTape() as t:
      y = tf.reshape(layer(x), [-1])[0]
    return t.gradient(y, layer.kernel), y
  tr = Traced(g, [tf.TensorSpec([1, len(sizes)], tf.float32)], name='lattice-simplex.kernel_grad')
  done, mism = tr.validate(np.random.default_rng(0), n=2, gen=lambda rng, i, shp, t: rng.integers(1, 15, size=shp) / 8.0 + 0.03125,
                           var_shapes={layer.kernel.name: lambda r, t: core.dyadic(r, [n, 1], t)})
  case.meta.update(validation_points=done, validation_mismatch=mism)
  lo, hi = (-1, 1) if p.get('clip', True) else (0, 0)

  def rp(m, x, K):
    xn = core.model_np(m, x)
    gr = np.asarray(tr.tf_run(xn, var_values={layer.kernel.ref(): core.model_np(m, K)})[0], dtype=np.float64).reshape(-1)
    bad = bool(np.min(gr) < -1e-5 or abs(float(np.sum(gr)) - 1.0) > 1e-5)
    return dict(reproduced=bad, detail=dict(x=xn.tolist(), kernel_gradient=gr.tolist()))

  def rpf(m, x, K):
    xn, kn = core.model_np(m, x), core.model_np(m, K)
    gr, yv = tr.tf_run(xn, var_values={layer.kernel.ref(): kn})
    d = abs(float(np.asarray(yv).reshape(-1)[0]) - float(np.sum(np.asarray(gr, dtype=np.float64).reshape(-1) * kn.reshape(-1))))
    return dict(reproduced=bool(d > 1e-4 * max(1.0, float(np.max(np.abs(kn))))), detail=dict(x=xn.tolist(), abs_diff=d))

  def build(extra, leaf):
    c = sym.new_ctx()
    x = sym.symbolic('x', (1, len(sizes)))
    K = sym.symbolic('k', (n, 1))
    box = [z3.And(x[0, d] >= lo, x[0, d] <= sizes[d] - 1 + hi) for d in range(len(sizes))]
    # differentiable points only: not on a cell boundary, no ties between residuals (measure-zero set excluded)
    c.case_assumptions = box + list(extra)
    grads, yv = tr.sym_run(x, var_values={layer.kernel.ref(): K})
    case.meta['ops'] = tr.ops_seen
    tag = '[leaf=%s]' % (leaf or 'root')
    # the weights are those of the forward value: out == sum_v grad_v * kernel_v (the forward value itself is C02's subject)
    acc = 0
    for gv, kv in zip(grads.reshape(-1), K.reshape(-1)):
      acc = sym.s_add(acc, sym.s_mul(gv, kv))
    case.identity('output-is-kernel-gradient-times-kernel' + tag, [(np.asarray(yv, dtype=object).reshape(-1)[0], acc)], witness=dict(x=x, k=K),
                  timeout=p.get('timeout', 60), sig=dict(query='kernel-grad-forward', layer='lattice-simplex'), required=False,
                  inline_replay=lambda m, x=x, K=K: rpf(m, x, K))
    knames = set(str(v) for v in K.reshape(-1))
    occurs = any(sym.is_z(gv) and any(str(v) in knames for v in z3util.get_vars(gv)) for gv in grads.reshape(-1))
    case.record('kernel-gradient-independent-of-kernel' + tag, 'sat' if occurs else 'unsat', kind='structural', witness={}, replay=None,
                sig=dict(query='independent', layer='lattice-simplex'))
    tot = 0
    bad = []
    for gv in grads.reshape(-1):
      tot = sym.s_add(tot, gv)
      bad.append(sym.s_cmp('lt', gv, 0))
    bad.append(sym.NE(tot, 1))
    case.solve('kernel-gradient-is-a-convex-weight-vector' + tag, core.any_of(bad), witness=dict(x=x, k=K), timeout=p.get('timeout', 60),
               sig=dict(query='kernel-grad', layer='lattice-simplex'), inline_replay=lambda m, x=x, K=K: rp(m, x, K),
               required=p.get('required', True))
  core.split_run(build, budget=[p.get('budget', 120)])
  return case


def case_kernel_grad_list(**p):
  """Lattice (hypercube) fed with a list of per-dimension tensors, inputs anywhere in a box around the lattice (clipped):
  d out / d kernel is a convex weight vector that does not depend on the kernel."""
  import tensorflow as tf
  from z3 import z3util
  from tensorflow_lattice.python import lattice_layer as LL, lattice_lib as ll
  case = Case(PROP, p['name'], {k: v for k, v in p.items() if k != 'name'})
  case.encoded(LL.Lattice.call, ll.evaluate_with_hypercube_interpolation, ll._clip_onto_lattice_range)
  sizes = list(p['sizes'])
  rank = len(sizes)
  layer = LL.Lattice(lattice_sizes=sizes, units=1, interpolation='hypercube', clip_inputs=True)
  layer.build([tf.TensorShape([None, 1])] * rank)
  n = int(np.prod(sizes))

  def g(x):
    with tf.GradientTape() as t:
      y = tf.reshape(layer([x[:, d:d + 1] for d in range(rank)]), [-1])[0]
    return t.gradient(y, layer.kernel)
  tr = Traced(g, [tf.TensorSpec([1, rank], tf.float32)], name='lattice-list.kernel_grad')
  done, mism = tr.validate(np.random.default_rng(0), n=2, gen=lambda rng, i, shp, t: rng.integers(-5, 30, size=shp) / 8.0 + 0.03125,
                           var_shapes={layer.kernel.name: lambda r, t: core.dyadic(r, [n, 1], t)})
  sym.new_ctx()
  x = sym.symbolic('x', (1, rank))
  K = sym.symbolic('k', (n, 1))
  (grads,) = tr.sym_run(x, var_values={layer.kernel.ref(): K})
  case.meta.update(validation_points=done, validation_mismatch=mism, ops=tr.ops_seen)
  knames = set(str(v) for v in K.reshape(-1))
  occurs = any(sym.is_z(gv) and any(str(v) in knames for v in z3util.get_vars(gv)) for gv in grads.reshape(-1))
  case.record('kernel-gradient-independent-of-kernel', 'sat' if occurs else 'unsat', kind='structural', witness={}, replay=None,
              sig=dict(query='independent', layer='lattice-list'))
  # differentiable points: off the grid lines (which include the clipping kinks 0 and size-1), inside a box around the lattice
  assume = []
  for d in range(rank):
    assume.append(z3.And(x[0, d] > -1, x[0, d] < sizes[d]))
    assume += [x[0, d] != c for c in range(sizes[d])]
  tot = 0
  bad = []
  for gv in grads.reshape(-1):
    tot = sym.s_add(tot, gv)
    bad.append(sym.s_cmp('lt', gv, 0))
  bad.append(sym.NE(tot, 1))

  def rp(m):
    xn = core.model_np(m, x)
    gr = np.asarray(tr.tf_run(xn, var_values={layer.kernel.ref(): core.model_np(m, K)})[0], dtype=np.float64).reshape(-1)
    return dict(reproduced=bool(np.min(gr) < -1e-5 or abs(float(np.sum(gr)) - 1.0) > 1e-5), detail=dict(x=xn.tolist(), kernel_gradient=gr.tolist()))
  case.solve('kernel-gradient-is-a-convex-weight-vector', core.any_of(bad), assumptions=assume, witness=dict(x=x, k=K), timeout=p.get('timeout', 90),
             sig=dict(query='kernel-grad', layer='lattice-list'), inline_replay=rp, required=p.get('required', True))
  return case


def _collapsed_layer(p):
  from tensorflow_lattice.python import pwl_calibration_layer as PL
  import tensorflow as tf
  layer = PL.PWLCalibration(input_keypoints=[-1.0, 0.0, 1.0, 2.5, 4.0][:p['nk']], units=1, input_keypoints_type='learned_interior')
  layer(tf.zeros([1, 1]))
  return layer


def case_kernel_grad_pwl_collapsed(**p):
  """d out / d kernel of a PWLCalibration with learned keypoints one of whose softmax shares underflowed to exactly 0 (a piece
  of length 0, i.e. a jump): the reference weights are written from the definition (1 for a piece wholly left of the input, 0
  for one wholly right of it, the fraction covered otherwise), not taken from the code under test."""
  import tensorflow as tf
  from tensorflow_lattice.python import pwl_calibration_layer as PL, pwl_calibration_lib as pl
  case = Case(PROP, p['name'], {k: v for k, v in p.items() if k != 'name'})
  case.encoded(PL.PWLCalibration.call, PL.PWLCalibration.keypoints_inputs, pl.compute_interpolation_weights)
  nk, zi = p['nk'], p['zero']
  layer = _collapsed_layer(p)

  def g(x):
    with tf.GradientTape() as t:
      y = tf.reshape(layer(x), [-1])[0]
    return t.gradient(y, layer.kernel), layer.keypoints_inputs()
  tr = Traced(g, [tf.TensorSpec([1, 1], tf.float32)], name='pwl.kernel_grad(learned keypoints)')
  done, mism = tr.validate(np.random.default_rng(0), n=2, gen=lambda rng, i, shp, trial: rng.integers(-6, 30, size=shp) / 8.0 + 0.03125,
                           var_shapes={layer.kernel.name: lambda r, t: core.dyadic(r, [nk, 1], t)})
  case.meta.update(validation_points=done, validation_mismatch=mism, nodes=tr.n_nodes)
  tmo = p.get('timeout', 60)
  replay = dict(fn='kgrad-collapsed', params={k: v for k, v in p.items() if k != 'name'})
  state = dict(n=0)

  def build(extra, leaf):
    c = sym.new_ctx()
    c.memo['ieee_div0'] = True
    c.memo['softmax_zero'] = (zi,)
    c.case_assumptions = list(extra)
    K = sym.symbolic('k', (nk, 1))
    x = sym.symbolic('x', (1, 1))
    logits = sym.symbolic('lg', (1, nk - 1))
    tag = '[leaf=%s]' % (leaf or 'root')
    state['n'] += 1

    def shares():
      rows = [vs for (row, vs) in c.softmax.values()]
      return np.array(rows[0], dtype=object).reshape(1, -1) if rows else np.zeros((1, 0), dtype=object)
    wit = dict(x=x, k=K)
    try:
      grads, kin = tr.sym_run(x, var_values={layer.kernel.ref(): K, layer.interpolation_logits.ref(): logits})
    except sym.Undefined as e:
      wit['softmax'] = shares()
      case.solve('gradient-is-a-number-with-collapsed-piece' + tag, z3.BoolVal(True), witness=wit, timeout=tmo,
                 sig=dict(query='collapsed-nan', why=str(e)[:40]), replay=replay)
      return
    wit['softmax'] = shares()
    case.meta.update(ops=tr.ops_seen, stubs=sym.ctx().stubs)
    xu = x[0, 0]
    kps = [kin[i, 0] for i in range(nk)]
    # differentiable points: not on a keypoint
    interior = [sym.b(sym.NE(xu, k_)) for k_ in kps]
    bad = [sym.NE(grads[0, 0], 1)]
    for i in range(nk - 1):
      gi = grads[i + 1, 0]
      left, right = kps[i], kps[i + 1]
      if i == zi:
        ref = sym.s_ite(sym.s_cmp('gt', xu, left), 1, 0)
      else:
        frac = sym.s_div(sym.s_sub(xu, left), sym.s_sub(right, left))
        ref = sym.s_ite(sym.s_cmp('ge', xu, right), 1, sym.s_ite(sym.s_cmp('le', xu, left), 0, frac))
      bad.append(sym.NE(gi, ref))
    case.solve('kernel-gradient-is-interpolation-weights-with-collapsed-piece' + tag, core.any_of(bad), assumptions=interior,
               witness=wit, timeout=tmo, sig=dict(query='kernel-grad-collapsed'), replay=replay)
    if state['n'] == 1 or leaf:
      case.solve('twin:leaf-reachable' + tag, z3.BoolVal(True), expect='sat', kind='twin', timeout=30)
  core.split_run(build)
  return case


def _replay_collapsed(r, p, w):
  import tensorflow as tf
  nk, zi = p['nk'], p['zero']
  layer = _collapsed_layer(p)
  layer.kernel.assign(core.witness_np(w['k']).astype(np.float32))
  sm = core.witness_np(w['softmax']).astype(np.float64)
  lg = np.where(sm > 0, np.log(np.where(sm > 0, sm, 1.0)), 0.0)
  lg[0, zi] = float(np.min(lg[0, [i for i in range(nk - 1) if i != zi]])) - 200.0
  layer.interpolation_logits.assign(lg.astype(np.float32).reshape(layer.interpolation_logits.shape))
  kin = layer.keypoints_inputs().numpy().astype(np.float64)[:, 0]
  x = float(core.witness_np(w['x'])[0, 0])
  det = dict(x=x, kin=kin.tolist(), logits=lg.tolist())
  if kin[zi] != kin[zi + 1]:
    return dict(reproduced=False, detail=dict(det, note='softmax share did not underflow on the real code'))
  if np.min(np.abs(kin - x)) <= 1e-4 * max(1.0, abs(x)):
    return dict(reproduced=False, detail=dict(det, note='input too close to a keypoint to replay in float32'))
  with tf.GradientTape() as t:
    y = tf.reshape(layer(tf.constant([[x]], tf.float32)), [-1])[0]
  grad = t.gradient(y, layer.kernel).numpy().astype(np.float64)[:, 0]
  ref = [1.0]
  for i in range(nk - 1):
    if kin[i + 1] <= x:
      ref.append(1.0)
    elif x <= kin[i]:
      ref.append(0.0)
    else:
      ref.append((x - kin[i]) / (kin[i + 1] - kin[i]))
  d = float(np.max(np.abs(grad - np.array(ref)))) if np.all(np.isfinite(grad)) else float('inf')
  return dict(reproduced=bool(d > 1e-4), detail=dict(det, grad=grad.tolist(), reference=ref))


def _kgrad_def_replay(m, tr, x, K, layer, p):
  xn = core.model_np(m, x)
  grads, _ = tr.tf_run(xn, var_values={layer.kernel.ref(): core.model_np(m, K)})
  grads = np.asarray(grads, dtype=np.float64)[:, 0]
  pt = xn.reshape(-1, len(p['sizes']))[0]
  ref = np.array([np.prod([pt[d] if c == 1 else 1 - pt[d] for d, c in enumerate(vert)]) for vert in itertools.product(*[range(s_) for s_ in p['sizes']])])
  d = float(np.max(np.abs(grads - ref)))
  return dict(reproduced=bool(d > 1e-5), detail=dict(max_abs_diff_to_multilinear_weights=d, x=pt.tolist()))


def _kgrad_replay(m, tr, x, K, layer, kind, u0, kshape, p):
  xn = core.model_np(m, x) if kind != 'categorical' else np.asarray(x, dtype=object).astype(np.int64)
  grads, W = tr.tf_run(xn, var_values={layer.kernel.ref(): core.model_np(m, K)})
  grads = np.asarray(grads, dtype=np.float64)
  W2 = np.asarray(W, dtype=np.float64).reshape(-1, kshape[0])
  row = u0 if (kind == 'lattice' and p['units'] > 1) else 0
  ref = np.zeros(kshape)
  ref[:, u0] = W2[row]
  d = float(np.max(np.abs(grads - ref)))
  bad = d > 1e-5
  if kind == 'lattice':
    bad = bad or bool(np.any(grads[:, u0] < -1e-6) or abs(float(np.sum(grads[:, u0])) - 1) > 1e-5)
  return dict(reproduced=bool(bad), detail=dict(max_abs_diff_to_interpolation_weights=d, grad=grads.tolist()))


def replay(r):
  import tensorflow as tf
  rp = r['replay']
  p = rp['params']
  w = r['witness']
  if rp['fn'] == 'kgrad-collapsed':
    return _replay_collapsed(r, p, w)
  if rp['fn'] == 'reduce_prod':
    from tensorflow_lattice.python import kronecker_factored_lattice_lib as kl
    x = core.witness_np(w['x']).astype(np.float32)
    dy = core.witness_np(w['dy']).astype(np.float32)
    xt = tf.constant(x)
    with tf.GradientTape() as t:
      t.watch(xt)
      y = kl.custom_reduce_prod(xt, axis=p['axis'])
    g = t.gradient(y, xt, output_gradients=tf.constant(dy)).numpy().astype(np.float64)
    ax = p['axis'] % x.ndim
    ref = np.zeros_like(g)
    for idx in np.ndindex(*x.shape):
      oidx = tuple(v for i, v in enumerate(idx) if i != ax)
      v = float(dy[oidx])
      for j in range(x.shape[ax]):
        if j != idx[ax]:
          jdx = list(idx)
          jdx[ax] = j
          v *= float(x[tuple(jdx)])
      ref[idx] = v
    scale = max(1.0, float(np.max(np.abs(ref))))
    bad = (not np.all(np.isfinite(g))) or float(np.max(np.abs(g - ref))) > 1e-4 * scale
    return dict(reproduced=bool(bad), detail=dict(grad=g.tolist(), true_derivative=ref.tolist(), x=x.tolist()))
  # kfl: finite-difference free check -- compare against autodiff of the plain tf.reduce_prod expression
  from tensorflow_lattice.python import kronecker_factored_lattice_layer as KL, kronecker_factored_lattice_lib as kl
  ls, dims, terms = p['ls'], p['dims'], p['terms']
  layer = KL.KroneckerFactoredLattice(lattice_sizes=ls, units=1, num_terms=terms)
  x = tf.constant(core.witness_np(w['x']).astype(np.float32))
  layer(x)
  layer.kernel.assign(core.witness_np(w['k']).astype(np.float32))
  layer.scale.assign(core.witness_np(w['s']).astype(np.float32))
  with tf.GradientTape() as t:
    t.watch(x)
    y = layer(x)
  g1 = t.gradient(y, [layer.kernel, layer.scale, x])
  orig = kl.custom_reduce_prod
  kl.custom_reduce_prod = lambda t_, axis: tf.reduce_prod(t_, axis=axis)
  try:
    with tf.GradientTape() as t:
      t.watch(x)
      y = layer(x)
    g2 = t.gradient(y, [layer.kernel, layer.scale, x])
  finally:
    kl.custom_reduce_prod = orig
  worst = max(float(np.max(np.abs(a.numpy() - b.numpy()))) for a, b in zip(g1, g2))
  scale = max(1.0, max(float(np.max(np.abs(b.numpy()))) for b in g2))
  return dict(reproduced=bool(worst > 1e-4 * scale), detail=dict(max_abs_diff_to_plain_autodiff=worst))


def cases(tier, seed):
  out = []

  def add(fn, required=True, cap=900, **p):
    nm = '%s-%s' % (fn.replace('case_', ''), '-'.join('%s%s' % (k[:3], v) for k, v in sorted(p.items()) if k not in ('timeout',)))
    p['name'] = nm
    p['required'] = required
    out.append(dict(name=nm, fn=fn, params=p, cap=cap, required=required))

  add('case_reduce_prod', shape=[1, 2], axis=-1)
  add('case_reduce_prod', shape=[2, 3], axis=-1)
  add('case_reduce_prod', shape=[3, 2], axis=0)
  add('case_reduce_prod', shape=[1, 4, 1], axis=1)
  add('case_reduce_prod', shape=[2, 3, 2], axis=-2, timeout=200)
  add('case_kfl', ls=2, dims=2, terms=1)
  add('case_kfl', ls=2, dims=2, terms=2, required=False, timeout=60)
  add('case_kfl', ls=3, dims=2, terms=1, required=False, timeout=25)
  add('case_kernel_grad', layer='lattice', sizes=[2, 2], units=1)
  add('case_kernel_grad', layer='lattice', sizes=[3, 2], units=2, unit=1)
  add('case_kernel_grad', layer='lattice', sizes=[2, 2, 2], units=1)
  add('case_kernel_grad', layer='lattice', sizes=[2, 2, 2], units=1, independent=True)
  # rank 8: batch_outer_operation switches to matmul from the 8th factor on
  add('case_kernel_grad', layer='lattice', sizes=[2] * 8, units=1, independent=True, timeout=400)
  add('case_kernel_grad_list', sizes=[2, 3])
  add('case_kernel_grad_list', sizes=[3, 2, 2], required=False, timeout=120)
  add('case_kernel_grad_simplex', sizes=[3, 2])
  add('case_kernel_grad_simplex', sizes=[2, 2], clip=False)
  add('case_kernel_grad', layer='pwl', nk=3, units=1)
  add('case_kernel_grad', layer='pwl', nk=4, units=2, unit=1)
  add('case_kernel_grad', layer='categorical', buckets=3, units=2, unit=1)
  add('case_kernel_grad_pwl_collapsed', nk=4, zero=1)
  add('case_kernel_grad_pwl_collapsed', nk=3, zero=0)
  add('case_kernel_grad_pwl_collapsed', nk=4, zero=2)
  if tier == 'thorough':
    add('case_reduce_prod', shape=[1, 5], axis=-1, required=False, timeout=600, max_zeros=3)
    add('case_reduce_prod', shape=[2, 4, 2], axis=1, required=False, timeout=600)
    add('case_kfl', ls=2, dims=3, terms=1, required=False, timeout=600)
    add('case_kfl', ls=3, dims=2, terms=2, required=False, timeout=200, cap=1500)
    add('case_kernel_grad', layer='lattice', sizes=[3, 3, 2], units=1, required=False, timeout=600)
    add('case_reduce_prod', shape=[3, 3], axis=0, required=False, timeout=600)
    add('case_reduce_prod', shape=[2, 2, 3], axis=-1, required=False, timeout=600)
    add('case_kfl', ls=2, dims=2, terms=3, required=False, timeout=600)
    add('case_kernel_grad', layer='lattice', sizes=[2, 3], units=3, unit=2, required=False, timeout=300)
    add('case_kernel_grad', layer='categorical', buckets=5, units=3, unit=2, required=False)
  return out
