"""C11 - Config and weight round-trips reproduce the same function."""
import itertools
import os
import shutil
import tempfile
import warnings
import json
from fractions import Fraction

import numpy as np
import z3

from vf import sym, specs, core
from vf.core import Case, Traced

PROP = 'C11'

META = dict(
    level='model_checking',
    technique='structural half (executed, not solved): for a catalogue that sets every constructor argument to a non-default '
              'value at least once, cls.from_config(obj.get_config()) under premade.get_custom_objects() must succeed and give an '
              'equal config. Functional half (solver): the original and the rebuilt layer / premade model are both traced; '
              'variables are matched by order, name suffix and shape and bound to the SAME symbolic tensors; z3 decides that no '
              'weights and inputs separate their outputs and their weight constraints',
    bounds=dict(quick='every public layer, constraint, initializer, regularizer and config class of the library with one or two '
                      'non-default argument sets each; premade CalibratedLinear / CalibratedLattice / CalibratedLatticeEnsemble '
                      '(explicit, rtl_layer) with 2-3 features; batch 1; all real weights and inputs',
                thorough='adds a second argument set per class and seed-derived RTL structures for VERIF_SEED-chosen seeds'),
    outside=['checkpoint / SavedModel file formats (assumed to restore values exactly)', 'IEEE-754 rounding'],
    assumptions=['Keras restores saved variable values exactly (model.save / load_model internals are not encoded)',
                 'TF op semantics per vf/interp.py', 'z3 is sound'],
)


def _eq_cfg(a, b):
  return json.dumps(a, sort_keys=True, default=str) == json.dumps(b, sort_keys=True, default=str)


def _objects():
  """(label, constructor thunk) for every class with get_config; each thunk sets non-default arguments."""
  import tensorflow as tf
  import tensorflow_lattice as tfl
  from tensorflow_lattice.python import (lattice_layer as LL, pwl_calibration_layer as PL, linear_layer as LIN,
                                         categorical_calibration_layer as CL, kronecker_factored_lattice_layer as KL,
                                         cdf_layer as CDFL, rtl_layer as RL, parallel_combination_layer as PCL,
                                         pwl_calibration_lib as pl)
  C = tfl.configs
  B = pl.BoundConstraintsType
  O = [
      ('Lattice', lambda: LL.Lattice(lattice_sizes=[3, 2, 3], units=2, monotonicities=['increasing', 'none', 'none'], unimodalities=['none', 'none', 'valley'],
                                     edgeworth_trusts=(0, 1, 'positive'), trapezoid_trusts=[(0, 1, 1)], monotonic_dominances=None,
                                     range_dominances=None, joint_monotonicities=(0, 1), joint_unimodalities=None, output_min=-1.0, output_max=2.5,
                                     num_projection_iterations=3, monotonic_at_every_step=False, clip_inputs=False, interpolation='simplex',
                                     kernel_initializer='random_monotonic_initializer',
                                     kernel_regularizer=[('torsion', 0.25, 0.0), ('laplacian', [0.5, 0.0, 1.0], 0.25)])),
      ('Lattice#2', lambda: LL.Lattice(lattice_sizes=[3, 3], monotonicities=[1, 1], monotonic_dominances=(0, 1), range_dominances=[(0, 1)],
                                       joint_unimodalities=None, output_min=0.0, kernel_initializer='linear_initializer')),
      ('Lattice#3', lambda: LL.Lattice(lattice_sizes=[3, 3], joint_unimodalities=((0, 1), 'peak'))),
      ('PWLCalibration', lambda: PL.PWLCalibration(input_keypoints=[0.0, 1.0, 3.0, 3.5], units=2, output_min=0.0, output_max=2.0, clamp_min=True, clamp_max=True,
                                                   monotonicity='decreasing', convexity='concave', is_cyclic=False, kernel_initializer='equal_slopes',
                                                   kernel_regularizer=[('laplacian', 0.5, 0.0), ('hessian', 0.0, 0.25), ('wrinkle', 1.0, 1.0)],
                                                   impute_missing=True, missing_input_value=-7.0, missing_output_value=0.25,
                                                   num_projection_iterations=3, split_outputs=True, input_keypoints_type='fixed')),
      ('PWLCalibration#2', lambda: PL.PWLCalibration(input_keypoints=[0.0, 1.0, 2.0], units=1, is_cyclic=True, impute_missing=True,
                                                     missing_input_value=None, input_keypoints_type='learned_interior')),
      ('CategoricalCalibration', lambda: CL.CategoricalCalibration(num_buckets=4, units=2, output_min=-1.0, output_max=1.0, monotonicities=[(0, 1), (1, 3)],
                                                                   kernel_initializer='constant', default_input_value=0, split_outputs=True)),
      ('Linear', lambda: LIN.Linear(num_input_dims=3, units=2, monotonicities=['increasing', 'increasing', 'none'], monotonic_dominances=[(0, 1)],
                                    range_dominances=None, input_min=[0.0, None, -1.0], input_max=[1.0, 2.0, None], use_bias=False,
                                    normalization_order=1, kernel_initializer='ones')),
      ('Linear#2', lambda: LIN.Linear(num_input_dims=2, monotonicities=[-1, -1], range_dominances=[(0, 1)], input_min=[0.0, 0.0], input_max=[2.0, 1.0],
                                      normalization_order=2, bias_initializer='ones')),
      ('KroneckerFactoredLattice', lambda: KL.KroneckerFactoredLattice(lattice_sizes=3, units=2, num_terms=3, monotonicities=['increasing', 'none'],
                                                                       output_min=0.0, output_max=1.0, clip_inputs=False)),
      ('CDF', lambda: CDFL.CDF(num_keypoints=3, units=2, activation='sigmoid', reduction='geometric_mean', input_scaling_init=2.0,
                               input_scaling_type='learned_per_input', input_scaling_monotonicity='none', sparsity_factor=2)),
      ('RTL', lambda: RL.RTL(num_lattices=3, lattice_rank=2, lattice_size=3, output_min=0.0, output_max=1.0, init_min=0.25, init_max=0.75,
                             separate_outputs=True, random_seed=7, num_projection_iterations=2, monotonic_at_every_step=False, clip_inputs=False,
                             interpolation='simplex', avoid_intragroup_interaction=False, kernel_initializer='linear_initializer',
                             kernel_regularizer=('torsion', 0.5, 0.25), average_outputs=False)),
      ('RTL#kfl', lambda: RL.RTL(num_lattices=2, lattice_rank=2, parameterization='kronecker_factored', num_terms=3,
                                 kernel_initializer='kfl_random_monotonic_initializer', average_outputs=True, random_seed=3)),
      # layers given initializer / regularizer *objects* with non-default settings (nested serialised objects)
      ('KFL#init-object', lambda: KL.KroneckerFactoredLattice(lattice_sizes=2, units=1, num_terms=2, monotonicities=['increasing', 'none', 'increasing'],
                                                              kernel_initializer=KL.KFLRandomMonotonicInitializer(monotonicities=[1, 0, 0], init_min=2.0, init_max=3.0, seed=7),
                                                              scale_initializer=KL.ScaleInitializer(output_min=-1.0, output_max=3.0))),
      ('Lattice#init-object', lambda: LL.Lattice(lattice_sizes=[3, 2], monotonicities=[1, 0], output_min=0.0, output_max=1.0,
                                                 kernel_initializer=LL.LinearInitializer(lattice_sizes=[3, 2], monotonicities=[0, 1], output_min=-2.0, output_max=5.0),
                                                 kernel_regularizer=[LL.TorsionRegularizer(lattice_sizes=[3, 2], l1=0.5, l2=[0.25, 1.0])])),
      ('Lattice#init-object2', lambda: LL.Lattice(lattice_sizes=[2, 2], monotonicities=[1, 1],
                                                  kernel_initializer=LL.RandomMonotonicInitializer(lattice_sizes=[2, 2], output_min=3.0, output_max=4.0))),
      ('PWLCalibration#init-object', lambda: PL.PWLCalibration(input_keypoints=[0.0, 1.0, 3.0], monotonicity=1, output_min=0.0, output_max=1.0,
                                                               kernel_initializer=PL.UniformOutputInitializer(output_min=-3.0, output_max=7.0, monotonicity=-1),
                                                               kernel_regularizer=PL.HessianRegularizer(l1=0.5, l2=0.25, is_cyclic=False))),
      ('ParallelCombination', lambda: _pc(PCL, PL, CL)),
      ('ParallelCombination#same-names', lambda: _pc_same_names(PCL, PL)),
      ('LatticeConstraints', lambda: LL.LatticeConstraints(lattice_sizes=[3, 3], monotonicities=[1, 1], unimodalities=None, edgeworth_trusts=[(0, 1, 1)],
                                                           trapezoid_trusts=[(0, 1, 1)], monotonic_dominances=[(0, 1)], range_dominances=[(0, 1)],
                                                           joint_monotonicities=[(0, 1)], joint_unimodalities=None, output_min=0.0, output_max=1.0,
                                                           num_projection_iterations=5, enforce_strict_monotonicity=False)),
      ('PWLCalibrationConstraints', lambda: PL.PWLCalibrationConstraints(monotonicity='increasing', convexity='convex', lengths=[1.0, 2.0], output_min=0.0,
                                                                         output_max=1.0, output_min_constraints=B.CLAMPED, output_max_constraints=B.BOUND,
                                                                         num_projection_iterations=3)),
      ('NaiveBoundsConstraints', lambda: PL.NaiveBoundsConstraints(lower_bound=-1.0, upper_bound=2.0)),
      ('LinearConstraints', lambda: LIN.LinearConstraints(monotonicities=[1, 1, 0], monotonic_dominances=[(0, 1)], range_dominances=None,
                                                          input_min=[0.0, 0.0, None], input_max=[1.0, 2.0, None], normalization_order=1)),
      ('LinearConstraints#2', lambda: LIN.LinearConstraints(monotonicities=[-1, -1], range_dominances=[(1, 0)], input_min=[0.0, 0.0], input_max=[1.0, 2.0])),
      ('CategoricalCalibrationConstraints', lambda: CL.CategoricalCalibrationConstraints(output_min=0.0, output_max=1.0, monotonicities=[(0, 1)])),
      ('ScaleConstraints', lambda: KL.ScaleConstraints(output_min=0.0, output_max=2.0)),
      ('LinearInitializer', lambda: LL.LinearInitializer(lattice_sizes=[3, 2], monotonicities=[1, 0], output_min=-1.0, output_max=2.0, unimodalities=[0, 0])),
      ('RandomMonotonicInitializer', lambda: LL.RandomMonotonicInitializer(lattice_sizes=[3, 2], output_min=-1.0, output_max=2.0, unimodalities=[1, 0])),
      ('UniformOutputInitializer', lambda: PL.UniformOutputInitializer(output_min=-1.0, output_max=2.0, monotonicity='decreasing', keypoints=[0.0, 1.0, 3.0])),
      ('KFLRandomMonotonicInitializer', lambda: KL.KFLRandomMonotonicInitializer(monotonicities=[1, 0], init_min=0.25, init_max=1.25, seed=5)),
      ('ScaleInitializer', lambda: KL.ScaleInitializer(output_min=0.0, output_max=2.0)),
      ('BiasInitializer', lambda: KL.BiasInitializer(output_min=0.0, output_max=2.0)),
      ('lattice.LaplacianRegularizer', lambda: LL.LaplacianRegularizer(lattice_sizes=[3, 2], l1=[0.5, 0.0], l2=0.25)),
      ('lattice.TorsionRegularizer', lambda: LL.TorsionRegularizer(lattice_sizes=[3, 2], l1=0.25, l2=[1.0, 0.5])),
      ('pwl.LaplacianRegularizer', lambda: PL.LaplacianRegularizer(l1=0.5, l2=0.25, is_cyclic=True)),
      ('pwl.HessianRegularizer', lambda: PL.HessianRegularizer(l1=0.5, l2=0.25, is_cyclic=True)),
      ('pwl.WrinkleRegularizer', lambda: PL.WrinkleRegularizer(l1=0.5, l2=0.25, is_cyclic=True)),
      ('FeatureConfig', lambda: C.FeatureConfig(name='a', is_missing_name='a_missing', default_value=-1.0, lattice_size=3, monotonicity='increasing', unimodality='none',
                                                reflects_trust_in=[C.TrustConfig(feature_name='b', trust_type='trapezoid', direction='negative')],
                                                dominates=[C.DominanceConfig(feature_name='c', dominance_type='range')],
                                                pwl_calibration_always_monotonic=True, pwl_calibration_convexity='convex', pwl_calibration_num_keypoints=5,
                                                pwl_calibration_input_keypoints=[0.0, 1.0, 2.0], pwl_calibration_input_keypoints_type='fixed',
                                                pwl_calibration_clip_min=0.0, pwl_calibration_clip_max=2.0, pwl_calibration_clamp_min=True,
                                                pwl_calibration_clamp_max=True, regularizer_configs=[C.RegularizerConfig(name='calib_hessian', l1=0.5, l2=0.25)])),
      # several nested configs carrying the same name: both kinds of trust in one feature, two dominances over it, the same
      # regulariser twice with different amounts (all legitimate; none may be merged or dropped by a round trip)
      ('FeatureConfig#repeated-names', lambda: C.FeatureConfig(
          name='a', lattice_size=3, monotonicity='increasing', pwl_calibration_input_keypoints=[0.0, 1.0, 2.0],
          reflects_trust_in=[C.TrustConfig(feature_name='b', trust_type='edgeworth', direction='positive'),
                             C.TrustConfig(feature_name='b', trust_type='trapezoid', direction='positive')],
          dominates=[C.DominanceConfig(feature_name='c', dominance_type='monotonic'), C.DominanceConfig(feature_name='c', dominance_type='range')],
          regularizer_configs=[C.RegularizerConfig(name='calib_hessian', l1=0.5, l2=0.0), C.RegularizerConfig(name='calib_hessian', l1=0.0, l2=0.25)])),
      ('CalibratedLatticeConfig#repeated-names', lambda: C.CalibratedLatticeConfig(
          feature_configs=[C.FeatureConfig(name='a', lattice_size=2, monotonicity='increasing', pwl_calibration_input_keypoints=[0.0, 1.0, 2.0],
                                           reflects_trust_in=[C.TrustConfig(feature_name='b', trust_type='edgeworth'),
                                                              C.TrustConfig(feature_name='b', trust_type='trapezoid')]),
                           C.FeatureConfig(name='b', lattice_size=2, pwl_calibration_input_keypoints=[0.0, 1.0, 2.0])],
          regularizer_configs=[C.RegularizerConfig(name='torsion', l1=0.0, l2=0.25), C.RegularizerConfig(name='torsion', l1=0.5, l2=0.0)])),
      ('FeatureConfig#categorical', lambda: C.FeatureConfig(name='c', num_buckets=3, vocabulary_list=['x', 'y', 'z'], monotonicity=[('x', 'y')])),
      ('CalibratedLatticeConfig', lambda: _lattice_config(C)),
      ('CalibratedLinearConfig', lambda: C.CalibratedLinearConfig(feature_configs=_fcs(C), use_bias=False, output_min=0.0, output_max=1.0,
                                                                 output_calibration=True, output_calibration_num_keypoints=4, output_initialization=[0.0, 0.25, 0.5, 1.0])),
      ('CalibratedLatticeEnsembleConfig', lambda: C.CalibratedLatticeEnsembleConfig(feature_configs=_fcs(C), lattices=[['a', 'b'], ['b', 'c']], num_lattices=2,
                                                                                   lattice_rank=2, interpolation='simplex', parameterization='all_vertices',
                                                                                   separate_calibrators=False, use_linear_combination=True, use_bias=True,
                                                                                   output_min=0.0, output_max=1.0, random_seed=11)),
      ('AggregateFunctionConfig', lambda: C.AggregateFunctionConfig(feature_configs=_fcs(C)[:2], middle_dimension=3, middle_lattice_size=3,
                                                                   middle_monotonicity='increasing', aggregation_lattice_interpolation='simplex')),
  ]
  return O


def _pc(PCL, PL, CL):
  pc = PCL.ParallelCombination(single_output=False)
  pc.append(PL.PWLCalibration(input_keypoints=[0.0, 1.0, 2.0], output_min=0.0, output_max=1.0, monotonicity=1))
  pc.append(CL.CategoricalCalibration(num_buckets=3, default_input_value=-1))
  return pc


def _pc_pwl(PCL, L, same):
  pc = PCL.ParallelCombination(single_output=True)
  tmpl = L.PWLCalibration(input_keypoints=[0.0, 1.0, 2.0], output_min=0.0, output_max=1.0, name='calib')
  for i in range(3):
    pc.append(L.PWLCalibration.from_config(tmpl.get_config()) if same else
              L.PWLCalibration(input_keypoints=[0.0, 1.0, 2.0 + i], output_min=0.0, output_max=1.0, monotonicity=i % 2))
  return pc


def _pc_same_names(PCL, PL):
  """three distinct calibrators carrying the same layer name (copies of one template config)"""
  tmpl = PL.PWLCalibration(input_keypoints=[0.0, 1.0, 2.0], output_min=0.0, output_max=1.0, name='calib')
  pc = PCL.ParallelCombination(single_output=True)
  for _ in range(3):
    pc.append(PL.PWLCalibration.from_config(tmpl.get_config()))
  return pc


def _fcs(C):
  kp = [0.0, 1.0, 2.0]
  return [C.FeatureConfig(name='a', lattice_size=2, monotonicity='increasing', pwl_calibration_input_keypoints=kp),
          C.FeatureConfig(name='b', lattice_size=3, monotonicity='decreasing', pwl_calibration_input_keypoints=kp, pwl_calibration_convexity='concave'),
          C.FeatureConfig(name='c', num_buckets=3, monotonicity=[(0, 1)], default_value=-1)]


def _lattice_config(C, **kw):
  args = dict(feature_configs=_fcs(C), interpolation='hypercube', output_min=0.0, output_max=1.0, output_calibration=True,
              output_calibration_num_keypoints=3, output_initialization=[0.0, 0.5, 1.0], random_seed=5,
              regularizer_configs=[C.RegularizerConfig(name='torsion', l1=0.0, l2=0.25)])
  args.update(kw)
  return C.CalibratedLatticeConfig(**args)


def case_structural(**p):
  import tensorflow_lattice as tfl
  case = Case(PROP, p['name'], {})
  co = tfl.premade.get_custom_objects()
  from tensorflow_lattice.python.lattice_layer import keras
  for label, thunk in _objects():
    note = ''
    try:
      obj = thunk()
      cfg = obj.get_config()
      with keras.utils.custom_object_scope(co):
        if hasattr(type(obj), 'from_config'):
          try:
            obj2 = type(obj).from_config(cfg, custom_objects=co)
          except TypeError:
            obj2 = type(obj).from_config(cfg)
        else:
          obj2 = type(obj)(**cfg)
        cfg2 = obj2.get_config()
      ok = _eq_cfg(cfg, cfg2)
      if not ok:
        diff = [k for k in set(cfg) | set(cfg2) if json.dumps(cfg.get(k), default=str, sort_keys=True) != json.dumps(cfg2.get(k), default=str, sort_keys=True)]
        note = 'config differs in %s' % diff[:4]
      # every constructor argument must survive: compare attributes named like the config keys
      missing = _lost_args(obj, obj2, cfg)
      if missing:
        ok = False
        note += ' constructor arguments lost by get_config: %s' % missing
    except Exception as e:  # pylint: disable=broad-except
      ok = False
      note = '%s: %s' % (type(e).__name__, str(e)[:120])
    case.record('config-round-trip[%s]' % label, 'unsat' if ok else 'sat', kind='structural', witness={}, replay=dict(fn='structural', label=label),
                sig=dict(query='config', label=label.split('#')[0]), note=note or 'round trip equal (executed, ground)')
  return case


def _lost_args(obj, obj2, cfg):
  """constructor arguments that are absent from get_config AND whose value differs on the rebuilt object"""
  lost = []
  for k in _ctor_args(type(obj)):
    if k in cfg or k in ('kwargs', 'self', 'dtype', 'name'):
      continue
    a, b = getattr(obj, k, None), getattr(obj2, k, None)
    if json.dumps(a, default=str, sort_keys=True) != json.dumps(b, default=str, sort_keys=True):
      lost.append(k)
  return lost


def _ctor_args(cls):
  import inspect
  try:
    return [n for n, prm in inspect.signature(cls.__init__).parameters.items() if prm.kind in (prm.POSITIONAL_OR_KEYWORD, prm.KEYWORD_ONLY)]
  except (TypeError, ValueError):
    return []


def _layer_specs():
  """(label, layer thunk, input shape (without batch), integer-input?)"""
  import tensorflow_lattice as tfl
  L = tfl.layers
  return [
      ('Lattice', lambda: L.Lattice(lattice_sizes=[2, 3], units=2, monotonicities=[1, 0], edgeworth_trusts=(0, 1, 1), output_min=0.0, output_max=1.0,
                                    clip_inputs=False, num_projection_iterations=2, kernel_initializer='zeros'), [2, 2], False),
      ('Lattice-simplex', lambda: L.Lattice(lattice_sizes=[2, 2], interpolation='simplex', monotonicities=[1, 1], joint_monotonicities=(0, 1),
                                            monotonic_at_every_step=False, kernel_initializer='zeros'), [2], False),
      ('PWLCalibration', lambda: L.PWLCalibration(input_keypoints=[0.0, 1.0, 3.0], units=2, output_min=0.0, output_max=2.0, monotonicity='decreasing',
                                                  clamp_min=True, impute_missing=True, missing_input_value=-7.0, missing_output_value=0.25,
                                                  num_projection_iterations=2), [2], False),
      ('PWLCalibration-cyclic', lambda: L.PWLCalibration(input_keypoints=[0.0, 1.0, 3.0], is_cyclic=True, output_max=1.0), [1], False),
      ('PWLCalibration-learned', lambda: L.PWLCalibration(input_keypoints=[0.0, 1.0, 3.0], input_keypoints_type='learned_interior',
                                                          monotonicity=1), [1], False),
      ('CategoricalCalibration', lambda: L.CategoricalCalibration(num_buckets=3, units=2, output_min=-1.0, output_max=1.0, monotonicities=[(0, 1)],
                                                                  default_input_value=0), [2], True),
      ('Linear', lambda: L.Linear(num_input_dims=3, units=2, monotonicities=[1, 1, 0], monotonic_dominances=[(0, 1)], input_min=[0.0, None, -1.0],
                                  input_max=[1.0, 2.0, None], use_bias=False, normalization_order=1), [2, 3], False),
      ('Linear-rdom', lambda: L.Linear(num_input_dims=2, monotonicities=[-1, -1], range_dominances=[(0, 1)], input_min=[0.0, 0.0], input_max=[2.0, 1.0]), [2], False),
      ('KFL', lambda: L.KroneckerFactoredLattice(lattice_sizes=3, units=1, num_terms=2, monotonicities=[1, 0], output_min=0.0, output_max=1.0, clip_inputs=False), [2], False),
      # every boolean / enum flag away from its default in at least one layer, flags of one layer set differently from each other
      ('RTL-noclip', lambda: L.RTL(num_lattices=2, lattice_rank=2, lattice_size=2, output_min=0.0, output_max=1.0, clip_inputs=False, random_seed=3,
                                   kernel_initializer='linear_initializer'), [3], False),
      ('RTL-nostep', lambda: L.RTL(num_lattices=2, lattice_rank=2, lattice_size=2, monotonic_at_every_step=False, clip_inputs=True, random_seed=5,
                                   avoid_intragroup_interaction=False, average_outputs=True, kernel_initializer='linear_initializer'), [3], False),
      ('Lattice-nostep-clip', lambda: L.Lattice(lattice_sizes=[2, 2], monotonicities=[1, 0], monotonic_at_every_step=False, clip_inputs=True,
                                                kernel_initializer='zeros'), [2], False),
      ('KFL-clip', lambda: L.KroneckerFactoredLattice(lattice_sizes=2, units=2, num_terms=1, monotonicities=[0, 1], clip_inputs=True), [2, 2], False),
      ('PWLCalibration-learned-ndarray', lambda: L.PWLCalibration(input_keypoints=np.linspace(1.0, 4.0, 4), units=2, input_keypoints_type='learned_interior',
                                                                  monotonicity=1), [2], False),
      ('PWLCalibration-ndarray', lambda: L.PWLCalibration(input_keypoints=np.array([-2.0, 0.0, 0.5, 3.0]), output_min=0.0, output_max=1.0), [1], False),
      ('PWLCalibration-split', lambda: L.PWLCalibration(input_keypoints=[0.0, 2.0], units=2, split_outputs=True, clamp_max=True, output_max=1.0,
                                                        monotonicity=1, impute_missing=False), [2], False),
      ('CDF', lambda: L.CDF(num_keypoints=2, units=2, activation='sigmoid', reduction='none', input_scaling_init=2.0, input_scaling_type='learned_shared',
                            sparsity_factor=2), [2], False),
      # a combination of calibrators: the rebuilt layer holds one calibrator (and one set of variables) per input, also when the
      # calibrators carry the same layer name (copies of one template config)
      ('ParallelCombination-pwl', lambda: _pc_pwl(tfl.parallel_combination_layer, L, False), [3], False),
      ('ParallelCombination-same-names', lambda: _pc_pwl(tfl.parallel_combination_layer, L, True), [3], False),
  ]


def _match_vars(case, label, a, b):
  va, vb = list(a.weights), list(b.weights)
  ok = len(va) == len(vb) and all(tuple(x.shape) == tuple(y.shape) and x.name.split('/')[-1] == y.name.split('/')[-1] for x, y in zip(va, vb))
  # ... and as many distinct variables: two weights of the original must not have become one shared variable
  ok = ok and len(set(x.ref() for x in va)) == len(set(y.ref() for y in vb))
  case.record('rebuilt-object-has-same-variables[%s]' % label, 'unsat' if ok else 'sat', kind='structural', witness={}, replay=dict(fn='variables', label=label),
              sig=dict(query='variables', label=label),
              note='%s vs %s' % ([(x.name, tuple(x.shape)) for x in va], [(y.name, tuple(y.shape)) for y in vb]))
  return ok


def _json_default(o):
  if hasattr(o, 'get_config'):
    return dict(class_name=type(o).__name__, config=o.get_config())
  if isinstance(o, (np.integer, np.floating)):
    return o.item()
  if isinstance(o, np.ndarray):
    return o.tolist()
  raise TypeError('not JSON serializable: %r' % (o,))


def _functional_layer(case, label, thunk, shp, is_int, mode, co):
  import tensorflow as tf
  from tensorflow_lattice.python.lattice_layer import keras
  tag = label if mode == 'config' else '%s,via-%s' % (label, mode)
  a = thunk()
  try:
    with keras.utils.custom_object_scope(co):
      if mode == 'built':
        # the config of a layer that has already been built (saving in the middle of training): building must not change it
        cfg0 = _cfg_norm(a.get_config())
        a.build(tf.TensorShape([None] + shp))
        if _cfg_diff(cfg0, _cfg_norm(a.get_config())):
          case.record('building-a-layer-leaves-its-config-unchanged[%s]' % label, 'sat', kind='structural', witness={},
                      replay=dict(fn='layer-built-config', label=label), sig=dict(query='built-config', label=label),
                      note=_cfg_diff(cfg0, _cfg_norm(a.get_config())))
        else:
          case.record('building-a-layer-leaves-its-config-unchanged[%s]' % label, 'unsat', kind='structural', witness={}, replay=None,
                      sig=dict(query='built-config', label=label))
      cfg = a.get_config()
      if mode == 'json':
        # what a saved model file holds: the config after a round trip through JSON (tuples become lists)
        cfg = json.loads(json.dumps(cfg, default=_json_default))
      b = type(a).from_config(cfg)
  except Exception as e:  # pylint: disable=broad-except
    case.record('layer-rebuilds-from-config[%s]' % tag, 'sat', kind='structural', witness={}, replay=dict(fn='layer', label=label, mode=mode),
                sig=dict(query='rebuild', label=label), note='%s: %s' % (type(e).__name__, str(e)[:120]))
    return
  case.functions.append(core.fn_id(type(a).get_config))
  if not a.built:
    a.build(tf.TensorShape([None] + shp))
  b.build(tf.TensorShape([None] + shp))
  dt = tf.int32 if is_int else tf.float32
  # layers that create the variables of their sub-layers only when called (ParallelCombination)
  a(tf.zeros([1] + shp, dtype=dt))
  b(tf.zeros([1] + shp, dtype=dt))
  if not _match_vars(case, tag, a, b):
    return
  ta = Traced(lambda x: _flat(a(x), tf), [tf.TensorSpec([1] + shp, dt)], name=label)
  tb = Traced(lambda x: _flat(b(x), tf), [tf.TensorSpec([1] + shp, dt)], name=label + "'")
  xs = [sym.symbolic('x', tuple([1] + shp))] if not is_int else [sym.obj(np.array(c).reshape([1] + shp)) for c in itertools.product(range(3), repeat=int(np.prod(shp)))][::4]
  for xi, x in enumerate(xs):
    sym.new_ctx()
    vva, vvb, wit = {}, {}, ({} if is_int else dict(x=x))
    for i, (u, v) in enumerate(zip(a.weights, b.weights)):
      s = sym.symbolic('v%d' % i, tuple(u.shape))
      vva[u.ref()] = s
      vvb[v.ref()] = s
      wit['v%d' % i] = s
    if label == 'Lattice-simplex' and not is_int:
      sym.ctx().case_assumptions = [x[0, 0] > x[0, 1], x[0, 0] < 1, x[0, 1] > 0]
    (oa,) = ta.sym_run(x, var_values=vva)
    (ob,) = tb.sym_run(x, var_values=vvb)
    pairs = list(zip(np.asarray(oa, dtype=object).reshape(-1), np.asarray(ob, dtype=object).reshape(-1)))
    # weight constraints of original and rebuilt layer agree on arbitrary tensors
    for i, (u, v) in enumerate(zip(a.weights, b.weights)):
      if (u.constraint is None) != (v.constraint is None):
        case.record('rebuilt-layer-has-same-constraint[%s,%s]' % (tag, u.name), 'sat', kind='structural', witness={}, replay=None,
                    sig=dict(query='constraint', label=label))
      elif u.constraint is not None and xi == 0:
        tu = Traced(_apply(u.constraint), [tf.TensorSpec(list(u.shape), tf.float32)])
        tv = Traced(_apply(v.constraint), [tf.TensorSpec(list(v.shape), tf.float32)])
        W = sym.symbolic('w%d' % i, tuple(u.shape))
        (cu,) = tu.sym_run(W, var_values=vva)
        (cv,) = tv.sym_run(W, var_values=vvb)
        pairs += list(zip(np.asarray(cu, dtype=object).reshape(-1), np.asarray(cv, dtype=object).reshape(-1)))
        wit['w%d' % i] = W
    case.meta.setdefault('ops', {}).update(ta.ops_seen)
    case.identity('rebuilt-layer-computes-identical-outputs[%s,%d]' % (tag, xi), pairs, witness=wit, timeout=90,
                  sig=dict(query='functional', label=label), replay=dict(fn='layer', label=label, mode=mode), required=True)


def case_functional_layers(**p):
  import tensorflow as tf
  import tensorflow_lattice as tfl
  from tensorflow_lattice.python.lattice_layer import keras
  case = Case(PROP, p['name'], {})
  co = tfl.premade.get_custom_objects()
  for label, thunk, shp, is_int in _layer_specs():
    for mode in ('config', 'json', 'built'):
      try:
        _functional_layer(case, label, thunk, shp, is_int, mode, co)
      except Exception as e:  # pylint: disable=broad-except
        case.record('rebuilt-layer-builds-projects-and-evaluates[%s,%s]' % (label, mode), 'sat', kind='structural', witness={},
                    replay=dict(fn='layer', label=label, mode=mode), sig=dict(query='rebuild-works', label=label, mode=mode),
                    note='%s: %s' % (type(e).__name__, str(e)[:160]))
  return case


def _apply(con):
  return lambda w: con(w)


def _flat(out, tf):
  if isinstance(out, (list, tuple)):
    return tf.concat([tf.reshape(o, [1, -1]) for o in out], axis=1)
  if isinstance(out, dict):
    return tf.concat([tf.reshape(out[k], [1, -1]) for k in sorted(out)], axis=1)
  return out


def _cfg_norm(c):
  import json
  return json.loads(json.dumps(c, sort_keys=True, default=lambda o: o.get_config() if hasattr(o, 'get_config') else str(o)))


def _cfg_equal(a, b):
  return _cfg_norm(a) == _cfg_norm(b)


def _cfg_diff(a, b, path=''):
  a, b = _cfg_norm(a) if not path else a, _cfg_norm(b) if not path else b
  if isinstance(a, dict) and isinstance(b, dict):
    for k in sorted(set(a) | set(b)):
      if k not in a or k not in b:
        return '%s/%s present on one side only' % (path, k)
      d = _cfg_diff(a[k], b[k], path + '/' + str(k))
      if d:
        return d
    return None
  if isinstance(a, list) and isinstance(b, list):
    if len(a) != len(b):
      return '%s: %d vs %d entries' % (path, len(a), len(b))
    for i, (x, y) in enumerate(zip(a, b)):
      d = _cfg_diff(x, y, '%s[%d]' % (path, i))
      if d:
        return d
    return None
  return None if a == b else '%s: %r vs %r' % (path, a, b)


def _premades():
  import tensorflow_lattice as tfl
  C = tfl.configs
  P = tfl.premade
  kp = [0.0, 1.0, 2.0]

  def fcs():
    return [C.FeatureConfig(name='a', lattice_size=2, monotonicity='increasing', pwl_calibration_input_keypoints=kp),
            C.FeatureConfig(name='b', lattice_size=2, pwl_calibration_input_keypoints=kp),
            C.FeatureConfig(name='c', lattice_size=2, monotonicity='decreasing', pwl_calibration_input_keypoints=kp)]
  def reg_fcs():
    f = fcs()
    f[0].regularizer_configs = [C.RegularizerConfig(name='calib_wrinkle', l1=0.5, l2=0.0)]
    f[0].pwl_calibration_input_keypoints = [0.0, 1.0, 2.0, 4.0]
    f[1].regularizer_configs = [C.RegularizerConfig(name='calib_hessian', l1=0.0, l2=1.0), C.RegularizerConfig(name='calib_laplacian', l1=0.25, l2=0.0)]
    return f
  return [
      ('CalibratedLinear', lambda: P.CalibratedLinear(C.CalibratedLinearConfig(feature_configs=fcs()[:2], use_bias=True, output_min=0.0, output_max=1.0,
                                                                             output_initialization=[0.0, 1.0]))),
      ('CalibratedLattice', lambda: P.CalibratedLattice(C.CalibratedLatticeConfig(feature_configs=fcs()[:2], output_min=0.0, output_max=1.0,
                                                                                output_initialization=[0.0, 1.0]))),
      ('CalibratedLatticeEnsemble-explicit', lambda: P.CalibratedLatticeEnsemble(C.CalibratedLatticeEnsembleConfig(
          feature_configs=fcs(), lattices=[['a', 'b'], ['c', 'a']], output_initialization=[0.0, 1.0]))),
      ('CalibratedLatticeEnsemble-rtl', lambda: P.CalibratedLatticeEnsemble(C.CalibratedLatticeEnsembleConfig(
          feature_configs=fcs(), lattices='rtl_layer', num_lattices=2, lattice_rank=2, random_seed=9, output_initialization=[0.0, 1.0]))),
      # feature-level and model-level regularizers together (calibrator and lattice kinds)
      ('CalibratedLattice-regularized', lambda: P.CalibratedLattice(C.CalibratedLatticeConfig(
          feature_configs=reg_fcs()[:2], output_min=0.0, output_max=1.0, output_initialization=[0.0, 1.0],
          regularizer_configs=[C.RegularizerConfig(name='calib_hessian', l1=0.0, l2=0.5), C.RegularizerConfig(name='torsion', l1=0.25, l2=0.0)]))),
      ('CalibratedLinear-regularized', lambda: P.CalibratedLinear(C.CalibratedLinearConfig(
          feature_configs=reg_fcs()[:2], use_bias=False, output_initialization=[0.0, 1.0],
          regularizer_configs=[C.RegularizerConfig(name='calib_laplacian', l1=0.5, l2=0.0)]))),
      ('CalibratedLatticeEnsemble-regularized', lambda: P.CalibratedLatticeEnsemble(C.CalibratedLatticeEnsembleConfig(
          feature_configs=reg_fcs(), lattices=[['a', 'b'], ['c', 'a']], output_initialization=[0.0, 1.0],
          regularizer_configs=[C.RegularizerConfig(name='calib_wrinkle', l1=0.0, l2=0.25), C.RegularizerConfig(name='laplacian', l1=0.5, l2=0.0)]))),
  ]


def case_functional_premade(**p):
  import tensorflow as tf
  import tensorflow_lattice as tfl
  from tensorflow_lattice.python.lattice_layer import keras
  case = Case(PROP, p['name'], {})
  co = tfl.premade.get_custom_objects()
  for label, thunk in _premades():
    a = thunk()
    try:
      with keras.utils.custom_object_scope(co):
        b = type(a).from_config(a.get_config(), custom_objects=co)
    except Exception as e:  # pylint: disable=broad-except
      case.record('model-rebuilds-from-config[%s]' % label, 'sat', kind='structural', witness={}, replay=dict(fn='premade', label=label),
                  sig=dict(query='rebuild', label=label), note='%s: %s' % (type(e).__name__, str(e)[:160]))
      continue
    # the built model's config survives the round trip unchanged, again after a second one
    ca, cb = a.get_config(), b.get_config()
    try:
      with keras.utils.custom_object_scope(co):
        cc = type(a).from_config(cb, custom_objects=co).get_config()
    except Exception as e:  # pylint: disable=broad-except
      cc = dict(error='%s: %s' % (type(e).__name__, str(e)[:120]))
    same_cfg = _cfg_equal(ca, cb) and _cfg_equal(cb, cc)
    case.record('rebuilt-model-has-equal-config[%s]' % label, 'unsat' if same_cfg else 'sat', kind='structural', witness={},
                replay=dict(fn='premade-config', label=label), sig=dict(query='model-config', label=label),
                note='' if same_cfg else 'first difference: %s' % (_cfg_diff(ca, cb) or _cfg_diff(cb, cc)))
    nin = len(a.inputs)
    fa = lambda *xs: a(list(xs))
    fb = lambda *xs: b(list(xs))
    ta = Traced(fa, [tf.TensorSpec([1, 1], tf.float32)] * nin, name=label)
    tb = Traced(fb, [tf.TensorSpec([1, 1], tf.float32)] * nin, name=label + "'")
    va, vb = ta.variables, tb.variables
    ok = sorted((x.name, tuple(x.shape)) for x in va) == sorted((y.name, tuple(y.shape)) for y in vb)
    case.record('rebuilt-model-has-same-variables[%s]' % label, 'unsat' if ok else 'sat', kind='structural', witness={}, replay=None,
                sig=dict(query='variables', label=label), note='%d vs %d variables' % (len(va), len(vb)))
    if not ok:
      continue
    # match by name (layer names are deterministic in premade models)
    byname = {y.name: y for y in vb}
    sym.new_ctx()
    vva, vvb, wit = {}, {}, {}
    for i, u in enumerate(va):
      v = byname.get(u.name, vb[i])
      s = sym.symbolic('v%d' % i, tuple(u.shape))
      vva[u.ref()] = s
      vvb[v.ref()] = s
      wit['v%d' % i] = s
    xs = [sym.symbolic('x%d' % i, (1, 1)) for i in range(nin)]
    if 'rtl' in label or 'Ensemble' in label or 'Lattice' in label:
      pass
    (oa,) = ta.sym_run(*xs, var_values=vva)
    (ob,) = tb.sym_run(*xs, var_values=vvb)
    case.meta.setdefault('ops', {}).update(ta.ops_seen)
    pairs = list(zip(np.asarray(oa, dtype=object).reshape(-1), np.asarray(ob, dtype=object).reshape(-1)))
    case.identity('rebuilt-model-computes-identical-outputs[%s]' % label, pairs, witness=dict(wit, **{'x%d' % i: x for i, x in enumerate(xs)}),
                  timeout=120, sig=dict(query='functional', label=label), replay=dict(fn='premade', label=label))
    # the regularization loss is part of what is trained: same function of the variables
    if a.losses or b.losses:
      la = Traced(lambda: tf.add_n([tf.reshape(l, []) for l in a.losses]) if a.losses else tf.constant(0.0), [], name=label + '.losses')
      lb = Traced(lambda: tf.add_n([tf.reshape(l, []) for l in b.losses]) if b.losses else tf.constant(0.0), [], name=label + "'.losses")
      (xa,) = la.sym_run(var_values=vva)
      (xb,) = lb.sym_run(var_values=vvb)
      case.identity('rebuilt-model-has-identical-regularization-loss[%s]' % label,
                    [(np.asarray(xa, dtype=object).reshape(-1)[0], np.asarray(xb, dtype=object).reshape(-1)[0])], witness=wit, timeout=120,
                    sig=dict(query='losses', label=label),
                    inline_replay=lambda m: core.compare_tf(m, [(la, [], vva, lambda o: o[0]), (lb, [], vvb, lambda o: o[0])]))
    # weights set/get round trip is the identity on values (Keras contract, executed)
    w0 = [np.arange(int(np.prod(w.shape)), dtype=np.float32).reshape(w.shape) / 8.0 for w in a.get_weights()]
    a.set_weights(w0)
    b.set_weights(a.get_weights())
    same = all(np.array_equal(x, y) for x, y in zip(a.get_weights(), b.get_weights()))
    case.record('set_weights-get_weights-round-trip[%s]' % label, 'unsat' if same else 'sat', kind='structural', witness={}, replay=None,
                sig=dict(query='weights', label=label), note='executed')
    # saving and reloading (the file I/O is executed; what is loaded is compared symbolically): same config, same stored
    # values, same function of the variables, same constraint attached to every variable
    for fmt in ('h5', 'keras'):
      tag = '%s,%s' % (label, fmt)
      d = tempfile.mkdtemp(prefix='vf_c11_', dir='/tmp')
      try:
        path = os.path.join(d, 'model.' + fmt)
        with warnings.catch_warnings():
          warnings.simplefilter('ignore')
          a.save(path)
          c = keras.models.load_model(path, custom_objects=co)
      except Exception as e:  # pylint: disable=broad-except
        case.record('model-saves-and-reloads[%s]' % tag, 'sat', kind='structural', witness={}, replay=dict(fn='premade-reload', label=label, fmt=fmt),
                    sig=dict(query='reload', label=label), note='%s: %s' % (type(e).__name__, str(e)[:160]))
        continue
      finally:
        shutil.rmtree(d, ignore_errors=True)
      r_ = _reload_compare(a, c)
      case.record('reloaded-model-has-equal-config-weights-and-constraints[%s]' % tag, 'sat' if r_['reproduced'] else 'unsat', kind='structural',
                  witness={}, replay=dict(fn='premade-reload', label=label, fmt=fmt), sig=dict(query='reload', label=label), note=str(r_['detail'])[:200])
      if r_['reproduced']:
        continue
      tc = Traced(lambda *xs: c(list(xs)), [tf.TensorSpec([1, 1], tf.float32)] * nin, name=label + '-reloaded')
      vc = tc.variables
      bynm = {y.name: y for y in vc}
      sym.new_ctx()
      vva2, vvc, wit2 = {}, {}, {}
      for i, u in enumerate(va):
        v = bynm.get(u.name, vc[i])
        s_ = sym.symbolic('v%d' % i, tuple(u.shape))
        vva2[u.ref()] = s_
        vvc[v.ref()] = s_
        wit2['v%d' % i] = s_
      xs2 = [sym.symbolic('x%d' % i, (1, 1)) for i in range(nin)]
      (oa2,) = ta.sym_run(*xs2, var_values=vva2)
      (oc,) = tc.sym_run(*xs2, var_values=vvc)
      flat = lambda outs: np.asarray(outs[0]).reshape(-1)
      case.identity('reloaded-model-computes-identical-outputs[%s]' % tag,
                    list(zip(np.asarray(oa2, dtype=object).reshape(-1), np.asarray(oc, dtype=object).reshape(-1))),
                    witness=dict(wit2, **{'x%d' % i: x for i, x in enumerate(xs2)}), timeout=120, sig=dict(query='reload-functional', label=label),
                    inline_replay=lambda m, tc=tc, xs2=xs2, vva2=vva2, vvc=vvc: core.compare_tf(m, [(ta, xs2, vva2, flat), (tc, xs2, vvc, flat)]))
  return case


def _reload_compare(a, c):
  d = _cfg_diff(a.get_config(), c.get_config())
  if d:
    return dict(reproduced=True, detail='config: ' + d)
  wa, wc = a.get_weights(), c.get_weights()
  if len(wa) != len(wc) or not all(x.shape == y.shape and np.array_equal(x, y) for x, y in zip(wa, wc)):
    return dict(reproduced=True, detail='stored weight values differ after reload')
  ca = {v.name: (_cfg_norm(v.constraint.get_config()) if v.constraint is not None and hasattr(v.constraint, 'get_config') else None,
                 type(v.constraint).__name__) for v in a.weights}
  cc = {v.name: (_cfg_norm(v.constraint.get_config()) if v.constraint is not None and hasattr(v.constraint, 'get_config') else None,
                 type(v.constraint).__name__) for v in c.weights}
  if ca != cc:
    bad = [k for k in ca if ca.get(k) != cc.get(k)]
    return dict(reproduced=True, detail='constraint of %s differs after reload: %s vs %s' % (bad[:1], ca.get(bad[0]) if bad else None, cc.get(bad[0]) if bad else None))
  return dict(reproduced=False, detail='identical')


def replay(r):
  import tensorflow as tf
  import tensorflow_lattice as tfl
  from tensorflow_lattice.python.lattice_layer import keras
  rp = r['replay']
  co = tfl.premade.get_custom_objects()
  if rp['fn'] == 'structural':
    for label, thunk in _objects():
      if label == rp['label']:
        try:
          obj = thunk()
          cfg = obj.get_config()
          with keras.utils.custom_object_scope(co):
            try:
              obj2 = type(obj).from_config(cfg, custom_objects=co)
            except TypeError:
              obj2 = type(obj).from_config(cfg) if hasattr(type(obj), 'from_config') else type(obj)(**cfg)
          cfg2 = obj2.get_config()
          missing = _lost_args(obj, obj2, cfg)
          return dict(reproduced=(not _eq_cfg(cfg, cfg2)) or bool(missing), detail=dict(missing=missing, config=str(cfg)[:300], rebuilt=str(cfg2)[:300]))
        except Exception as e:  # pylint: disable=broad-except
          return dict(reproduced=True, detail='%s: %s' % (type(e).__name__, str(e)[:200]))
  specs_ = {l: (t, s, i) for l, t, s, i in _layer_specs()}
  if rp['fn'] == 'variables':
    lbl, _, mode = rp['label'].partition(',via-')
    thunk, shp, is_int = specs_[lbl]
    a = thunk()
    with keras.utils.custom_object_scope(co):
      if mode == 'built':
        a.build(tf.TensorShape([None] + shp))
      cfg = a.get_config()
      if mode == 'json':
        cfg = json.loads(json.dumps(cfg, default=_json_default))
      b = type(a).from_config(cfg)
    a.build(tf.TensorShape([None] + shp))
    b.build(tf.TensorShape([None] + shp))
    for l in (a, b):
      l(tf.zeros([1] + shp, dtype=tf.int32 if is_int else tf.float32))
    va = [(x.name.split('/')[-1], tuple(x.shape)) for x in a.weights]
    vb = [(x.name.split('/')[-1], tuple(x.shape)) for x in b.weights]
    na, nb = len(set(x.ref() for x in a.weights)), len(set(x.ref() for x in b.weights))
    return dict(reproduced=va != vb or na != nb, detail=dict(original=va, rebuilt=vb, distinct_variables=[na, nb]))
  if rp['fn'] == 'layer-built-config':
    thunk, shp, is_int = specs_[rp['label']]
    a = thunk()
    c0 = _cfg_norm(a.get_config())
    a.build(tf.TensorShape([None] + shp))
    d = _cfg_diff(c0, _cfg_norm(a.get_config()))
    return dict(reproduced=d is not None, detail=dict(first_difference=d))
  if rp['fn'] == 'layer':
    thunk, shp, is_int = specs_[rp['label']]
    a = thunk()
    try:
      with keras.utils.custom_object_scope(co):
        cfg = a.get_config()
        if rp.get('mode') == 'json':
          cfg = json.loads(json.dumps(cfg, default=_json_default))
        b = type(a).from_config(cfg)
      a.build(tf.TensorShape([None] + shp))
      b.build(tf.TensorShape([None] + shp))
      # a rebuilt layer must at least build, project its weights and evaluate
      for v in b.weights:
        if v.constraint is not None:
          v.constraint(v)
      b(tf.zeros([1] + shp, dtype=tf.int32 if is_int else tf.float32))
    except Exception as e:  # pylint: disable=broad-except
      return dict(reproduced=True, detail='%s: %s' % (type(e).__name__, str(e)[:200]))
    w = r.get('witness') or {}
    if not w:
      return dict(reproduced=False, detail='rebuilt layer builds, projects and evaluates')
    for i, (u, v) in enumerate(zip(a.weights, b.weights)):
      val = core.witness_np(w['v%d' % i]).astype(np.float32)
      u.assign(val)
      v.assign(val)
    x = core.witness_np(w['x']).astype(np.float32) if 'x' in w else np.zeros([1] + shp, dtype=np.int32)
    oa = _flat(a(tf.constant(x)), tf).numpy()
    ob = _flat(b(tf.constant(x)), tf).numpy()
    d = float(np.max(np.abs(oa - ob)))
    det = dict(original=oa.tolist(), rebuilt=ob.tolist())
    bad = bool(d > 1e-5 * max(1.0, float(np.max(np.abs(oa)))))
    for i, (u, v) in enumerate(zip(a.weights, b.weights)):
      if ('w%d' % i) in w and u.constraint is not None and v.constraint is not None:
        W = tf.constant(core.witness_np(w['w%d' % i]).astype(np.float32))
        cu, cv = u.constraint(W).numpy(), v.constraint(W).numpy()
        dc = float(np.max(np.abs(cu - cv)))
        det['constraint_%d' % i] = dict(original=cu.tolist(), rebuilt=cv.tolist())
        if dc > 1e-5 * max(1.0, float(np.max(np.abs(cu)))):
          bad = True
    return dict(reproduced=bad, detail=det)
  for label, thunk in _premades():
    if label == rp['label']:
      a = thunk()
      try:
        with keras.utils.custom_object_scope(co):
          b = type(a).from_config(a.get_config(), custom_objects=co)
      except Exception as e:  # pylint: disable=broad-except
        return dict(reproduced=True, detail='%s: %s' % (type(e).__name__, str(e)[:200]))
      if rp['fn'] == 'premade-reload':
        import os, shutil, tempfile, warnings
        d = tempfile.mkdtemp(prefix='vf_c11_', dir='/tmp')
        try:
          path = os.path.join(d, 'model.' + rp['fmt'])
          w0 = [np.arange(int(np.prod(w_.shape)), dtype=np.float32).reshape(w_.shape) / 8.0 for w_ in a.get_weights()]
          a.set_weights(w0)
          with warnings.catch_warnings():
            warnings.simplefilter('ignore')
            a.save(path)
            c = keras.models.load_model(path, custom_objects=co)
        except Exception as e:  # pylint: disable=broad-except
          return dict(reproduced=True, detail='%s: %s' % (type(e).__name__, str(e)[:200]))
        finally:
          shutil.rmtree(d, ignore_errors=True)
        return _reload_compare(a, c)
      if rp['fn'] == 'premade-config':
        ca, cb = a.get_config(), b.get_config()
        with keras.utils.custom_object_scope(co):
          cc = type(a).from_config(cb, custom_objects=co).get_config()
        d = _cfg_diff(ca, cb) or _cfg_diff(cb, cc)
        return dict(reproduced=d is not None, detail=dict(first_difference=d))
      w = r.get('witness') or {}
      nin = len(a.inputs)
      rng = np.random.default_rng(0)
      vals = [core.witness_np(w['v%d' % i]).astype(np.float32) if ('v%d' % i) in w else rng.normal(size=v.shape).astype(np.float32) for i, v in enumerate(a.weights)]
      a.set_weights(vals)
      b.set_weights(vals)
      xs = [tf.constant(core.witness_np(w['x%d' % i]).astype(np.float32)) if ('x%d' % i) in w else tf.constant([[0.5]]) for i in range(nin)]
      oa, ob = a(xs).numpy(), b(xs).numpy()
      d = float(np.max(np.abs(oa - ob)))
      return dict(reproduced=bool(d > 1e-5 * max(1.0, float(np.max(np.abs(oa))))), detail=dict(original=oa.tolist(), rebuilt=ob.tolist()))
  return dict(reproduced=False, detail='unknown replay')


def cases(tier, seed):
  return [dict(name='structural', fn='case_structural', params=dict(name='structural'), cap=900),
          dict(name='functional-layers', fn='case_functional_layers', params=dict(name='functional-layers'), cap=1800),
          dict(name='functional-premade', fn='case_functional_premade', params=dict(name='functional-premade'), cap=1800)]
