"""C17 - Ensemble structures use every feature, fill each lattice, respect monotone slots."""
import json
import os
import re
import subprocess
import sys
import time

from vf.core import Case

PROP = 'C17'
NEEDS_TF = True
ROOT = os.path.dirname(os.path.dirname(os.path.dirname(os.path.abspath(__file__))))

META = dict(
    level='model_checking',
    technique='CrossHair (symbolic execution of Python with z3) on the real structure builders cut out of /repo with ast '
              '(RTL._get_rtl_structure, set_random_lattice_ensemble, _set_all_pairs_cover_lattices/_add_pair_to_ensemble); the '
              'random source is replaced by symbolic permutations / choices; verdict "Confirmed over all paths" required. '
              '_get_final_crystal_lattices runs on the symreal path-forking executor (E3) with symbolic torsion/Laplacian scores',
    bounds=dict(quick='RTL: 3 inputs (every increasing/unconstrained mix, grouped input) into 2 lattices of rank 2 and 1 of rank 3; '
                      'random ensemble: 3-4 features into 2x2 / 2x3; pairs cover: 3-4 features, rank 2-3 (any order), 5 features rank 4 and 6 features rank 5 (first two pairs arbitrary, rest ascending; first three in the thorough tier); Crystals: 3 features into '
                      '2 lattices of rank 2 (symbolic scores)', thorough='RTL 4 inputs 2x2, 3 inputs 3x2; random 4 features 3x2; '
                      'Crystals 4 features 2x3 / 3x2'),
    outside=['feature counts / ranks beyond the bounds', 'the numpy Mersenne-Twister itself (replaced by "some permutation / some element")',
             'prefitting training that produces the torsion scores (arbitrary non-negative scores are assumed)'],
    assumptions=['CrossHair 0.0.110 and z3 are sound on the pure-Python fragment', 'np.random.shuffle returns a permutation, '
                 'np.random.choice returns element(s) of its argument (without repetition when replace=False)',
                 'determinism in the seed: the RNG stub is the only source of nondeterminism (structural)'],
)

_RE_ERR = re.compile(r'error: (.*) when calling (\w+)\((.*?)\)(?: \(which returns (.*)\))?\s*$')


def _crosshair(func, timeout):
  cmd = [sys.executable, '-m', 'crosshair', 'check', '--report_all', '--per_condition_timeout', str(timeout),
         '--per_path_timeout', str(max(5, timeout // 4)), 'vf.e2.c17_harness.%s' % func]
  env = dict(os.environ, PYTHONPATH=ROOT + os.pathsep + os.environ.get('PYTHONPATH', ''))
  t = time.time()
  try:
    p = subprocess.run(cmd, cwd=ROOT, env=env, capture_output=True, text=True, timeout=timeout * 3 + 60)
    out = (p.stdout + p.stderr).strip()
  except subprocess.TimeoutExpired:
    out = 'timeout'
  return out, time.time() - t


def case_crosshair(**p):
  case = Case(PROP, p['name'], {k: v for k, v in p.items() if k != 'name'})
  out, dt = _crosshair(p['func'], p['timeout'])
  case.functions.append('e2:%s' % p['func'])
  last = out.splitlines()[-1] if out else ''
  expect = 'sat' if p.get('twin') else 'unsat'
  res = dict(case=p['name'], query='crosshair:%s' % p['func'], expect=expect, solve_s=round(dt, 2),
             kind='twin' if p.get('twin') else 'main', required=p.get('required', True), config=dict(func=p['func']),
             note=last[-200:])
  if 'Confirmed over all paths' in out:
    res['verdict'] = 'unsat'
  elif _RE_ERR.search(out):
    m = _RE_ERR.search([l for l in out.splitlines() if 'when calling' in l][0])
    res['verdict'] = 'sat'
    if not p.get('twin'):
      res['witness'] = dict(call='%s(%s)' % (m.group(2), m.group(3)), message=m.group(1))
      res['sig'] = dict(query='structure', func=p['func'].split('_')[1])
      res['replay'] = dict(fn='call', func=m.group(2), args=m.group(3))
  else:
    res['verdict'] = 'unknown'
    res['reason'] = 'CrossHair: %s' % (last[-120:] or 'no verdict')
  case.results.append(res)
  return case


def _determinism():
  """same seed -> same arrangement, on the real objects (executed twice per configuration)"""
  import copy
  import tensorflow as tf
  import tensorflow_lattice as tfl
  from tensorflow_lattice.python import premade_lib
  bad = []
  n = 0
  for seed in (0, 1, 7, 12345):
    for (nl, rank, shapes) in ((3, 2, {'unconstrained': (None, 2), 'increasing': (None, 3)}), (4, 3, {'increasing': [(None, 2), (None, 2)], 'unconstrained': [(None, 3)]}),
                               (2, 2, (None, 4))):
      st = []
      for _ in range(2):
        layer = tfl.layers.RTL(num_lattices=nl, lattice_rank=rank, random_seed=seed)
        st.append(layer._get_rtl_structure(shapes))
      n += 1
      if st[0] != st[1]:
        bad.append(('rtl', seed, nl, rank))
    for (nf, nl, rank) in ((4, 3, 2), (5, 4, 3)):
      lat = []
      for _ in range(2):
        cfg = tfl.configs.CalibratedLatticeEnsembleConfig(
            feature_configs=[tfl.configs.FeatureConfig(name='f%d' % i) for i in range(nf)], lattices='random', num_lattices=nl, lattice_rank=rank,
            random_seed=seed)
        premade_lib.set_random_lattice_ensemble(cfg)
        lat.append(copy.deepcopy(cfg.lattices))
      n += 1
      if lat[0] != lat[1]:
        bad.append(('random', seed, nf, nl, rank))
  # across interpreters: nothing may depend on the per-process string-hash salt (sets / dicts of feature names)
  import json as _json
  import subprocess as _sp
  script = (
      "import json, os\n"
      "os.environ['TF_CPP_MIN_LOG_LEVEL'] = '3'\n"
      "import tensorflow_lattice as tfl\n"
      "from tensorflow_lattice.python import premade_lib\n"
      "out = {}\n"
      "for (nf, rank) in ((4, 2), (5, 3), (6, 3)):\n"
      "  names = ['feat_%s' % c for c in 'qwertz'[:nf]]\n"
      "  cfg = tfl.configs.CalibratedLatticeEnsembleConfig(feature_configs=[tfl.configs.FeatureConfig(name=n) for n in names],\n"
      "                                                     lattices='crystals', num_lattices=3, lattice_rank=rank, random_seed=11)\n"
      "  pre = premade_lib.construct_prefitting_model_config(cfg, feature_names=names)\n"
      "  out['%d,%d' % (nf, rank)] = [list(l) for l in pre.lattices]\n"
      "print('RESULT' + json.dumps(out))\n")
  runs = []
  for salt in ('1', '2', '3'):
    env = dict(os.environ, PYTHONHASHSEED=salt)
    pr = _sp.run([sys.executable, '-c', script], env=env, capture_output=True, text=True, timeout=300)
    line = [l for l in pr.stdout.splitlines() if l.startswith('RESULT')]
    runs.append(_json.loads(line[0][6:]) if line else dict(error=(pr.stderr or pr.stdout)[-200:]))
  n += 1
  if any(r != runs[0] for r in runs[1:]) or 'error' in runs[0]:
    bad.append(('crystals-prefitting-cover across PYTHONHASHSEED', runs[0], [r for r in runs[1:] if r != runs[0]][:1]))
  return n, bad


def case_determinism(**p):
  case = Case(PROP, p['name'], {})
  n, bad = _determinism()
  case.record('arrangement-is-a-function-of-the-seed', 'sat' if bad else 'unsat', kind='structural', witness={}, replay=dict(fn='determinism'),
              sig=dict(query='determinism'), note='%d configurations built twice; differing: %s' % (n, bad[:3]))
  return case


def case_crystals(**p):
  from vf.e3 import crystals
  return crystals.case(PROP, p)


def replay(r):
  rp = r['replay']
  if rp['fn'] == 'determinism':
    n, bad = _determinism()
    return dict(reproduced=bool(bad), detail=dict(configurations=n, differing=bad[:5]))
  if rp['fn'] == 'crystals':
    from vf.e3 import crystals
    return crystals.replay(r)
  sys.path.insert(0, ROOT)
  from vf.e2 import c17_harness as h
  import ast
  try:
    ast.literal_eval('(%s,)' % rp['args'])
  except (SyntaxError, ValueError) as e:
    return dict(reproduced=False, detail=dict(call='%s(%s)' % (rp['func'], rp['args']), harness='cannot parse the CrossHair counterexample: %r' % (e,)))
  try:
    val = eval('h.%s(%s)' % (rp['func'], rp['args']), {'h': h})
    return dict(reproduced=val is not True, detail=dict(call='%s(%s)' % (rp['func'], rp['args']), returned=repr(val)))
  except h.OutOfRandomness as e:
    return dict(reproduced=False, detail=dict(call='%s(%s)' % (rp['func'], rp['args']), harness='the code drew more random values than the harness supplies: %r' % (e,)))
  except Exception as e:  # pylint: disable=broad-except
    return dict(reproduced=True, detail=dict(call='%s(%s)' % (rp['func'], rp['args']), raised=repr(e)[:200]))


def cases(tier, seed):
  sys.path.insert(0, ROOT)
  from vf.e2 import c17_harness as h
  out = []
  for f in h.CHECKS_QUICK:
    hard = f in ('check_cover_4f_rank2', 'check_cover_4f_rank3', 'check_cover_5f_rank4_head2', 'check_cover_6f_rank5_head2')
    out.append(dict(name=f, fn='case_crosshair', params=dict(name=f, func=f, timeout=150 if hard else 90, required=not hard),
                    cap=900, required=not hard))
  for f in h.TWINS:
    out.append(dict(name=f, fn='case_crosshair', params=dict(name=f, func=f, timeout=60, twin=True), cap=400))
  out.append(dict(name='determinism', fn='case_determinism', params=dict(name='determinism'), cap=600))
  if tier == 'thorough':
    for f in h.CHECKS_THOROUGH:
      out.append(dict(name=f, fn='case_crosshair', params=dict(name=f, func=f, timeout=900, required=False), cap=3600, required=False))
  try:
    from vf.e3 import crystals
    out += crystals.cases(tier, seed)
  except ImportError:
    pass
  return out
