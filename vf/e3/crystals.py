"""Crystals structure extraction (premade_lib._get_final_crystal_lattices) on the E3 executor with symbolic scores."""
import ast
import itertools
import os
import types
from fractions import Fraction

import z3

from vf import sym
from vf.core import Case

REPO = os.environ.get('VERIF_REPO', '/repo')
SRC = os.path.join(REPO, 'tensorflow_lattice/python/premade_lib.py')


def _load(stub):
  from vf.e3 import symnp
  tree = ast.parse(open(SRC).read())
  keep = []
  for n in tree.body:
    if isinstance(n, ast.Assign) and any(getattr(t, 'id', '') in ('_LAPLACIAN_WEIGHT_IN_IMPORTANCE', '_REPEATED_PAIR_DISCOUNT_IN_CRYSTALS_SCORE',
                                                               '_MAX_CRYSTALS_SWAPS') for t in n.targets):
      keep.append(n)
    if isinstance(n, ast.FunctionDef) and n.name == '_get_final_crystal_lattices':
      keep.append(n)
  np_ns = types.SimpleNamespace(array=lambda x: symnp.A(list(x)), sum=_sum, argsort=symnp.argsort, mean=symnp.mean)
  ns = {'np': np_ns, 'itertools': itertools, 'logging': types.SimpleNamespace(info=lambda *a, **k: None),
        '_get_torsions_and_laplacians': stub}
  exec(compile(ast.Module(body=keep, type_ignores=[]), SRC, 'exec'), ns)
  return ns['_get_final_crystal_lattices']


def _sum(a):
  acc = 0
  for x in (a.xs if hasattr(a, 'xs') else a):
    acc = acc + x
  return acc


def case(prop, p):
  from vf.e3 import symreal
  from vf.e3.symreal import SR
  from tensorflow_lattice.python import premade_lib
  c = Case(prop, p['name'], {k: v for k, v in p.items() if k != 'name'})
  c.encoded(premade_lib._get_final_crystal_lattices)
  nf, nl, rank = p['features'], p['lattices'], p['rank']
  holder = {}
  fn_real = _load(lambda **kw: holder['scores'])

  def make_inputs():
    t = {}
    names = {}
    assume = []
    for i in range(nf):
      for j in range(i + 1, nf):
        v = z3.Real('t_%d_%d' % (i, j))
        t[(i, j)] = v
        names['t_%d_%d' % (i, j)] = v
        assume.append(z3.And(v >= 0, v <= 4))
    lap = [z3.Real('l_%d' % i) for i in range(nf)]
    for i, v in enumerate(lap):
      names['l_%d' % i] = v
      assume.append(z3.And(v > 0, v <= 4))
    return (t, lap), assume, names

  def fn(t, lap):
    tors = [[0] * nf for _ in range(nf)]
    for (i, j), v in t.items():
      tors[i][j] = SR(v)
      tors[j][i] = SR(v)
    holder['scores'] = (tors, [SR(v) for v in lap])
    cfg = types.SimpleNamespace(num_lattices=nl, lattice_rank=rank)
    return fn_real(cfg, None, None, ['f%d' % i for i in range(nf)])

  def post(inputs, lattices):
    ok = len(lattices) == nl and all(len(lat) == rank for lat in lattices)
    used = set(f for lat in lattices for f in lat)
    ok = ok and used == set(range(nf))
    return bool(ok)

  out = symreal.explore(fn, make_inputs, post, max_paths=p.get('max_paths', 3000), time_budget=p.get('budget', 200))
  verdict = 'unsat'
  if out['violations']:
    verdict = 'sat'
  elif out['errors'] or not out['exhausted']:
    verdict = 'unknown'
  res = dict(case=p['name'], query='crystals-structure-valid-on-every-path', verdict=verdict, expect='unsat', solve_s=out['wall'], kind='main',
             required=p.get('required', True), config={k: v for k, v in p.items() if k != 'name'},
             note='%d paths, %d solver queries, exhausted=%s' % (out['paths'], out['solver_queries'], out['exhausted']))
  if verdict == 'sat':
    v0 = out['violations'][0]
    res['witness'] = v0.get('model', {})
    res['weak_witness'] = True   # exact-arithmetic witness (may sit on a rounding tie): a non-reproducing one is inconclusive
    res['sig'] = dict(query='crystals', kind=v0['kind'])
    res['replay'] = dict(fn='crystals', params=p)
    res['note'] += '; first: %s' % (str(v0)[:200],)
  if verdict == 'unknown':
    res['reason'] = str(out['errors'][:1]) if out['errors'] else 'path/time budget exhausted after %d paths' % out['paths']
  c.results.append(res)
  c.meta['paths'] = out['paths']
  c.record('twin:some-path-returns', 'sat' if out['paths'] > 0 else 'unsat', expect='sat', kind='twin')
  return c


def replay(r):
  """run the real function with the real NumPy on the witness scores"""
  import numpy as np
  from tensorflow_lattice.python import premade_lib
  p = r['replay']['params']
  w = r['witness']
  nf, nl, rank = p['features'], p['lattices'], p['rank']
  tors = [[0.0] * nf for _ in range(nf)]
  for i in range(nf):
    for j in range(i + 1, nf):
      v = float(Fraction(w['t_%d_%d' % (i, j)]))
      tors[i][j] = tors[j][i] = v
  lap = [float(Fraction(w['l_%d' % i])) for i in range(nf)]
  orig = premade_lib._get_torsions_and_laplacians
  premade_lib._get_torsions_and_laplacians = lambda **kw: (tors, lap)
  try:
    cfg = types.SimpleNamespace(num_lattices=nl, lattice_rank=rank)
    try:
      lattices = premade_lib._get_final_crystal_lattices(cfg, None, None, ['f%d' % i for i in range(nf)])
    except Exception as e:  # pylint: disable=broad-except
      return dict(reproduced=True, detail=dict(raised=repr(e)[:200], torsions=tors, laplacians=lap))
  finally:
    premade_lib._get_torsions_and_laplacians = orig
  ok = len(lattices) == nl and all(len(lat) == rank for lat in lattices) and set(f for lat in lattices for f in lat) == set(range(nf))
  return dict(reproduced=not ok, detail=dict(lattices=[list(map(int, lat)) for lat in lattices], torsions=tors, laplacians=lap))


def cases(tier, seed):
  out = []

  def add(required, **p):
    nm = 'crystals-f%d-l%dx%d' % (p['features'], p['lattices'], p['rank'])
    p['name'] = nm
    p['required'] = required
    out.append(dict(name=nm, fn='case_crystals', params=p, cap=p.get('budget', 200) * 2 + 200, required=required))
  add(True, features=3, lattices=2, rank=2, budget=200)
  add(True, features=3, lattices=3, rank=2, budget=300, max_paths=6000)
  add(False, features=4, lattices=3, rank=3, budget=120, max_paths=3000)
  if tier == 'thorough':
    add(False, features=4, lattices=5, rank=3, budget=1500, max_paths=60000)
    add(False, features=4, lattices=3, rank=2, budget=900, max_paths=30000)
  return out
