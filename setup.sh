#!/bin/bash
# Builds /verif/.venv: an overlay on /venv (the repository's own interpreter and
# packages, untouched) plus z3-solver, crosshair-tool and cvc5 from the offline
# wheelhouse.  Idempotent; every check calls it.
set -e
cd "$(dirname "$0")"
V=/verif/.venv
if [ -x "$V/bin/python" ] && "$V/bin/python" -c "import z3, crosshair" 2>/dev/null; then
  exit 0
fi
(
  flock 9
  if [ -x "$V/bin/python" ] && "$V/bin/python" -c "import z3, crosshair" 2>/dev/null; then
    exit 0
  fi
  rm -rf "$V"
  /venv/bin/python -m venv "$V"
  SP=$("$V/bin/python" -c "import site;print(site.getsitepackages()[0])")
  printf "import site; site.addsitedir('/venv/lib/python3.12/site-packages')\n/repo\n" > "$SP/verif_overlay.pth"
  PIP_NO_INDEX=1 "$V/bin/pip" install -q --no-index --find-links /opt/veriftools/wheels z3-solver crosshair-tool cvc5 >/dev/null 2>&1
  "$V/bin/python" -c "import z3, crosshair"
) 9>/verif/.venv.lock
