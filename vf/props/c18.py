"""C18 - Computed calibration keypoints are valid for every data sample."""
import ast
import itertools
import os
import types
from fractions import Fraction

import numpy as np
import z3

from vf import sym, core
from vf.core import Case

PROP = 'C18'
REPO = os.environ.get('VERIF_REPO', '/repo')
SRC = os.path.join(REPO, 'tensorflow_lattice/python/premade_lib.py')

META = dict(
    level='model_checking',
    technique='the real compute_keypoints / _weighted_quantile (cut out of /repo with ast) run on the symreal path-forking '
              'executor: data values, weights, clip bounds and default value are z3 reals, every comparison / rounding forks on '
              'the solver, NumPy is a validated pure-Python model bound to the installed NumPy signatures; after all paths of a '
              'bounded input shape are exhausted, z3 decides the postcondition under each path condition',
    bounds=dict(quick='value arrays of length 2-3 (4 for uniform), num_keypoints 2-3, both modes, weights none / symbolic positive, '
                      'mean/sum reduction, clip bounds none / symbolic, default value none / symbolic',
                thorough='length 4-5, num_keypoints 4'),
    outside=['IEEE-754 rounding of quantile positions (exact reals; concrete quantile grids use NumPy\'s own float rounding)', 'NaN / inf data',
             'empty data (all values equal to the default value)', 'array lengths beyond the bounds'],
    assumptions=['the NumPy model vf/e3/symnp.py (validated against the installed NumPy on concrete inputs on every run)', 'z3 is sound'],
)


def _load():
  from vf.e3 import symnp
  tree = ast.parse(open(SRC).read())
  keep = [n for n in tree.body if isinstance(n, ast.FunctionDef) and n.name in ('compute_keypoints', '_weighted_quantile')]
  ns = {'np': symnp, 'itertools': itertools, 'logging': types.SimpleNamespace(info=lambda *a, **k: None)}
  exec(compile(ast.Module(body=keep, type_ignores=[]), SRC, 'exec'), ns)
  return ns['compute_keypoints'], symnp


def _validate_model(case, n=40):
  """differential validation of the NumPy model: real function (real NumPy) vs extracted function on the model, concrete data"""
  from tensorflow_lattice.python import premade_lib
  from vf.e3 import symreal
  ck, symnp = _load()
  rng = np.random.default_rng(0)
  done = mism = 0
  for t in range(n):
    m = int(rng.integers(2, 7))
    vals = rng.integers(0, 6, size=m).astype(float) / 2.0
    k = int(rng.integers(2, 5))
    mode = ['uniform', 'quantiles'][t % 2]
    w = rng.integers(1, 5, size=m).astype(float) if (t % 4 >= 2 or mode == 'quantiles') else None
    clip = (0.5, 2.0) if t % 3 == 0 else (None, None)
    kw = dict(keypoints=mode, clip_min=clip[0], clip_max=clip[1], weights=w, weight_reduction=['mean', 'sum'][t % 2])
    try:
      ref = list(premade_lib.compute_keypoints(vals, k, **kw))
    except Exception as e:  # pylint: disable=broad-except
      ref = type(e).__name__
    sym.new_ctx()
    symreal.CUR[0] = symreal.Run([], [])
    kw2 = dict(kw, weights=None if w is None else symnp.A([float(x) for x in w]))
    try:
      got = [float(x) for x in ck(symnp.A([float(x) for x in vals]), k, **kw2)]
    except Exception as e:  # pylint: disable=broad-except
      got = type(e).__name__
    done += 1
    if isinstance(ref, str) or isinstance(got, str):
      if ref != got:
        mism += 1
    elif len(ref) != len(got) or any(abs(a - b) > 1e-9 for a, b in zip(ref, got)):
      mism += 1
  case.meta.update(validation_points=done, validation_mismatch=mism)
  if mism:
    raise sym.HarnessError('NumPy model disagrees with the installed NumPy on %d/%d concrete runs' % (mism, done))


def case_keypoints(**p):
  from vf.e3 import symreal
  from vf.e3.symreal import SR
  from tensorflow_lattice.python import premade_lib, pwl_calibration_lib
  case = Case(PROP, p['name'], {k: v for k, v in p.items() if k != 'name'})
  case.encoded(premade_lib.compute_keypoints, premade_lib._weighted_quantile)
  if p.get('validate'):
    _validate_model(case)
  ck, symnp = _load()
  n, k, mode = p['n'], p['k'], p['mode']

  def make_inputs():
    v = [z3.Real('v%d' % i) for i in range(n)]
    names = {'v%d' % i: v[i] for i in range(n)}
    assume = [z3.And(x >= -8, x <= 8) for x in v]
    w = None
    if p.get('weights'):
      w = [z3.Real('w%d' % i) for i in range(n)]
      assume += [z3.And(x > 0, x <= 8) for x in w]
      names.update({'w%d' % i: w[i] for i in range(n)})
    lo = hi = dv = None
    if p.get('clip'):
      lo, hi = z3.Real('lo'), z3.Real('hi')
      assume += [lo < hi, lo >= -8, hi <= 8]
      names.update(lo=lo, hi=hi)
    if p.get('sorted_distinct'):
      assume += [v[i] < v[i + 1] for i in range(n - 1)]
    if p.get('default'):
      dv = z3.Real('dv')
      names['dv'] = dv
      # at least one value is not the default (empty data is outside the claim)
      assume.append(z3.Or([x != dv for x in v]))
    return (v, w, lo, hi, dv), assume, names

  def fn(v, w, lo, hi, dv):
    vals = symnp.A([SR(x) for x in v])
    kw = dict(keypoints=mode, weight_reduction=p.get('reduction', 'mean'))
    if w is not None:
      kw['weights'] = symnp.A([SR(x) for x in w])
    if lo is not None:
      kw.update(clip_min=SR(lo), clip_max=SR(hi))
    if dv is not None:
      kw['default_value'] = SR(dv)
    res = ck(vals, k, **kw)
    xs = list(res)
    # facts about the clipped data, computed with the same forking primitives
    data = [SR(x) for x in v]
    if dv is not None:
      data = [x for x in data if bool(x != SR(dv))]
    if lo is not None:
      data = [x if bool(x >= SR(lo)) else SR(lo) for x in data] + [SR(lo)]
      data = [x if bool(x <= SR(hi)) else SR(hi) for x in data] + [SR(hi)]
    distinct = list(symnp.unique(symnp.A(data)))
    return xs, distinct

  def post(inputs, res):
    xs, distinct = res
    conds = []
    nd = len(distinct)
    want = k if (mode == 'uniform' or nd >= k) else nd
    if len(xs) != want:
      return False
    if nd >= 2:
      for a, b_ in zip(xs[:-1], xs[1:]):
        conds.append(sym.b(sym.s_cmp('lt', symreal.el(a), symreal.el(b_))))
    conds.append(sym.b(sym.s_cmp('eq', symreal.el(xs[0]), symreal.el(distinct[0]))))
    conds.append(sym.b(sym.s_cmp('eq', symreal.el(xs[-1]), symreal.el(distinct[-1]))))
    for x in xs:
      conds.append(sym.b(sym.s_cmp('ge', symreal.el(x), symreal.el(distinct[0]))))
      conds.append(sym.b(sym.s_cmp('le', symreal.el(x), symreal.el(distinct[-1]))))
    if mode == 'quantiles':
      # quantile keypoints are observed (clipped) data values
      for x in xs:
        conds.append(z3.Or([sym.b(sym.s_cmp('eq', symreal.el(x), symreal.el(d))) for d in distinct]))
    return z3.And(conds)

  out = symreal.explore(fn, make_inputs, post, max_paths=p.get('max_paths', 6000), time_budget=p.get('budget', 240))
  verdict = 'unsat'
  if out['violations']:
    verdict = 'sat'
  elif out['errors'] or not out['exhausted']:
    verdict = 'unknown'
  res = dict(case=p['name'], query='keypoints-valid-on-every-path', verdict=verdict, expect='unsat', solve_s=out['wall'], kind='main',
             required=p.get('required', True), config={k_: v for k_, v in p.items() if k_ != 'name'},
             note='%d paths, %d solver queries, exhausted=%s' % (out['paths'], out['solver_queries'], out['exhausted']))
  if verdict == 'sat':
    v0 = out['violations'][0]
    res['witness'] = v0.get('model', {})
    res['weak_witness'] = True   # exact-arithmetic witness (may sit on a rounding tie): a non-reproducing one is inconclusive
    res['sig'] = dict(query='keypoints', mode=mode, weighted=bool(p.get('weights')), kind=v0['kind'],
                      exception=(v0.get('exception') or '').split(':')[0])
    res['replay'] = dict(fn='keypoints', params=p)
    res['note'] += '; first: %s' % (str(v0)[:200],)
  if verdict == 'unknown':
    res['reason'] = str(out['errors'][:1]) if out['errors'] else 'path budget exhausted'
  case.results.append(res)
  case.meta['paths'] = out['paths']
  # reachability twin: the function returns on some path
  case.record('twin:some-path-returns', 'sat' if out['paths'] > 0 else 'unsat', expect='sat', kind='twin')
  return case


def case_config_helpers(**p):
  """compute_feature_keypoints / compute_label_keypoints / set_*_keypoints fill configs with the compute_keypoints result
  (concrete wiring check on the real functions + acceptance by PWLCalibration)"""
  import tensorflow_lattice as tfl
  from tensorflow_lattice.python import premade_lib, pwl_calibration_lib
  case = Case(PROP, p['name'], {k: v for k, v in p.items() if k != 'name'})
  case.encoded(premade_lib.compute_feature_keypoints, premade_lib.compute_label_keypoints, premade_lib.set_feature_keypoints,
               premade_lib.set_label_keypoints)
  rng = np.random.default_rng(p.get('seed', 0))
  fails = []
  for mode in ('uniform', 'quantiles'):
    fcs = [tfl.configs.FeatureConfig(name='a', pwl_calibration_input_keypoints=mode, pwl_calibration_num_keypoints=3,
                                     pwl_calibration_clip_min=0.0, pwl_calibration_clip_max=2.0),
           tfl.configs.FeatureConfig(name='b', pwl_calibration_input_keypoints=mode, pwl_calibration_num_keypoints=4, default_value=-1.0),
           tfl.configs.FeatureConfig(name='c', num_buckets=3)]
    feats = {'a': rng.integers(-2, 8, size=12) / 2.0, 'b': np.array([-1.0, 0.5, 0.5, 1.0, 2.0, 3.0, -1.0, 4.0]), 'c': np.array([0, 1, 2])}
    w = rng.integers(1, 4, size=12).astype(float)
    try:
      kp = premade_lib.compute_feature_keypoints(fcs, {'a': feats['a']}, weights=w)
      kp.update(premade_lib.compute_feature_keypoints(fcs, {'b': feats['b'], 'c': feats['c']}, weights=np.ones(8) if mode == 'quantiles' else None))
      premade_lib.set_feature_keypoints(fcs, kp, add_missing_feature_configs=False)
      for fc in fcs[:2]:
        ks = list(fc.pwl_calibration_input_keypoints)
        pwl_calibration_lib.verify_hyperparameters(input_keypoints=ks)
        if fc.name == 'a' and (abs(ks[0] - 0.0) > 1e-9 or abs(ks[-1] - 2.0) > 1e-9):
          fails.append((mode, fc.name, ks))
        if fc.name == 'b' and (-1.0 in ks):
          fails.append((mode, fc.name, ks))
      # a keypoints dict that also carries a name without a FeatureConfig (say the label column), in every position: every
      # configured feature still receives its keypoints; with add_missing_feature_configs the extra name gets a config
      for pos in range(3):
        for add_missing in (False, True):
          fcs2 = [tfl.configs.FeatureConfig(name='a', pwl_calibration_input_keypoints=mode, pwl_calibration_num_keypoints=3),
                  tfl.configs.FeatureConfig(name='b', pwl_calibration_input_keypoints=mode, pwl_calibration_num_keypoints=4)]
          items = [('a', [0.0, 1.0, 2.0]), ('b', [0.0, 0.5, 1.0, 4.0])]
          items.insert(pos, ('extra', [1.0, 2.0]))
          premade_lib.set_feature_keypoints(fcs2, dict(items), add_missing_feature_configs=add_missing)
          got = {fc.name: fc.pwl_calibration_input_keypoints for fc in fcs2}
          want = dict(items) if add_missing else dict(a=[0.0, 1.0, 2.0], b=[0.0, 0.5, 1.0, 4.0])
          if {k: (list(v) if not isinstance(v, str) else v) for k, v in got.items()} != want:
            fails.append((mode, 'set_feature_keypoints with an unconfigured name at position %d, add_missing=%s' % (pos, add_missing), str(got)[:120]))
      mc = tfl.configs.CalibratedLatticeConfig(feature_configs=fcs, output_initialization=mode, output_calibration_num_keypoints=3,
                                               output_min=0.0, output_max=1.0)
      lk = premade_lib.compute_label_keypoints(mc, np.array([0.0, 0.2, 0.9, 1.0, 0.5]), logits_output=False,
                                               weights=np.ones(5) if mode == 'quantiles' else None)
      premade_lib.set_label_keypoints(mc, lk)
      ks = list(mc.output_initialization)
      if len(ks) != 3 or any(b_ <= a for a, b_ in zip(ks[:-1], ks[1:])) or abs(ks[0]) > 1e-9 or abs(ks[-1] - 1) > 1e-9:
        fails.append((mode, 'label', ks))
    except Exception as e:  # pylint: disable=broad-except
      fails.append((mode, 'exception', '%s: %s' % (type(e).__name__, str(e)[:100])))
  case.record('config-helpers-fill-valid-keypoints', 'sat' if fails else 'unsat', witness={}, replay=dict(fn='helpers', params=p),
              sig=dict(query='helpers', what=str(fails[:1])[:80]), note='concrete wiring check: %s' % (fails[:2],))
  return case


def _dtype_sweep():
  """the same data and weights in every array dtype a caller may hand over, and with a number of keypoints equal / close to the
  number of distinct values (values are what the symbolic cases cover; dtypes and counts are finite enumerations, executed on
  the real function); end points are compared exactly"""
  from tensorflow_lattice.python import premade_lib, pwl_calibration_lib
  datasets = [
      (np.array([0.0, 0.0, 1.0, 1.0, 2.0, 3.0, 3.0, 5.0, 8.0, 8.0]), (np.float64, np.float32, np.int64, np.int32, np.int16, np.int8), ((None, None), (1.0, 6.0))),
      # a span that does not fit the small integer types when subtracted; clip bounds that are not dyadic
      (np.array([-100.0, -100.0, -50.0, 0.0, 25.0, 50.0, 100.0, 100.0, 75.0, -25.0]), (np.float64, np.float32, np.int64, np.int16, np.int8), ((None, None), (0.2, 0.9), (-70.3, 33.1))),
      (np.array([-20000.0, 20000.0, 0.0, 5.0, 7.0, -3.0, 11.0, 13.0, 17.0, 19.0]), (np.float32, np.int32, np.int16), ((None, None),)),
      (np.array([3.0, 1.0, 2.0, 2.0, 5.0, 4.0, 1.0, 5.0, 3.0, 4.0]), (np.float64, np.int64), ((None, None),)),
  ]
  wts = np.array([1, 2, 1, 1, 3, 1, 1, 2, 1, 1])
  fails = []
  n = [0]

  def one(vals, vdt, wdt, mode, red, clip, nkp):
    w = None if wdt is None else (np.ones(len(wts), dtype=np.bool_) if wdt is np.bool_ else wts.astype(wdt))  # all weights positive
    n[0] += 1
    tag = (vdt.__name__, getattr(wdt, '__name__', None), mode, red, clip, float(vals.min()), float(vals.max()), nkp)
    try:
      data = vals.astype(vdt)
      ks = premade_lib.compute_keypoints(data, num_keypoints=nkp, keypoints=mode, clip_min=clip[0], clip_max=clip[1],
                                         weights=w, weight_reduction=red)
      ks = [float(k) for k in ks]
      lo = float(data.min()) if clip[0] is None else max(float(clip[0]), float(data.min()))
      hi = float(data.max()) if clip[1] is None else min(float(clip[1]), float(data.max()))
      # float32 data: clip bounds may be rounded to the data's dtype; that rounding is not part of the claim
      tol = 1e-6 if vdt is np.float32 else 0.0
      if any(b_ <= a for a, b_ in zip(ks[:-1], ks[1:])) or not np.all(np.isfinite(ks)):
        fails.append(tag + (ks,))
      elif abs(ks[0] - lo) > tol * max(1.0, abs(lo)) or abs(ks[-1] - hi) > tol * max(1.0, abs(hi)):
        fails.append(tag + ('end points %r, %r instead of %r, %r' % (ks[0], ks[-1], lo, hi),))
      elif mode == 'quantiles' and clip == (None, None) and len(ks) != min(nkp, len(set(vals.tolist()))):
        fails.append(tag + ('%d keypoints' % len(ks),))
      else:
        pwl_calibration_lib.verify_hyperparameters(input_keypoints=ks)
    except Exception as e:  # pylint: disable=broad-except
      fails.append(tag + ('%s: %s' % (type(e).__name__, str(e)[:80]),))
  for vals, vdts, clips in datasets:
    distinct = len(set(vals.tolist()))
    for vdt in vdts:
      for wdt in (None, np.float64, np.float32, np.int64, np.int32, np.bool_):
        for mode in ('quantiles', 'uniform'):
          for red in ('mean', 'sum'):
            for clip in clips:
              for nkp in ((4,) if clip != (None, None) else sorted(set([4, distinct, distinct - 1, distinct + 2]))):
                one(vals, vdt, wdt, mode, red, clip, nkp)
  return n[0], fails


def case_dtype_sweep(**p):
  from tensorflow_lattice.python import premade_lib
  case = Case(PROP, p['name'], {})
  case.encoded(premade_lib.compute_keypoints)
  n, fails = _dtype_sweep()
  case.record('keypoints-valid-for-every-array-dtype', 'sat' if fails else 'unsat', kind='structural', witness={}, replay=dict(fn='dtype-sweep'),
              sig=dict(query='dtype', what=str(fails[:1])[:100]), note='%d dtype/mode combinations executed; failing: %s' % (n, fails[:2]))
  return case


def replay(r):
  from tensorflow_lattice.python import premade_lib, pwl_calibration_lib
  rp = r['replay']
  if rp['fn'] == 'dtype-sweep':
    n, fails = _dtype_sweep()
    return dict(reproduced=bool(fails), detail=dict(combinations=n, failing=[str(f)[:200] for f in fails[:5]]))
  p = rp['params']
  if rp['fn'] == 'helpers':
    c = case_config_helpers(**p)
    return dict(reproduced=c.results[0]['verdict'] == 'sat', detail=c.results[0].get('note'))
  w = r['witness']

  def val(name):
    return float(Fraction(w[name])) if name in w and w[name] not in (None, 'None') else None
  n = p['n']
  vals = np.array([val('v%d' % i) for i in range(n)], dtype=float)
  kw = dict(keypoints=p['mode'], weight_reduction=p.get('reduction', 'mean'))
  if p.get('weights'):
    kw['weights'] = np.array([val('w%d' % i) for i in range(n)], dtype=float)
  if p.get('clip'):
    kw.update(clip_min=val('lo'), clip_max=val('hi'))
  if p.get('default'):
    kw['default_value'] = val('dv')
  try:
    res = [float(x) for x in premade_lib.compute_keypoints(vals, p['k'], **kw)]
  except Exception as e:  # pylint: disable=broad-except
    return dict(reproduced=True, detail=dict(raised='%s: %s' % (type(e).__name__, str(e)[:200]), values=vals.tolist(), kwargs=str(kw)[:200]))
  data = vals[vals != kw.get('default_value')] if kw.get('default_value') is not None else vals
  if p.get('clip'):
    data = np.append(np.clip(data, kw['clip_min'], kw['clip_max']), [kw['clip_min'], kw['clip_max']])
  distinct = np.unique(data)
  bad = False
  want = p['k'] if (p['mode'] == 'uniform' or len(distinct) >= p['k']) else len(distinct)
  if len(res) != want:
    bad = True
  if len(distinct) >= 2 and any(b_ <= a for a, b_ in zip(res[:-1], res[1:])):
    bad = True
  if abs(res[0] - distinct[0]) > 1e-9 or abs(res[-1] - distinct[-1]) > 1e-9:
    bad = True
  return dict(reproduced=bool(bad), detail=dict(keypoints=res, distinct=distinct.tolist(), values=vals.tolist()))


def cases(tier, seed):
  out = []

  def add(required=True, cap=900, **p):
    nm = 'kp-%s' % '-'.join('%s%s' % (k[:3], v) for k, v in sorted(p.items()) if k not in ('budget', 'max_paths', 'validate'))
    p['name'] = nm
    p['required'] = required
    out.append(dict(name=nm, fn='case_keypoints', params=p, cap=cap, required=required))

  add(n=3, k=3, mode='uniform', validate=True)
  add(n=4, k=2, mode='uniform')
  add(n=2, k=3, mode='uniform', clip=True)
  add(n=3, k=2, mode='uniform', default=True)
  add(n=2, k=2, mode='uniform', clip=True, default=True, weights=True)
  add(n=3, k=2, mode='quantiles')
  add(n=3, k=3, mode='quantiles')
  add(n=2, k=3, mode='quantiles', clip=True)
  add(n=3, k=2, mode='quantiles', weights=True)
  add(n=3, k=3, mode='quantiles', weights=True, reduction='sum')
  add(n=3, k=2, mode='quantiles', weights=True, default=True)
  add(n=2, k=3, mode='quantiles', weights=True, clip=True, required=False, budget=400)
  add(n=4, k=4, mode='quantiles', weights=True, reduction='sum', sorted_distinct=True, budget=400, max_paths=20000)
  add(n=5, k=4, mode='quantiles', weights=True, sorted_distinct=True, required=False, budget=400, max_paths=20000)
  out.append(dict(name='dtype-sweep', fn='case_dtype_sweep', params=dict(name='dtype-sweep'), cap=300))
  out.append(dict(name='config-helpers', fn='case_config_helpers', params=dict(name='config-helpers', seed=seed), cap=300))
  if tier == 'thorough':
    add(n=4, k=3, mode='quantiles', weights=True, required=False, budget=1500, max_paths=40000, cap=2400)
    add(n=4, k=4, mode='quantiles', required=False, budget=900, cap=1500)
    add(n=5, k=3, mode='uniform', required=False, budget=900, max_paths=40000, cap=1500)
    add(n=3, k=4, mode='quantiles', weights=True, clip=True, required=False, budget=1500, max_paths=40000, cap=2400)
    add(n=6, k=5, mode='quantiles', weights=True, reduction='sum', sorted_distinct=True, required=False, budget=1500, max_paths=60000, cap=2400)
    add(n=5, k=5, mode='quantiles', weights=True, sorted_distinct=True, required=False, budget=1500, max_paths=60000, cap=2400)
    add(n=4, k=3, mode='quantiles', weights=True, default=True, clip=True, required=False, budget=1500, max_paths=40000, cap=2400)
    add(n=4, k=4, mode='uniform', clip=True, default=True, required=False, budget=900, max_paths=40000, cap=1500)
    add(n=4, k=2, mode='quantiles', weights=True, reduction='sum', required=False, budget=900, max_paths=40000, cap=1500)
  return out
