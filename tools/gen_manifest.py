#!/usr/bin/env python3
"""Regenerates /verif/MANIFEST.json from the table below (kept in one place so the
manifest is valid at all times)."""
import json
import os

ROOT = os.path.dirname(os.path.dirname(os.path.abspath(__file__)))

E1 = 'symgraph'
CHECKS = {
    'C01': dict(
        engine=E1, design_ref='DESIGN.md 3/C01',
        technique='bounded symbolic execution of the traced TF graph of LatticeConstraints/finalize_constraints + z3 (QF_LRA after fraction lifting); sat witnesses replayed on the real code',
        text='For every enumerated lattice configuration the solver decides, over ALL real kernels, that the strict '
             'constraint output satisfies every monotonicity/Edgeworth/trapezoid/bound inequality and that feasible '
             'kernels are returned unchanged. Bounded in configuration (shapes, units, trust combinations), unbounded in '
             'the kernel values.',
        note='Real arithmetic instead of IEEE floats; TF op semantics as implemented in vf/interp.py (validated against '
             'TensorFlow on concrete points per case); z3 soundness; reference predicates vf/specs.py.'),
    'C04': dict(
        engine=E1, design_ref='DESIGN.md 3/C04',
        technique='bounded symbolic execution of the traced TF graph of PWLCalibrationConstraints (Dykstra while-loop unrolled exactly, then _finalize_constraints) + z3 over rational-function terms; witnesses replayed on the real code',
        text='For every enumerated calibrator configuration (monotonicity x convexity x bounds x clamps x keypoints x '
             'spacing x iterations) the solver decides over ALL real kernels that the returned kernel is exactly monotone, '
             'within bounds, convex/concave and clamped as promised (minus the two tolerated relaxations) and that feasible '
             'kernels are unchanged; NaiveBoundsConstraints likewise for the missing-value output.',
        note='Real arithmetic; TF op semantics per vf/interp.py (validated per case); z3 soundness; two-stage verdict '
             '(exact, then margin 1/64 on |w|<=64) so that only violations surviving rounding are reported.'),
    'C06': dict(
        engine=E1, design_ref='DESIGN.md 3/C06',
        technique='bounded symbolic execution of the traced TF graphs of LinearConstraints / CategoricalCalibrationConstraints over every DAG on <=4 nodes up to isomorphism + z3 (QF_LRA; r^2=x contract for the L2 norm)',
        text='For every partial order on up to 4 (thorough: 5) elements and every enumerated monotonicity / range / '
             'normalisation / bound setting, the solver decides over ALL real weight matrices that signs, every ordering '
             'pair, every monotonic- and range-dominance inequality, bounds and the unit norm hold after the constraint, '
             'and that feasible weights are unchanged.',
        note='Real arithmetic; Sqrt modelled by its defining contract; L2-norm queries are stretch (inconclusive allowed).'),
}

NOT_YET = 'check not built yet in this round (work in progress, see DESIGN.md)'


def main():
  props = [json.loads(l) for l in open(os.path.join(ROOT, 'properties.jsonl'))]
  checks = []
  na = []
  for p in props:
    pid = p['id']
    c = CHECKS.get(pid)
    if c is None:
      na.append(dict(property_id=pid, reason=NA.get(pid, NOT_YET)))
      continue
    checks.append(dict(
        property_id=pid,
        quick_cmd='./check %s --tier quick' % pid,
        thorough_cmd='./check %s --tier thorough' % pid,
        evidence_file='evidence/%s.json' % pid,
        replay_cmd_template='./check %s --replay {path}' % pid,
        engine=c['engine'],
        level_claimed=dict(category=c.get('category', 'model_checking'), text=c['text'], design_ref=c['design_ref']),
        level_note=c['note'],
        technique=c['technique']))
  man = dict(
      version=1,
      setup_cmd='bash ./setup.sh',
      hooks=dict(guard='TENSORFLOW_LATTICE_VERIF',
                 enable='no source hooks are needed: checks import tensorflow_lattice from /repo and trace it from outside; the variable is exported by ./check for uniformity',
                 baseline_off_cmd='cd /repo && /venv/bin/python -m pytest -ra -q -p no:cacheprovider --timeout=900 --continue-on-collection-errors',
                 source_commits=[], add_only=True),
      engines=[
          dict(name='symgraph', path='vf/interp.py', serves_properties=sorted(k for k, v in CHECKS.items() if v['engine'] == E1),
               kind_free_text='symbolic interpreter for TensorFlow graphs traced from the real tensorflow_lattice code (numpy object arrays of z3 terms / exact rationals, fraction lifting, contract stubs) + z3'),
          dict(name='crosshair-ast', path='vf/e2', serves_properties=sorted(k for k, v in CHECKS.items() if v['engine'] == 'crosshair-ast'),
               kind_free_text='CrossHair symbolic execution of pure-Python functions cut out of /repo with ast; RNG replaced by symbolic permutations'),
          dict(name='symreal', path='vf/e3', serves_properties=sorted(k for k, v in CHECKS.items() if v['engine'] == 'symreal'),
               kind_free_text='path-forking executor over z3 Reals with a validated pure-Python NumPy model, for NumPy-on-floats code'),
      ],
      checks=checks,
      notes='All checks: exit 0 held / 1 VIOLATION (replayed on the real code first) / 3 harness error. Known findings: known_findings.json.',
      not_applicable=na)
  with open(os.path.join(ROOT, 'MANIFEST.json'), 'w') as f:
    json.dump(man, f, indent=1)
  print('MANIFEST.json: %d checks, %d not_applicable' % (len(checks), len(na)))


NA = {}

if __name__ == '__main__':
  main()
