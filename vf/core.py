"""Query plumbing shared by all property modules (runs inside worker processes)."""
import hashlib
import inspect
import json
import os
import random
import time
from fractions import Fraction

import numpy as np
import z3

from vf import sym
from vf.sym import HarnessError, Frac, is_z, Z


# ---------------------------------------------------------------- tracing
class Traced(object):
  """A real tensorflow_lattice callable traced to a graph, runnable both by
  TensorFlow (concretely) and by the symbolic interpreter."""

  def __init__(self, fn, specs, name=None):
    import tensorflow as tf
    from vf import interp
    self.tf = tf
    self.name = name or getattr(fn, '__name__', 'fn')
    t0 = time.time()
    self.cf = tf.function(fn, autograph=False).get_concrete_function(*specs)
    self.trace_s = time.time() - t0
    self.specs = specs
    self.variables = list(self.cf.variables)
    self.n_nodes = len(self.cf.graph.get_operations())
    self.ops_seen = {}
    self.functions_run = set()
    self.assert_preds = []

  def sym_run(self, *args, **kw):
    from vf import interp
    var_values = kw.get('var_values') or {}
    it = interp.Interp(self.cf, var_values=var_values, stubs=kw.get('stubs'))
    outs = it.run(*args)
    for k, n in it.ops_seen.items():
      self.ops_seen[k] = self.ops_seen.get(k, 0) + n
    self.functions_run |= it.functions_run
    self.assert_preds = it.assert_preds
    self.last_interp = it
    return outs

  def tf_run(self, *np_args, **kw):
    tf = self.tf
    var_values = kw.get('var_values') or {}
    for v in self.variables:
      for k in (v.ref(), v.name, v.name.split(':')[0]):
        if k in var_values:
          v.assign(np.asarray(var_values[k], dtype=v.dtype.as_numpy_dtype))
    targs = [tf.constant(a, dtype=s.dtype) for a, s in zip(np_args, self.specs)]
    out = self.cf(*targs)
    flat = tf.nest.flatten(out)
    return [o.numpy() for o in flat]

  def validate(self, rng, n=2, var_shapes=None, gen=None, tol=1e-4, int_inputs=None):
    """Translator validation: interpreter (exact rationals) vs TensorFlow on
    concrete inputs.  Returns number of points compared; raises HarnessError on
    persistent mismatch."""
    mism = 0
    done = 0
    details = None
    for trial in range(n):
      args = []
      for i, s in enumerate(self.specs):
        shp = [int(d) for d in s.shape]
        if gen is not None:
          a = gen(rng, i, shp, trial)
        elif s.dtype.is_integer:
          a = rng.integers(0, 3, size=shp)
        else:
          a = dyadic(rng, shp, trial)
        args.append(np.asarray(a))
      vv = {}
      for v in self.variables:
        if var_shapes is not None and v.name in var_shapes:
          vv[v.name] = var_shapes[v.name](rng, trial)
      try:
        ref = self.tf_run(*args, var_values=vv)
      except self.tf.errors.InvalidArgumentError:
        continue  # a tf.Assert fired on the random point
      sym.new_ctx()
      sargs = [sym.obj(a) for a in args]
      svv = {k: sym.obj(np.asarray(a)) for k, a in vv.items()}
      got = self.sym_run(*sargs, var_values=svv)
      done += 1
      bad = False
      for r, g in zip(ref, got):
        g = np.asarray(g, dtype=object)
        if r.shape != g.shape:
          raise HarnessError('%s: validation shape mismatch %s vs %s' % (self.name, r.shape, g.shape))
        for x, y in zip(r.reshape(-1), g.reshape(-1)):
          y = frac_value(y)
          if y is None:
            if np.isfinite(x):
              bad = True
            continue
          if isinstance(y, sym.Inf):
            if not (float(x) == y.v or (x != x and y.v != y.v)):
              bad = True
            continue
          if isinstance(y, bool):
            if bool(x) != y:
              bad = True
            continue
          if not np.isfinite(x) or abs(float(x) - float(y)) > tol * max(1.0, abs(float(y))):
            bad = True
            details = (float(x), float(y))
      if bad:
        mism += 1
    if done and mism * 2 > done:
      raise HarnessError('%s: interpreter disagrees with TensorFlow on %d/%d points %s' %
                         (self.name, mism, done, details))
    return done, mism


def frac_value(y):
  if isinstance(y, Frac):
    if is_z(y.n) or is_z(y.d):
      raise HarnessError('symbolic value in concrete validation run')
    if y.d == 0:
      return None
    return Fraction(y.n) / Fraction(y.d)
  if is_z(y):
    y = z3.simplify(y)
    return sym.z3_to_py(y)
  return y


def dyadic(rng, shape, trial=0):
  """Random inputs that are exactly representable and make ties likely."""
  scale = [8, 4, 64, 2][trial % 4]
  a = rng.integers(-3 * scale, 3 * scale + 1, size=shape) / float(scale)
  return a.astype(np.float64)


# ---------------------------------------------------------------- solving
class Case(object):
  """Collects the queries of one configuration."""

  def __init__(self, prop, name, config):
    self.prop = prop
    self.name = name
    self.config = config
    self.results = []
    self.functions = []
    self.meta = {}
    self.t0 = time.time()

  def solve(self, qname, bad, assumptions=(), expect='unsat', timeout=60, witness=None,
            sig=None, required=True, kind='main', replay=None, note=None, logic=None, robust=None, probe=False,
            inline_replay=None, weak=False):
    """Ask the solver for a model of  assumptions AND ctx-assumptions AND bad.

    expect='unsat': property query (sat = candidate violation).
    expect='sat':   vacuity / sabotage twin (unsat = harness error).
    """
    c = sym.ctx()
    s = z3.Solver()
    s.set('timeout', int(timeout * 1000))
    for a in list(c.assumptions) + list(c.case_assumptions) + list(assumptions):
      s.add(a)
    if isinstance(bad, (list, tuple)):
      bad = z3.Or([sym.b(x) for x in bad]) if bad else z3.BoolVal(False)
    s.add(sym.b(bad))
    t = time.time()
    r = s.check()
    dt = time.time() - t
    verdict = str(r)
    res = dict(case=self.name, query=qname, verdict=verdict, expect=expect, solve_s=round(dt, 3),
               kind=kind, required=required, config=self.config)
    if note:
      res['note'] = note
    if verdict == 'unknown':
      res['reason'] = s.reason_unknown()
    if verdict == 'unsat' and expect == 'unsat':
      cr = cross_check(s, dt)
      if cr is not None:
        res['cross'] = cr
    if verdict == 'sat' and expect == 'unsat' and robust is not None:
      # Two-stage verdict (DESIGN 1.7): the exact question has a witness; ask
      # again for a witness that violates by a margin inside a stated box, so
      # that only violations that survive floating-point rounding are reported.
      s2 = z3.Solver()
      s2.set('timeout', int(timeout * 1000))
      for a in list(c.assumptions) + list(c.case_assumptions) + list(assumptions) + list(robust.get('assumptions', [])):
        s2.add(a)
      rb = robust['bad']
      if isinstance(rb, (list, tuple)):
        rb = z3.Or([sym.b(x) for x in rb]) if rb else z3.BoolVal(False)
      s2.add(sym.b(rb))
      t = time.time()
      r2 = s2.check()
      res['solve_s'] = round(dt + time.time() - t, 3)
      res['stage1'] = 'sat'
      res['stage2'] = str(r2)
      if r2 == z3.unsat:
        m1 = s.model()
        res['boundary_witness'] = {k: model_array(m1, arr) for k, arr in (witness or {}).items()}
        res['verdict'] = verdict = 'unsat'
        res['note'] = 'holds up to rounding: exact-arithmetic boundary witness only, none with margin %s' % robust.get('margin')
      elif r2 == z3.sat:
        s = s2
      else:
        res['weak_witness'] = True
    if verdict == 'sat' and expect == 'sat' and probe:
      # a satisfiable twin whose model is additionally run on the real code (e.g. eager-mode behaviour)
      m = s.model()
      res['witness'] = {k: model_array(m, arr) for k, arr in (witness or {}).items()}
      res['sig'] = sig(m) if callable(sig) else (sig or {})
      res['replay'] = replay
      res['probe'] = True
    if verdict == 'sat' and expect == 'unsat':
      m = s.model()
      w = {}
      for k, arr in (witness or {}).items():
        w[k] = model_array(m, arr)
      res['witness'] = w
      res['sig'] = sig(m) if callable(sig) else (sig or {})
      res['replay'] = replay
      if weak:
        res['weak_witness'] = True  # e.g. implementation-defined behaviour: a witness that happens to behave is inconclusive
      self.last_model = m
      if inline_replay is not None and not replay:
        # the witness is run on the real code right here (the traced objects live in this worker)
        try:
          res['replay_result'] = inline_replay(m)
        except Exception as e:  # pylint: disable=broad-except
          res['replay_result'] = dict(reproduced=False, detail='inline replay raised %s: %s' % (type(e).__name__, str(e)[:200]))
        res['replay'] = dict(fn='inline')
        if isinstance(res['replay_result'], dict) and res['replay_result'].get('weak'):
          res['weak_witness'] = True  # the replay could only sample the real code: not reproducing = inconclusive
    self.results.append(res)
    return verdict

  def identity(self, qname, pairs, assumptions=(), **kw):
    """Decide  AND_i a_i == b_i  (Frac-aware).  Polynomial pairs are first normalised by z3's rewriter
    (sum-of-monomials normal form of a_i - b_i, cross-multiplied for fractions): a zero normal form decides the
    identity; anything else goes to the solver as usual."""
    rest = []
    t = time.time()
    for a, b_ in pairs:
      if not poly_equal(a, b_):
        rest.append((a, b_))
    if not rest:
      self.results.append(dict(case=self.name, query=qname, verdict='unsat', expect='unsat', solve_s=round(time.time() - t, 3),
                               kind='main', required=kw.get('required', True), config=self.config,
                               note='decided by z3 rewriter: polynomial normal form of lhs-rhs is 0 (%d identities)' % len(pairs)))
      return 'unsat'
    extra = kw.pop('extra_bad', [])
    return self.solve(qname, any_of([sym.NE(a, b_) for a, b_ in rest] + list(extra)), assumptions=assumptions, **kw)

  def record(self, qname, verdict, expect='unsat', **kw):
    res = dict(case=self.name, query=qname, verdict=verdict, expect=expect, solve_s=0.0,
               kind=kw.pop('kind', 'main'), required=kw.pop('required', True), config=self.config)
    res.update(kw)
    self.results.append(res)

  def encoded(self, *fns):
    for f in fns:
      self.functions.append(fn_id(f))


_CROSS = dict(budget=None, spent=0.0)


def cross_check(solver, z3_s):
  """Second opinion (DESIGN 1.11): the query z3 answered `unsat` is printed as SMT-LIB2 (solver.to_smt2()) and given
  to cvc5 under a small time budget per worker process.  cvc5 `sat` = solver disagreement (harness error); `unknown`
  or timeout only means that no second opinion was obtained."""
  if _CROSS['budget'] is None:
    _CROSS['budget'] = float(os.environ.get('VERIF_CROSS_BUDGET', '20'))
  left = _CROSS['budget'] - _CROSS['spent']
  if left <= 0.5 or z3_s > 20:
    return None
  t = time.time()
  try:
    import cvc5
    txt = solver.to_smt2()
    tm = cvc5.TermManager()
    slv = cvc5.Solver(tm)
    slv.setOption('tlimit-per', str(int(min(left, 5.0) * 1000)))
    slv.setLogic('ALL')
    p = cvc5.InputParser(slv)
    p.setStringInput(cvc5.InputLanguage.SMT_LIB_2_6, txt, 'q')
    sm = p.getSymbolManager()
    out = 'unknown'
    while True:
      cmd = p.nextCommand()
      if cmd.isNull():
        break
      o = str(cmd.invoke(slv, sm)).strip()
      if o in ('sat', 'unsat', 'unknown'):
        out = o
    v = out
  except Exception as e:  # pylint: disable=broad-except
    v = 'error: %s' % str(e)[:120]
  dt = time.time() - t
  _CROSS['spent'] += dt
  return dict(solver='cvc5', verdict=v, s=round(dt, 3))


def split_run(build, extra=(), depth=0, budget=None, leaf=''):
  """Runs build(extra_conditions, leaf_id); when the interpreter reports that a cast / sort order is not determined
  (sym.NeedSplit) the case is split on the offending condition and both feasible halves are run (DESIGN 1.4)."""
  if budget is None:
    budget = [40]
  try:
    build(list(extra), leaf)
  except sym.NeedSplit as e:
    if depth > 24 or budget[0] <= 0:
      raise HarnessError('case needs too many splits (%s)' % e.why)
    c = sym.ctx()
    for tag, cond in (('+', e.cond), ('-', z3.Not(e.cond))):
      s = z3.Solver()
      s.set('timeout', 5000)
      s.add(*c.assumptions)
      s.add(*c.case_assumptions)
      s.add(cond)
      if s.check() == z3.unsat:
        continue
      budget[0] -= 1
      split_run(build, list(extra) + [cond], depth + 1, budget, leaf + tag)


def poly_equal(a, b_):
  """True iff a - b normalises to 0 as a polynomial (sound; incomplete in the presence of if-then-else)."""
  if isinstance(a, Frac) or isinstance(b_, Frac):
    an, ad = (a.n, a.d) if isinstance(a, Frac) else (a, 1)
    bn, bd = (b_.n, b_.d) if isinstance(b_, Frac) else (b_, 1)
    lhs, rhs = sym.s_mul(an, bd), sym.s_mul(bn, ad)
  else:
    lhs, rhs = a, b_
  if not is_z(lhs) and not is_z(rhs):
    return lhs == rhs
  d = z3.simplify(Z(lhs) - Z(rhs), som=True, arith_lhs=True, hoist_mul=False, flat=True)
  return z3.is_rational_value(d) and d.numerator_as_long() == 0


def model_np(m, arr, dtype=np.float64):
  """symbolic array -> numpy array of model values"""
  arr = np.asarray(arr, dtype=object)
  out = np.empty(arr.shape, dtype=dtype)
  for idx in np.ndindex(*arr.shape):
    v = sym.subst_value(arr[idx], m)
    out[idx] = float('nan') if v is None else float(v)
  return out


def compare_tf(m, sides, tol=1e-4):
  """Inline replay for equality queries: each side is (Traced, symbolic args, symbolic var_values, pick) where pick maps the list
  of TensorFlow outputs to a flat comparable array.  Runs the REAL traced functions with the witness values and compares."""
  vals = []
  for tr, args, vv, pick in sides:
    np_args = []
    for a, s_ in zip(args, tr.specs):
      a = model_np(m, a)
      np_args.append(a.astype(np.int64) if s_.dtype.is_integer else a)
    vvn = {k: model_np(m, v) for k, v in (vv or {}).items()}
    outs = tr.tf_run(*np_args, var_values=vvn)
    vals.append(np.asarray(pick(outs), dtype=np.float64).reshape(-1))
  ref = vals[0]
  worst = 0.0
  for v in vals[1:]:
    if v.shape != ref.shape:
      return dict(reproduced=True, detail=dict(shapes=[list(ref.shape), list(v.shape)]))
    if not (np.all(np.isfinite(v)) and np.all(np.isfinite(ref))):
      return dict(reproduced=True, detail=dict(non_finite=True))
    worst = max(worst, float(np.max(np.abs(v - ref))) if v.size else 0.0)
  scale = max(1.0, float(np.max(np.abs(ref))) if ref.size else 1.0)
  return dict(reproduced=bool(worst > tol * scale), detail=dict(max_abs_diff=worst, a=vals[0].tolist()[:12], b=vals[-1].tolist()[:12]))


def model_array(m, arr):
  arr = np.asarray(arr, dtype=object)
  out = np.empty(arr.shape, dtype=object)
  for idx in np.ndindex(*arr.shape):
    v = sym.subst_value(arr[idx], m)
    out[idx] = None if v is None else (str(v) if isinstance(v, Fraction) else v)
  return out.tolist()


def witness_np(w, dtype=np.float64):
  """witness (nested lists of fraction strings) -> numpy float array"""
  a = np.asarray(w, dtype=object)
  out = np.empty(a.shape, dtype=dtype)
  for idx in np.ndindex(*a.shape):
    out[idx] = float(Fraction(a[idx])) if isinstance(a[idx], str) else float(a[idx])
  return out


_FN_CACHE = {}


def fn_id(f):
  if f in _FN_CACHE:
    return _FN_CACHE[f]
  try:
    src = inspect.getsource(f)
    h = hashlib.sha1(src.encode()).hexdigest()[:12]
    mod = getattr(f, '__module__', '?')
    r = '%s.%s@%s' % (mod.replace('tensorflow_lattice.python.', ''), getattr(f, '__qualname__', str(f)), h)
  except (OSError, TypeError):
    r = str(f)
  _FN_CACHE[f] = r
  return r


def any_of(conds):
  conds = [sym.b(c) for c in conds]
  return z3.Or(conds) if conds else z3.BoolVal(False)


def all_of(conds):
  conds = [sym.b(c) for c in conds]
  return z3.And(conds) if conds else z3.BoolVal(True)


def neq_arrays(a, b_):
  """z3 Bool: arrays differ somewhere (Frac-aware)."""
  a = np.asarray(a, dtype=object)
  b_ = np.asarray(b_, dtype=object)
  if a.shape != b_.shape:
    raise HarnessError('neq_arrays shape %s vs %s' % (a.shape, b_.shape))
  return any_of([sym.NE(x, y) for x, y in zip(a.reshape(-1), b_.reshape(-1))])


def concretise_dens(arr, assumptions=(), timeout=20):
  """Replace n/D by n*(1/c) wherever the assumptions force D == c (constant).

  Sound: each replacement is justified by an `unsat` answer to
  assumptions AND D != c.  Keeps equality queries linear."""
  arr = np.asarray(arr, dtype=object)
  c = sym.ctx()
  base = list(c.assumptions) + list(c.case_assumptions) + [sym.b(a) for a in assumptions]
  cache = {}
  s = z3.Solver()
  s.set('timeout', int(timeout * 1000))
  s.add(*base)
  model = None
  out = np.empty(arr.shape, dtype=object)
  for idx in np.ndindex(*arr.shape):
    x = arr[idx]
    if not isinstance(x, Frac) or not is_z(x.d):
      out[idx] = x
      continue
    k = x.d.get_id()
    if k not in cache:
      val = None
      if model is None:
        if s.check() == z3.sat:
          model = s.model()
      if model is not None:
        cv = sym.subst_value(x.d, model)
        if cv is not None and cv != 0:
          s.push()
          s.add(x.d != Z(cv))
          c.side_queries += 1
          if s.check() == z3.unsat:
            val = cv
          s.pop()
      cache[k] = (x.d, val)
    val = cache[k][1]
    out[idx] = x if val is None else sym.s_mul(x.n, Fraction(1) / Fraction(val))
  return out


def far_arrays(a, b_, margin):
  """z3 Bool: arrays differ by more than margin somewhere."""
  a = np.asarray(a, dtype=object)
  b_ = np.asarray(b_, dtype=object)
  out = []
  for x, y in zip(a.reshape(-1), b_.reshape(-1)):
    d = sym.s_sub(x, y)
    out.append(sym.s_cmp('gt', d, margin))
    out.append(sym.s_cmp('lt', d, -margin))
  return any_of(out)


MARGIN = Fraction(1, 64)
BOX = 64


def robust_cons(cons, inputs, margin=MARGIN, bound=BOX, extra_bad=()):
  from vf import specs
  assumptions = []
  for arr in inputs:
    assumptions += box(arr, -bound, bound)
  return dict(bad=any_of(specs.violated(cons, margin) + list(extra_bad)), assumptions=assumptions,
              margin='%s on |inputs| <= %s' % (margin, bound))


def robust_neq(a, b_, inputs, margin=MARGIN, bound=BOX):
  assumptions = []
  for arr in inputs:
    assumptions += box(arr, -bound, bound)
  return dict(bad=far_arrays(a, b_, margin), assumptions=assumptions, margin='%s on |inputs| <= %s' % (margin, bound))


def box(arr, lo, hi):
  return [z3.And(Z(x) >= lo, Z(x) <= hi) for x in np.asarray(arr, dtype=object).reshape(-1) if is_z(x)]
