"""C06 - Linear / categorical weight constraints enforce signs, orderings, dominance, norm."""
import itertools
import json
from fractions import Fraction

import numpy as np
import z3

from vf import sym, specs, core
from vf.core import Case, Traced

PROP = 'C06'

META = dict(
    level='model_checking',
    technique='symbolic execution of the traced TF graphs of LinearConstraints.__call__ (linear_lib.project) and '
              'CategoricalCalibrationConstraints.__call__ (categorical_calibration_lib.project, '
              'internal_utils.approximately_project_categorical_partial_monotonicities); z3 QF_LRA '
              '(QF_NRA with an r^2 = sum w^2 contract for the L2 norm)',
    bounds=dict(
        quick='every DAG on 2-4 nodes up to isomorphism (randomly relabelled, edge order shuffled by VERIF_SEED) as '
              'categorical ordering graph and as linear monotonic-/range-dominance graph; units 1-2; bounds none/one/two-sided; '
              'normalization order none/1/2; all real weight matrices',
        thorough='every labelled DAG on 4 nodes (543) and 60 sampled DAGs on 5 nodes'),
    outside=['IEEE-754 rounding/overflow', 'graphs with more than 5 nodes', 'the 1e-8 "numerically zero" threshold is taken '
             'literally: norm(result) = 1 or norm(result) < 1e-8'],
    assumptions=['TF op semantics as in vf/interp.py (validated per case)', 'z3 is sound',
                 'Sqrt contract: r >= 0 and r*r = x'],
)


# ---------------------------------------------------------------- DAG enumeration
def all_dags(n):
  pairs = [(i, j) for i in range(n) for j in range(n) if i != j]
  out = []
  for k in range(1, len(pairs) + 1):
    for es in itertools.combinations(pairs, k):
      if any((j, i) in es for (i, j) in es):
        continue
      if _acyclic(n, es):
        out.append(es)
  return out


def _acyclic(n, es):
  adj = {i: [] for i in range(n)}
  for i, j in es:
    adj[i].append(j)
  state = {}

  def dfs(v):
    state[v] = 1
    for x in adj[v]:
      if state.get(x) == 1:
        return False
      if x not in state and not dfs(x):
        return False
    state[v] = 2
    return True
  return all(dfs(v) for v in range(n) if v not in state)


def canon(n, es):
  best = None
  for perm in itertools.permutations(range(n)):
    key = tuple(sorted((perm[i], perm[j]) for i, j in es))
    if best is None or key < best:
      best = key
  return best


def dags_up_to_iso(n):
  seen = {}
  for es in all_dags(n):
    c = canon(n, es)
    if c not in seen:
      # keep only graphs that touch every node (smaller ones are covered by smaller n + free nodes)
      seen[c] = es
  return sorted(seen.keys())


def relabel(n, es, rng):
  perm = list(rng.permutation(n))
  es2 = [(int(perm[i]), int(perm[j])) for i, j in es]
  rng.shuffle(es2)
  return [list(e) for e in es2]


# ---------------------------------------------------------------- categorical
def cat_cons(w, p):
  W = np.asarray(w, dtype=object)
  cons = []
  for u in range(W.shape[1]):
    for (i, j) in p['pairs']:
      cons.append(('ordering', ((i, j), u), sym.s_sub(W[j, u], W[i, u])))
    for i in range(W.shape[0]):
      if p['omin'] is not None:
        cons.append(('output_min', (i, u), sym.s_sub(W[i, u], Fraction(p['omin']))))
      if p['omax'] is not None:
        cons.append(('output_max', (i, u), sym.s_sub(Fraction(p['omax']), W[i, u])))
  return cons


def _mk_cat(p):
  from tensorflow_lattice.python import categorical_calibration_layer as CL
  return CL.CategoricalCalibrationConstraints(output_min=p['omin'], output_max=p['omax'],
                                              monotonicities=[tuple(e) for e in p['pairs']])


def case_categorical(**p):
  import tensorflow as tf
  from tensorflow_lattice.python import categorical_calibration_layer as CL, categorical_calibration_lib as cl, internal_utils as iu
  case = Case(PROP, p['name'], {k: v for k, v in p.items() if k != 'name'})
  case.encoded(CL.CategoricalCalibrationConstraints.__call__, cl.project,
               iu.approximately_project_categorical_partial_monotonicities, iu._topological_sort, iu._min_projection,
               iu._max_projection)
  con = _mk_cat(p)
  n, units = p['n'], p['units']
  tr = Traced(lambda w: con(w), [tf.TensorSpec([n, units], tf.float32)], name='CategoricalCalibrationConstraints')
  done, mism = tr.validate(np.random.default_rng(0), n=2)
  sym.new_ctx()
  w = sym.symbolic('w', (n, units))
  (out,) = tr.sym_run(w)
  case.meta.update(validation_points=done, validation_mismatch=mism, ops=tr.ops_seen, nodes=tr.n_nodes)
  cons = cat_cons(out, p)
  replay = dict(fn='categorical', params=p)
  sig = lambda m: dict(query='feasible', layer='categorical', kinds=sorted(set(k for k, _, _ in specs.first_violated(cons, m))))
  case.solve('feasible', core.any_of(specs.violated(cons)), witness=dict(w=w), timeout=60, sig=sig, replay=replay,
             robust=core.robust_cons(cons, [w]))
  cin = cat_cons(w, p)
  case.solve('twin:input-can-violate', core.any_of(specs.violated(cin)), expect='sat', kind='twin', timeout=30)
  case.solve('unchanged-if-feasible', core.neq_arrays(out, w), assumptions=specs.holds(cin), witness=dict(w=w), timeout=60,
             sig=dict(query='unchanged', layer='categorical'), replay=replay, robust=core.robust_neq(out, w, [w]))
  case.solve('twin:feasible-set-nonempty', z3.BoolVal(True), assumptions=specs.holds(cin), expect='sat', kind='twin', timeout=30)
  return case


# ---------------------------------------------------------------- linear
def _scal(p):
  s = []
  for m, lo, hi in zip(p['mono'], p['imin'], p['imax']):
    v = Fraction(-1 if m == -1 else 1)
    if lo is not None and hi is not None:
      v *= Fraction(hi) - Fraction(lo)
    s.append(v)
  return s


def lin_cons(w, p, with_norm=True):
  W = np.asarray(w, dtype=object)
  cons = []
  sc = _scal(p)
  for u in range(W.shape[1]):
    for i, m in enumerate(p['mono']):
      if m:
        cons.append(('monotonicity', (i, u), sym.s_mul(W[i, u], m)))
    for (d, k) in p['mdom']:
      cons.append(('monotonic_dominance', ((d, k), u), sym.s_sub(W[d, u], W[k, u])))
    for (d, k) in p['rdom']:
      cons.append(('range_dominance', ((d, k), u), sym.s_sub(sym.s_mul(W[d, u], sc[d]), sym.s_mul(W[k, u], sc[k]))))
  return cons


def norm_terms(W, order):
  """per unit: the quantity that must equal 1 (norm for order 1, squared norm for order 2)"""
  out = []
  for u in range(W.shape[1]):
    acc = 0
    for i in range(W.shape[0]):
      acc = sym.s_add(acc, sym.s_abs(W[i, u]) if order == 1 else sym.s_mul(W[i, u], W[i, u]))
    out.append(acc)
  return out


def _mk_lin(p):
  from tensorflow_lattice.python import linear_layer as LL
  return LL.LinearConstraints(monotonicities=list(p['mono']), monotonic_dominances=[tuple(e) for e in p['mdom']] or None,
                              range_dominances=[tuple(e) for e in p['rdom']] or None,
                              input_min=list(p['imin']) if any(x is not None for x in p['imin']) else None,
                              input_max=list(p['imax']) if any(x is not None for x in p['imax']) else None,
                              normalization_order=p['norm'])


def case_linear(**p):
  import tensorflow as tf
  from tensorflow_lattice.python import linear_layer as LL, linear_lib as ll, internal_utils as iu
  case = Case(PROP, p['name'], {k: v for k, v in p.items() if k != 'name'})
  case.encoded(LL.LinearConstraints.__call__, ll.project, iu.approximately_project_categorical_partial_monotonicities,
               iu._topological_sort, iu._min_projection, iu._max_projection)
  con = _mk_lin(p)
  n, units = len(p['mono']), p['units']
  tr = Traced(lambda w: con(w), [tf.TensorSpec([n, units], tf.float32)], name='LinearConstraints')
  done, mism = tr.validate(np.random.default_rng(0), n=2)
  sym.new_ctx()
  w = sym.symbolic('w', (n, units))
  (out,) = tr.sym_run(w)
  case.meta.update(validation_points=done, validation_mismatch=mism, ops=tr.ops_seen, nodes=tr.n_nodes,
                   stubs=sym.ctx().stubs)
  cons = lin_cons(out, p)
  replay = dict(fn='linear', params=p)
  bad = specs.violated(cons) + [z3.Not(sym.defined(x)) for x in out.reshape(-1)]
  tiny = Fraction(1, 10 ** 8)
  nbad = []
  if p['norm']:
    for t in norm_terms(out, p['norm']):
      thr = tiny if p['norm'] == 1 else tiny * tiny
      nbad.append(z3.And(sym.NE(t, 1), sym.GE(t, thr)))
  sig = lambda m: dict(query='feasible', layer='linear', kinds=sorted(set(k for k, _, _ in specs.first_violated(cons, m))))
  tmo = 60 if p['norm'] != 2 else 120
  case.solve('feasible', core.any_of(bad + nbad), witness=dict(w=w), timeout=tmo, sig=sig, replay=replay,
             robust=core.robust_cons(cons, [w]) if not p['norm'] else None, required=p['norm'] != 2)
  cin = lin_cons(w, p)
  if cin:
    case.solve('twin:input-can-violate', core.any_of(specs.violated(cin)), expect='sat', kind='twin', timeout=30)
  assume = specs.holds(cin)
  if p['norm']:
    assume = assume + [sym.EQ(t, 1) for t in norm_terms(w, p['norm'])]
  out_c = core.concretise_dens(out, assume)
  case.solve('unchanged-if-feasible', core.neq_arrays(out_c, w), assumptions=assume, witness=dict(w=w), timeout=tmo,
             sig=dict(query='unchanged', layer='linear'), replay=replay, required=p['norm'] != 2)
  case.solve('twin:feasible-set-nonempty', z3.BoolVal(True), assumptions=assume, expect='sat', kind='twin', timeout=30)
  return case


def replay(r):
  import tensorflow as tf
  p = r['replay']['params']
  w = core.witness_np(r['witness']['w'])
  scale = max(1.0, float(np.max(np.abs(w))))
  tol = 1e-4 * scale
  if r['replay']['fn'] == 'categorical':
    out = _mk_cat(p)(tf.constant(w, dtype=tf.float32)).numpy().astype(np.float64)
    consf, cin = cat_cons(sym.obj(out), p), cat_cons(sym.obj(w), p)
  else:
    out = _mk_lin(p)(tf.constant(w, dtype=tf.float32)).numpy().astype(np.float64)
    consf, cin = lin_cons(sym.obj(out), p), lin_cons(sym.obj(w), p)
  if r['query'] == 'feasible':
    if not np.all(np.isfinite(out)):
      return dict(reproduced=True, detail=dict(non_finite=True, out=out.tolist()))
    vals = [(c[0], str(c[1]), float(c[2])) for c in consf]
    worst = min(vals, key=lambda t: t[2]) if vals else ('none', '', 0.0)
    bad = worst[2] < -tol
    det = dict(worst=worst, out=out.tolist())
    if p.get('norm'):
      nt = [float(t) for t in norm_terms(sym.obj(out), p['norm'])]
      det['norm_terms'] = nt
      for t in nt:
        if abs(t - 1) > 1e-3 and t > 1e-6:
          bad = True
    return dict(reproduced=bool(bad), detail=det)
  feasible_in = all(float(c[2]) >= 0 for c in cin)
  diff = float(np.max(np.abs(out - w)))
  return dict(reproduced=bool(feasible_in and diff > tol), detail=dict(input_feasible=feasible_in, max_abs_change=diff))


# ---------------------------------------------------------------- cases
def cases(tier, seed):
  out = []
  rng = np.random.default_rng(seed)
  graphs = []
  for n in (2, 3, 4):
    for c in dags_up_to_iso(n):
      graphs.append((n, c))
  k = 0
  for n, es in graphs:
    pairs = relabel(n, es, rng)
    omin, omax = [(None, None), (0.0, 1.0), (-1.0, None), (None, 2.5)][k % 4]
    nm = 'cat-n%d-%s-b%s,%s' % (n, json.dumps(pairs, separators=(',', ':')), omin, omax)
    out.append(dict(name=nm, fn='case_categorical',
                    params=dict(name=nm, n=n + (k % 2), units=1 + (k % 2), pairs=pairs, omin=omin, omax=omax), cap=200))
    # linear: monotonic dominance graph over increasing dims, plus one extra dim
    extra = [0, -1, 1][k % 3]
    mono = [1] * n + [extra]
    norm = [None, 1, 2, None][k % 4]
    nm = 'lin-mdom-%s-x%d-norm%s' % (json.dumps(pairs, separators=(',', ':')), extra, norm)
    out.append(dict(name=nm, fn='case_linear',
                    params=dict(name=nm, mono=mono, mdom=pairs, rdom=[], imin=[None] * (n + 1), imax=[None] * (n + 1),
                                norm=norm, units=1 + (k % 2)), cap=300, required=norm != 2))
    # linear: range dominance graph (all same direction), ranges dyadic
    d = [1, -1][k % 2]
    rngs = [(0.0, 1.0), (-1.0, 1.0), (0.5, 0.75), (0.0, 4.0)]
    imin = [rngs[(i + k) % 4][0] for i in range(n)] + [None]
    imax = [rngs[(i + k) % 4][1] for i in range(n)] + [2.0]
    norm = [None, 1, None, 2][k % 4]
    nm = 'lin-rdom-%s-d%d-norm%s' % (json.dumps(pairs, separators=(',', ':')), d, norm)
    out.append(dict(name=nm, fn='case_linear',
                    params=dict(name=nm, mono=[d] * n + [0], mdom=[], rdom=pairs, imin=imin, imax=imax, norm=norm,
                                units=1 + ((k + 1) % 2)), cap=300, required=norm != 2))
    k += 1
  # plain sign constraints and normalisation only
  for mono in ([1, -1, 0], [1, 1], [0, 0, 0], [-1, -1, 1, 0]):
    for norm in (None, 1, 2):
      nm = 'lin-signs-%s-norm%s' % (''.join(str(m) for m in mono), norm)
      out.append(dict(name=nm, fn='case_linear',
                      params=dict(name=nm, mono=mono, mdom=[], rdom=[], imin=[None] * len(mono), imax=[None] * len(mono),
                                  norm=norm, units=2), cap=300, required=norm != 2))
  # bounds whose value is 0.0 (falsy), one- and two-sided, with and without ordering pairs
  for (omin, omax) in ((-1.0, 0.0), (None, 0.0), (0.0, None), (0.0, 0.0), (0, 2)):
    for pairs in ([], [[0, 1]], [[0, 1], [0, 2], [1, 3], [2, 3]]):
      nm = 'cat-zero-%s-b%s,%s' % (json.dumps(pairs, separators=(',', ':')), omin, omax)
      out.append(dict(name=nm, fn='case_categorical', params=dict(name=nm, n=4, units=2, pairs=pairs, omin=omin, omax=omax), cap=200))
  # mixed: monotonic dominance and range dominance on disjoint dims
  nm = 'lin-mixed'
  out.append(dict(name=nm, fn='case_linear',
                  params=dict(name=nm, mono=[1, 1, -1, -1, 0], mdom=[[0, 1]], rdom=[[2, 3]], imin=[None, None, 0.0, -1.0, None],
                              imax=[None, None, 2.0, 0.0, None], norm=1, units=2), cap=300))
  if tier == 'thorough':
    lab = all_dags(4)
    for i, es in enumerate(lab):
      pairs = [list(e) for e in es]
      omin, omax = [(None, None), (0.0, 1.0)][i % 2]
      nm = 'cat4-%s-b%s' % (json.dumps(pairs, separators=(',', ':')), omin)
      out.append(dict(name=nm, fn='case_categorical', params=dict(name=nm, n=4, units=1, pairs=pairs, omin=omin, omax=omax),
                      cap=300, required=False))
      if i % 3 == 0:
        nm = 'lin4-mdom-%s' % json.dumps(pairs, separators=(',', ':'))
        out.append(dict(name=nm, fn='case_linear',
                        params=dict(name=nm, mono=[1, 1, 1, 1], mdom=pairs, rdom=[], imin=[None] * 4, imax=[None] * 4,
                                    norm=[None, 1][i % 2], units=1), cap=300, required=False))
    five = all_dags_sample(5, 60, rng)
    for i, es in enumerate(five):
      pairs = [list(e) for e in es]
      nm = 'cat5-%s' % json.dumps(pairs, separators=(',', ':'))
      out.append(dict(name=nm, fn='case_categorical', params=dict(name=nm, n=5, units=1, pairs=pairs, omin=0.0, omax=1.0),
                      cap=600, required=False))
  return out


def all_dags_sample(n, count, rng):
  out = []
  pairs = [(i, j) for i in range(n) for j in range(i + 1, n)]
  tries = 0
  while len(out) < count and tries < 10000:
    tries += 1
    k = int(rng.integers(2, len(pairs) + 1))
    idx = rng.choice(len(pairs), size=k, replace=False)
    es = [pairs[int(i)] for i in idx]
    perm = list(rng.permutation(n))
    es = [(int(perm[a]), int(perm[b])) for a, b in es]
    rng.shuffle(es)
    if tuple(sorted(es)) not in [tuple(sorted(o)) for o in out]:
      out.append(es)
  return out
