"""C01 - Lattice weight constraint returns kernels meeting every strict shape constraint."""
import itertools
import json
from fractions import Fraction

import numpy as np
import z3

from vf import sym, specs, core
from vf.core import Case, Traced

PROP = 'C01'

META = dict(
    level='model_checking',
    technique='symbolic execution of the traced TensorFlow graph of LatticeConstraints.__call__ / '
              'finalize_constraints over rational-function terms; z3 (QF_LRA after fraction lifting)',
    bounds=dict(
        quick='lattice rank 2-3 with sizes in {2,3}; units 1-2; all kernels in R^(prod(sizes) x units) (unbounded reals); '
              'Dykstra iterations 0,1,2 in front of the strict finalisation; bounds none/one-sided/two-sided',
        thorough='adds one dimension of size 4, rank 4 all-2, units 3, up to 2 Edgeworth and 2 trapezoid trusts, '
                 'random (VERIF_SEED) dyadic bounds'),
    outside=['IEEE-754 rounding/overflow (real arithmetic is decided)', 'lattice shapes beyond the bounds',
             'trapezoid inequalities when >=2 trapezoid trusts share a conditional feature and Edgeworth trusts exist '
             '(documented exception)'],
    assumptions=['TensorFlow kernels implement the op semantics of vf/interp.py (validated per case against TF on '
                 'concrete points)', 'z3 is sound', 'reference predicates in vf/specs.py state the documented constraints'],
)


def _mk_constraint(sizes, mono, edge, trap, omin, omax, iters, strict=True, uni=None, mdom=None, rdom=None,
                   jmono=None, juni=None):
  from tensorflow_lattice.python import lattice_layer as LL
  return LL.LatticeConstraints(
      lattice_sizes=list(sizes), monotonicities=list(mono), unimodalities=list(uni) if uni else None,
      edgeworth_trusts=[tuple(t) for t in edge] or None, trapezoid_trusts=[tuple(t) for t in trap] or None,
      monotonic_dominances=[tuple(t) for t in mdom] if mdom else None,
      range_dominances=[tuple(t) for t in rdom] if rdom else None,
      joint_monotonicities=[tuple(t) for t in jmono] if jmono else None,
      joint_unimodalities=[(tuple(t[0]), t[1]) for t in juni] if juni else None,
      output_min=omin, output_max=omax, num_projection_iterations=iters, enforce_strict_monotonicity=strict)


def _strict_cons(out, sizes, units, mono, edge, trap, omin, omax):
  """Constraints C01 promises after strict projection, minus the documented exception."""
  cons = specs.lattice_constraints(out, sizes, units, monotonicities=mono, edgeworth=edge, trapezoid=trap,
                                   output_min=omin, output_max=omax)
  if edge:
    conds = [t[1] for t in trap]
    shared = set(c for c in conds if conds.count(c) > 1)
    if shared:
      cons = [c for c in cons if not (c[0] == 'trapezoid' and c[1][0][1] in shared)]
  return cons


def _all_cons(w, sizes, units, p):
  return specs.lattice_constraints(
      w, sizes, units, monotonicities=p['mono'], unimodalities=p.get('uni'), edgeworth=p['edge'],
      trapezoid=p['trap'], monotonic_dominances=p.get('mdom'), range_dominances=p.get('rdom'),
      joint_monotonicities=p.get('jmono'), output_min=p['omin'], output_max=p['omax'])


def _sig(p, cons, m, query):
  bad = specs.first_violated(cons, m)
  kinds = sorted(set(k for k, _, _ in bad))
  trap_conds = sorted(set(t[1] for t in p['trap']))
  mono_dims = sorted(set(loc[0] for k, loc, _ in bad if k == 'monotonicity'))
  return dict(query=query, kinds=kinds, has_edgeworth=bool(p['edge']), has_trapezoid=bool(p['trap']),
              violated_monotone_dims_are_trapezoid_conditional=bool(mono_dims) and all(d in trap_conds for d in mono_dims),
              only=kinds[0] if len(kinds) == 1 else 'several')


def case_constraint(**p):
  from tensorflow_lattice.python import lattice_lib as ll, lattice_layer as LL
  import tensorflow as tf
  sizes, units = list(p['sizes']), p['units']
  n = int(np.prod(sizes))
  case = Case(PROP, p['name'], {k: v for k, v in p.items() if k != 'name'})
  case.encoded(LL.LatticeConstraints.__call__, ll.finalize_constraints, ll._approximately_project_monotonicity,
               ll._approximately_project_edgeworth, ll._approximately_project_trapezoid,
               ll._trapezoid_violation_update, ll._approximately_project_bounds, ll.project_by_dykstra)
  try:
    con = _constraint_of(p)
  except ValueError as e:
    if p.get('via') != 'layer':
      raise
    # e.g. a one-sided non-positive upper bound: the layer's default initialisation range is empty and build() rejects it
    case.record('configuration-rejected-up-front', 'unsat', kind='structural', witness={}, replay=None, sig=dict(query='rejected'),
                note='ValueError: %s' % str(e)[:160])
    return case
  if p.get('via') == 'layer':
    case.encoded(LL.Lattice.build)
  tr = Traced(lambda w: con(w), [tf.TensorSpec([n, units], tf.float32)], name='LatticeConstraints')
  rng = np.random.default_rng(p.get('seed', 0))
  done, mism = tr.validate(rng, n=2)
  sym.new_ctx()
  w = sym.symbolic('w', (n, units))
  (out,) = tr.sym_run(w)
  case.meta.update(validation_points=done, validation_mismatch=mism, ops=tr.ops_seen, nodes=tr.n_nodes,
                   stubs=sym.ctx().stubs)
  cons = _strict_cons(out, sizes, units, p['mono'], p['edge'], p['trap'], p['omin'], p['omax'])
  den_ok = [sym.defined(x) for x in out.reshape(-1)]
  replay = dict(fn='constraint', params=p)
  if cons:
    case.solve('feasible', core.any_of(specs.violated(cons) + [z3.Not(d) for d in den_ok]),
               witness=dict(w=w), timeout=p.get('timeout', 120),
               sig=lambda m: _sig(p, cons, m, 'feasible'), replay=replay,
               robust=core.robust_cons(cons, [w], extra_bad=[z3.Not(d) for d in den_ok]))
    # sabotage twin: the same predicate on the unprojected kernel must be violable
    cons_in = _strict_cons(w, sizes, units, p['mono'], p['edge'], p['trap'], p['omin'], p['omax'])
    case.solve('twin:input-can-violate', core.any_of(specs.violated(cons_in)), expect='sat', kind='twin', timeout=30)
  # feasible => unchanged
  allc = _all_cons(w, sizes, units, p)
  if p.get('juni'):
    pass  # joint unimodality has no reference predicate here: unchanged-claim skipped for such configs
  else:
    out_c = core.concretise_dens(out, specs.holds(allc))
    case.solve('unchanged-if-feasible', core.neq_arrays(out_c, w), assumptions=specs.holds(allc),
               witness=dict(w=w), timeout=p.get('timeout', 120), robust=core.robust_neq(out_c, w, [w]),
               sig=lambda m: dict(query='unchanged', has_edgeworth=bool(p['edge']), has_trapezoid=bool(p['trap'])),
               replay=replay)
    case.solve('twin:feasible-set-nonempty', z3.BoolVal(True), assumptions=specs.holds(allc), expect='sat',
               kind='twin', timeout=30)
  return case


def _constraint_of(p):
  """the constraint object of the configuration: built directly, or taken from a really built Lattice layer
  (its kernel constraint, or the strict copy that finalize_constraints() applies)"""
  from tensorflow_lattice.python import lattice_layer as LL
  sizes, units = list(p['sizes']), p['units']
  if p.get('via') == 'layer':
    layer = LL.Lattice(lattice_sizes=sizes, units=units, monotonicities=p['mono'],
                       unimodalities=p.get('uni'), edgeworth_trusts=[tuple(t) for t in p['edge']] or None,
                       trapezoid_trusts=[tuple(t) for t in p['trap']] or None,
                       output_min=p['omin'], output_max=p['omax'], monotonic_at_every_step=p.get('strict', True),
                       num_projection_iterations=p['iters'])
    layer.build([None, units, len(sizes)] if units > 1 else [None, len(sizes)])
    con = layer._final_constraints if p.get('final') else layer.kernel.constraint
    if p.get('final'):
      # finalize_constraints() runs 20 Dykstra iterations first; since the strict stage accepts an arbitrary kernel
      # the claim for it is the iters=0 claim; here we shorten the loop to keep the formula small.
      con.num_projection_iterations = p['iters']
    return con
  return _mk_constraint(sizes, p['mono'], p['edge'], p['trap'], p['omin'], p['omax'], p['iters'],
                        uni=p.get('uni'), mdom=p.get('mdom'), rdom=p.get('rdom'), jmono=p.get('jmono'),
                        juni=p.get('juni'))


def replay(r):
  """Re-run a witness on the real code, eagerly, through the same constraint object the case encoded."""
  import tensorflow as tf
  p = r['replay']['params']
  sizes, units = list(p['sizes']), p['units']
  con = _constraint_of(p)
  w = core.witness_np(r['witness']['w'])
  res = {}
  reproduced = False
  for dt in (tf.float32, tf.float64):
    out = con(tf.constant(w, dtype=dt)).numpy().astype(np.float64)
    scale = max(1.0, float(np.max(np.abs(w))))
    tol = 1e-4 * scale
    if r['query'] == 'feasible':
      cons = _strict_cons(sym.obj(out), sizes, units, p['mono'], p['edge'], p['trap'], p['omin'], p['omax'])
      if not np.all(np.isfinite(out)):
        worst = ('non-finite', None, float('nan'))
        bad = True
      else:
        vals = [(c[0], str(c[1]), float(c[2])) for c in cons]
        worst = min(vals, key=lambda t: t[2])
        bad = worst[2] < -tol
      res[dt.name] = dict(worst=worst, violated=bad)
    else:
      allc = _all_cons(sym.obj(w), sizes, units, p)
      feasible_in = all(float(c[2]) >= 0 for c in allc)
      diff = float(np.max(np.abs(out - w)))
      bad = feasible_in and diff > tol
      res[dt.name] = dict(input_feasible=feasible_in, max_abs_change=diff, violated=bad)
    reproduced = reproduced or bad
  return dict(reproduced=reproduced, detail=res, kernel=w.tolist())


# ---------------------------------------------------------------- configuration enumeration
def _name(p):
  def t(x):
    return json.dumps(x, separators=(',', ':'))
  return 's%s-u%d-m%s-e%s-t%s-b%s,%s-i%d%s' % (
      'x'.join(map(str, p['sizes'])), p['units'], ''.join(map(str, p['mono'])), t(p['edge']), t(p['trap']),
      p['omin'], p['omax'], p['iters'],
      ''.join('-%s%s' % (k, t(p[k])) for k in ('uni', 'mdom', 'rdom', 'jmono', 'juni', 'via', 'final') if p.get(k)))


def _valid(sizes, mono, edge, trap):
  mains = set(t[0] for t in edge + trap)
  conds = set(t[1] for t in edge + trap)
  if mains & conds:
    return False
  for t in edge + trap:
    if not mono[t[0]] or t[0] == t[1]:
      return False
  dirs = {}
  for t in edge + trap:
    if dirs.setdefault((t[0], t[1]), t[2]) != t[2]:
      return False
  return True


def cases(tier, seed):
  out = []

  def add(cap=300, required=True, **p):
    p.setdefault('edge', [])
    p.setdefault('trap', [])
    p.setdefault('omin', None)
    p.setdefault('omax', None)
    p.setdefault('iters', 0)
    p['edge'] = [list(t) for t in p['edge']]
    p['trap'] = [list(t) for t in p['trap']]
    p['name'] = _name(p)
    if any(c['name'] == p['name'] for c in out):
      return
    out.append(dict(name=p['name'], fn='case_constraint', params=p, cap=cap, required=required))

  bounds_q = [(None, None), (0.0, 1.0), (-1.0, None), (None, 2.5)]
  # --- monotonicity only, all subsets, several shapes
  for sizes in ([2, 2], [3, 3], [2, 3, 2]):
    nd = len(sizes)
    for mono in itertools.product([0, 1], repeat=nd):
      if not any(mono):
        continue
      for (omin, omax) in bounds_q[:2]:
        add(sizes=sizes, units=2 if nd == 2 else 1, mono=list(mono), omin=omin, omax=omax)
  # no monotonicity at all: constraint = clip
  add(sizes=[2, 3], units=2, mono=[0, 0], omin=0.0, omax=1.0)
  # --- trusts: every single trust of either direction, monotone or free conditional feature
  for sizes in ([2, 2], [3, 3]):
    for cond_mono in (0, 1):
      for dr in (1, -1):
        for (omin, omax) in bounds_q:
          add(sizes=sizes, units=2, mono=[1, cond_mono], edge=[(0, 1, dr)], omin=omin, omax=omax)
          add(sizes=sizes, units=2, mono=[1, cond_mono], trap=[(0, 1, dr)], omin=omin, omax=omax)
          add(sizes=sizes, units=2, mono=[1, cond_mono], edge=[(0, 1, dr)], trap=[(0, 1, dr)], omin=omin, omax=omax)
  # --- rank 3: non-matching pairs, shared main, free third dimension, units reduce over the right axes
  r3 = [
      dict(mono=[1, 0, 0], edge=[(0, 1, 1)], trap=[(0, 2, 1)]),
      dict(mono=[1, 1, 0], edge=[(0, 2, 1)], trap=[(1, 2, -1)]),
      dict(mono=[1, 1, 1], edge=[(0, 2, 1)], trap=[(0, 1, 1)]),
      dict(mono=[1, 1, 0], edge=[(0, 2, -1), (1, 2, 1)]),
      dict(mono=[1, 1, 0], trap=[(0, 2, 1), (1, 2, 1)]),
      dict(mono=[1, 0, 1], edge=[(0, 1, 1)], trap=[(2, 1, -1)]),
      dict(mono=[1, 0, 0], edge=[(0, 1, 1), (0, 2, -1)], trap=[(0, 1, 1)]),
  ]
  for sizes in ([2, 2, 2], [3, 2, 2]):
    for cfg in r3:
      for (omin, omax) in ((None, None), (-1.0, 2.5)):
        add(sizes=sizes, units=2 if sizes == [2, 2, 2] else 1, omin=omin, omax=omax, **cfg)
  # --- several trapezoid trusts on different conditional features, Edgeworth trusts matching the first / the second / both
  for cfg in (dict(mono=[1, 0, 0], edge=[(0, 2, 1)], trap=[(0, 1, 1), (0, 2, 1)]),
              dict(mono=[1, 0, 0], edge=[(0, 2, 1), (0, 1, 1)], trap=[(0, 1, 1), (0, 2, 1)]),
              dict(mono=[1, 0, 0], edge=[(0, 1, -1)], trap=[(0, 2, 1), (0, 1, -1)])):
    add(sizes=[3, 3, 3], units=1, omin=None, omax=None, **cfg)
    add(sizes=[3, 3, 3], units=2, omin=0.0, omax=1.0, **cfg)
  # --- Dykstra iterations in front (wiring between the two stages), other families alongside
  for it in (1, 2):
    add(sizes=[3, 3], units=2, mono=[1, 1], edge=[(0, 1, 1)], trap=[(0, 1, 1)], omin=0.0, omax=1.0, iters=it)
    add(sizes=[2, 3], units=1, mono=[1, 0], edge=[(0, 1, -1)], omax=1.0, iters=it)
  add(sizes=[3, 3], units=1, mono=[1, 1], mdom=[(0, 1)], omin=0.0, omax=1.0, iters=1)
  add(sizes=[3, 3], units=1, mono=[1, 1], rdom=[(0, 1)], iters=1)
  add(sizes=[3, 3], units=1, mono=[1, 1], jmono=[(0, 1)], edge=[(0, 1, 1)] if False else [], iters=1)
  add(sizes=[2, 3, 2], units=1, mono=[1, 0, 0], uni=[0, 1, 0], edge=[(0, 2, 1)], omin=0.0, omax=1.0, iters=1)
  add(sizes=[2, 3], units=2, mono=[0, 0], jmono=[(0, 1)], iters=1, omin=0.0, omax=1.0)
  # --- through the real layer: kernel.constraint and the stored _final_constraints
  add(sizes=[2, 3], units=2, mono=[1, 1], edge=[(0, 1, 1)], omin=0.0, omax=1.0, iters=1, via='layer')
  add(sizes=[2, 3], units=2, mono=[1, 1], edge=[(0, 1, 1)], omin=0.0, omax=1.0, iters=1, via='layer', final=True,
      strict=False)
  add(sizes=[3, 2], units=1, mono=[1, 0], trap=[(0, 1, -1)], omin=-1.0, omax=None, iters=0, via='layer', final=True,
      strict=False)

  if tier == 'thorough':
    rng = np.random.default_rng(seed)
    # full product for rank 2 with sizes up to 4
    for sizes in ([2, 4], [4, 2], [3, 4], [4, 4]):
      for cond_mono in (0, 1):
        for dr in (1, -1):
          for (omin, omax) in bounds_q:
            for units in (1, 3):
              add(sizes=sizes, units=units, mono=[1, cond_mono], edge=[(0, 1, dr)], trap=[(0, 1, dr)], omin=omin, omax=omax,
                  required=False)
              add(sizes=sizes, units=units, mono=[1, cond_mono], trap=[(0, 1, dr)], omin=omin, omax=omax, required=False)
              add(sizes=sizes, units=units, mono=[1, cond_mono], edge=[(0, 1, dr)], omin=omin, omax=omax, required=False)
    # rank 3: all valid combos of <=2 edgeworth and <=2 trapezoid trusts over dims
    trusts = [(m, c, d) for m in range(3) for c in range(3) if m != c for d in (1, -1)]
    combos = []
    for ne in range(0, 3):
      for nt in range(0, 3):
        if ne + nt == 0:
          continue
        for es in itertools.combinations(trusts, ne):
          for ts in itertools.combinations(trusts, nt):
            combos.append((list(es), list(ts)))
    rng.shuffle(combos)
    cnt = 0
    for es, ts in combos:
      for mono in itertools.product([0, 1], repeat=3):
        if _valid([2, 2, 2], list(mono), es, ts) and rng.random() < 0.9:
          lo = float(rng.integers(-8, 8)) / 4
          hi = lo + float(rng.integers(1, 16)) / 4
          b = [(None, None), (lo, hi), (lo, None), (None, hi)][int(rng.integers(0, 4))]
          sizes = [[2, 2, 2], [3, 2, 2], [2, 3, 2], [2, 2, 3], [3, 3, 2], [3, 2, 3], [2, 3, 3], [3, 3, 3]][int(rng.integers(0, 8))]
          via = dict(via='layer', final=True, strict=False) if rng.random() < 0.15 else {}
          add(sizes=sizes, units=int(rng.integers(1, 4)), mono=list(mono), edge=es, trap=ts, omin=b[0], omax=b[1],
              required=False, cap=600, **via)
          cnt += 1
      if cnt >= 1500:
        break
    # rank 4 all-2
    add(sizes=[2, 2, 2, 2], units=1, mono=[1, 1, 0, 1], edge=[(0, 2, 1)], trap=[(1, 2, -1)], omin=0.0, omax=1.0,
        required=False, cap=900)
    add(sizes=[2, 2, 2, 2], units=2, mono=[1, 0, 0, 0], edge=[(0, 1, 1), (0, 2, 1)], trap=[(0, 3, 1)], required=False,
        cap=900)
    for it in (3, 4):
      add(sizes=[3, 3], units=1, mono=[1, 1], edge=[(0, 1, 1)], trap=[(0, 1, 1)], omin=0.0, omax=1.0, iters=it,
          required=False, cap=900)
  return out
