#!/bin/bash
# usage: tools/seed_matrix_wt.sh [names...]  -- like seed_matrix.sh but every change is applied to a scratch worktree (VERIF_REPO),
# /repo itself stays untouched. Records the outcome in seeded/<name>/meta.json ("detected_by").
cd "$(dirname "$0")/.."
NAMES=${@:-$(ls seeded)}
for name in $NAMES; do
  P=/verif/seeded/$name/patch.diff
  [ -f $P ] || continue
  id=${name:0:3}
  WT=$(mktemp -d /tmp/wt_mx_XXXXXX); rmdir $WT
  git -C /repo worktree add --detach $WT HEAD -q || continue
  ( cd $WT && git apply $P ) || { echo "$name: patch does not apply"; git -C /repo worktree remove --force $WT; continue; }
  VERIF_REPO=$WT ./check $id --no-evidence > /tmp/seedrun_${name}.log 2>&1
  rc=$?
  git -C /repo worktree remove --force $WT
  echo "$name -> $id:rc=$rc"
  /venv/bin/python - "$name" "$id" "$rc" <<'PY'
import json, sys
name, cid, rc = sys.argv[1:4]
p = '/verif/seeded/%s/meta.json' % name
m = json.load(open(p))
m['detected_by'] = {cid: ('VIOLATION reported (exit 1)' if rc == '1' else 'not detected (exit %s)' % rc)}
m['detection_cmd'] = 'git worktree add <wt> HEAD; git -C <wt> apply seeded/%s/patch.diff; VERIF_REPO=<wt> ./check %s --tier quick' % (name, cid)
json.dump(m, open(p, 'w'), indent=1)
PY
done
