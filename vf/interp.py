"""Symbolic interpreter for TensorFlow graphs (engine E1, DESIGN 1).

A traced `ConcreteFunction` of real tensorflow_lattice code is executed over
numpy object arrays whose elements are exact rationals or z3 terms (vf.sym).
Control flow (`While`, `If`, function calls) is executed, never abstracted:
loop counters are concrete in every traced graph of this library.
"""
import os
os.environ.setdefault('TF_CPP_MIN_LOG_LEVEL', '3')
os.environ.setdefault('CUDA_VISIBLE_DEVICES', '')
from fractions import Fraction
import math
import numpy as np
import z3
import tensorflow as tf
from tensorflow.python.framework import tensor_util
from tensorflow.python.framework import function_def_to_graph

from vf import sym
from vf.sym import HarnessError, Frac, is_z, is_sym, Z


class NoIndex(object):
  """sort indices of a symbolically sorted row: any use is a harness error"""

  def __int__(self):
    raise HarnessError('indices of a symbolic sort were used')
  __index__ = __int__


class VarRef(object):
  """A resource handle flowing through the graph."""

  def __init__(self, key):
    self.key = key


def _ints(a):
  return [int(x) for x in np.asarray(a, dtype=object).reshape(-1)]


def _int(a):
  return int(sym.scalar(a))


def _arr(x):
  if isinstance(x, np.ndarray) and x.dtype == object:
    return x
  a = np.empty((), dtype=object)
  a[()] = x
  return a


class Interp(object):

  def __init__(self, cf, var_values=None, stubs=None):
    """cf: ConcreteFunction. var_values: {variable.ref() or name: object array}."""
    self.cf = cf
    self.root_graph = cf.graph
    self.var_values = var_values or {}
    self.ops_seen = {}
    self.functions_run = set()
    self._lib = None
    self._fg = {}
    self.assert_preds = []   # predicates of tf.Assert ops ('If'/'Assert')
    self.stubs = stubs or {}
    self.nodes = 0

  # ------------------------------------------------------------ top level
  def run(self, *args):
    cf = self.cf
    env = {}
    ninputs = len(cf.inputs) - len(cf.graph.captures)
    user_inputs = cf.inputs[:ninputs]
    if len(args) != len(user_inputs):
      raise HarnessError('expected %d inputs, got %d' % (len(user_inputs), len(args)))
    for t, a in zip(user_inputs, args):
      a = np.asarray(a, dtype=object)
      if tuple(t.shape.as_list()) != a.shape:
        raise HarnessError('input shape mismatch %s vs %s' % (t.shape, a.shape))
      env[t.name] = a
    self._bind_captures(cf, env)
    self.env = env
    outs = [self.eval_tensor(self.root_graph, t, env) for t in cf.outputs]
    # Asserts are side effects: evaluate all of them.
    for op in self.root_graph.get_operations():
      if op.type in ('If', 'StatelessIf', 'Assert'):
        self.eval_op(self.root_graph, op, env)
    return outs

  def _bind_captures(self, cf, env):
    vars_by_handle = {}
    for v in cf.variables:
      vars_by_handle[id(v.handle)] = v
    for ext, inner in cf.graph.captures:
      if ext.dtype == tf.resource:
        v = vars_by_handle.get(id(ext))
        if v is None:
          for vv in cf.variables:
            if vv.handle is ext:
              v = vv
        if v is None:
          raise HarnessError('unbound resource capture %s' % inner.name)
        env[inner.name] = _arr(VarRef(v))
      else:
        env[inner.name] = sym.obj(ext.numpy())

  def var_value(self, ref):
    v = ref.key
    for k in (v.ref(), v.name, v.name.split(':')[0]):
      if k in self.var_values:
        return self.var_values[k]
    return sym.obj(v.numpy())

  # ------------------------------------------------------------ evaluation
  def eval_tensor(self, graph, t, env):
    if t.name in env:
      return env[t.name]
    self.eval_op(graph, t.op, env)
    return env[t.name]

  def eval_op(self, graph, op, env):
    stack = [op]
    while stack:
      o = stack[-1]
      key = '^' + o.name
      if key in env:
        stack.pop()
        continue
      pending = [i.op for i in o.inputs if i.name not in env]
      if pending:
        stack.extend(pending)
        continue
      vals = [env[i.name] for i in o.inputs]
      res = self.exec_op(o, vals)
      self.nodes += 1
      if len(res) != len(o.outputs):
        raise HarnessError('op %s (%s): %d results for %d outputs' %
                           (o.name, o.type, len(res), len(o.outputs)))
      for ot, r in zip(o.outputs, res):
        if not isinstance(r, np.ndarray):
          r = _arr(r)
        shp = ot.shape
        if shp.rank is not None and shp.is_fully_defined() and r.dtype == object:
          if tuple(shp.as_list()) != r.shape and ot.dtype != tf.resource and ot.dtype != tf.variant:
            raise HarnessError('op %s (%s): shape %s, TF says %s' %
                               (o.name, o.type, r.shape, shp))
        env[ot.name] = r
      env[key] = True
      stack.pop()

  # ------------------------------------------------------------ functions
  def _library(self):
    if self._lib is None:
      gd = self.root_graph.as_graph_def()
      self._lib = {f.signature.name: f for f in gd.library.function}
    return self._lib

  def run_function(self, fname, args):
    if fname not in self._fg:
      lib = self._library()
      if fname not in lib:
        raise HarnessError('function %s not in library' % fname)
      with self.root_graph.as_default():
        self._fg[fname] = function_def_to_graph.function_def_to_graph(lib[fname])
    fg = self._fg[fname]
    self.functions_run.add(fname)
    env = {}
    if len(fg.inputs) != len(args):
      raise HarnessError('function %s arity' % fname)
    for t, a in zip(fg.inputs, args):
      env[t.name] = a
    outs = [self.eval_tensor(fg, t, env) for t in fg.outputs]
    for op in fg.get_operations():
      if op.type in ('If', 'StatelessIf', 'Assert'):
        self.eval_op(fg, op, env)
    return outs

  def run_while(self, op, v):
    cond = op.get_attr('cond').name
    body = op.get_attr('body').name
    state = list(v)
    n = 0
    while True:
      c = sym.scalar(self.run_function(cond, state)[0])
      if is_z(c):
        raise HarnessError('symbolic loop condition in %s' % op.name)
      if not c:
        break
      state = self.run_function(body, state)
      n += 1
      if n > 100000:
        raise HarnessError('loop bound exceeded')
    self.ops_seen['While:iterations'] = self.ops_seen.get('While:iterations', 0) + n
    return state

  def run_if(self, op, v):
    cc = np.asarray(v[0], dtype=object).reshape(-1)
    c = cc[0]
    for t in cc[1:]:
      c = sym.s_and(c, t)
    tb = op.get_attr('then_branch').name
    eb = op.get_attr('else_branch').name
    lib = self._library()

    def has_assert(fname, depth=0):
      f = lib.get(fname)
      if f is None or depth > 3:
        return False
      for n in f.node_def:
        if n.op == 'Assert':
          return True
      return False
    if has_assert(eb) and not has_assert(tb):
      # tf.Assert lowered to If: predicate must hold.
      self.assert_preds.append((op.name, c))
      if len(op.outputs) == 0:
        return []
      if not is_z(c) and not c:
        # concrete failing assertion: still produce outputs through 'then'
        pass
      return self.run_function(tb, list(v[1:]))
    if is_z(c):
      a = self.run_function(tb, list(v[1:]))
      b_ = self.run_function(eb, list(v[1:]))
      return [sym.select(_arr(c), x, y) for x, y in zip(a, b_)]
    return self.run_function(tb if c else eb, list(v[1:]))

  # ------------------------------------------------------------ ops
  def exec_op(self, op, v):
    T = op.type
    self.ops_seen[T] = self.ops_seen.get(T, 0) + 1
    if T in self.stubs:
      r = self.stubs[T](self, op, v)
      if r is not None:
        return r
    f = getattr(self, 'op_' + T, None)
    if f is None:
      raise HarnessError('unsupported op type %s (%s)' % (T, op.name))
    return f(op, v)

  # constants / plumbing
  def op_Const(self, op, v):
    return [sym.obj(tensor_util.MakeNdarray(op.get_attr('value')))]

  def op_Placeholder(self, op, v):
    raise HarnessError('unfed placeholder %s' % op.name)

  def _identity(self, op, v):
    return [v[0]]
  op_Identity = op_StopGradient = op_PreventGradient = op_Snapshot = _identity
  op_EnsureShape = _identity

  def op_IdentityN(self, op, v):
    return list(v)

  def op_NoOp(self, op, v):
    return []

  def op_ReadVariableOp(self, op, v):
    ref = sym.scalar(v[0])
    if not isinstance(ref, VarRef):
      raise HarnessError('ReadVariableOp on non-resource')
    return [np.asarray(self.var_value(ref), dtype=object)]

  def _call(self, op, v):
    return self.run_function(op.get_attr('f').name, list(v))
  op_PartitionedCall = op_StatefulPartitionedCall = _call

  def op_StatelessWhile(self, op, v):
    return self.run_while(op, v)
  op_While = op_StatelessWhile

  def op_If(self, op, v):
    return self.run_if(op, v)
  op_StatelessIf = op_If

  def op_Assert(self, op, v):
    c = np.asarray(v[0], dtype=object).reshape(-1)
    acc = True
    for t in c:
      acc = sym.s_and(acc, t)
    self.assert_preds.append((op.name, acc))
    return []

  # arithmetic
  def op_AddV2(self, op, v):
    return [sym.add(v[0], v[1])]
  op_Add = op_AddV2

  def op_AddN(self, op, v):
    acc = v[0]
    for x in v[1:]:
      acc = sym.add(acc, x)
    return [acc]

  def op_Sub(self, op, v):
    return [sym.sub(v[0], v[1])]

  def op_Mul(self, op, v):
    return [sym.mul(v[0], v[1])]

  def op_RealDiv(self, op, v):
    return [sym.div(v[0], v[1])]

  def op_DivNoNan(self, op, v):
    # x / y, 0 where y == 0
    x, y = np.broadcast_arrays(v[0], v[1])
    def f(a, b):
      if not is_sym(b):
        return 0 if b == 0 else sym.s_div(a, b)
      if isinstance(b, Frac):
        raise HarnessError('DivNoNan by Frac')
      # den = If(b == 0, 1, b) ; num = If(b == 0, 0, a)
      c = b == 0
      return sym.s_div(sym.s_ite(c, 0, a), z3.If(c, z3.RealVal(1), b))
    return [np.frompyfunc(f, 2, 1)(x, y)]

  def op_FloorDiv(self, op, v):
    def f(a, b):
      if is_sym(a) or is_sym(b):
        raise HarnessError('symbolic FloorDiv')
      return a // b if isinstance(a, int) and isinstance(b, int) else Fraction(math.floor(Fraction(a) / Fraction(b)))
    return [np.frompyfunc(f, 2, 1)(v[0], v[1])]

  def op_FloorMod(self, op, v):
    def f(a, b):
      if is_sym(a) or is_sym(b):
        raise HarnessError('symbolic FloorMod')
      return a % b
    return [np.frompyfunc(f, 2, 1)(v[0], v[1])]

  def op_Maximum(self, op, v):
    return [sym.maximum(v[0], v[1])]

  def op_Minimum(self, op, v):
    return [sym.minimum(v[0], v[1])]

  def op_Neg(self, op, v):
    return [sym.neg(v[0])]

  def op_Abs(self, op, v):
    return [sym.absv(v[0])]

  def op_Sign(self, op, v):
    return [sym.sign(v[0])]

  def op_Square(self, op, v):
    return [sym.mul(v[0], v[0])]

  def op_Reciprocal(self, op, v):
    return [sym.div(sym.full((), 1), v[0])]
  op_Inv = op_Reciprocal

  def op_Relu(self, op, v):
    return [sym.maximum(v[0], sym.full((), 0))]

  def op_Relu6(self, op, v):
    return [sym.minimum(sym.maximum(v[0], sym.full((), 0)), sym.full((), 6))]

  def op_SquaredDifference(self, op, v):
    d = sym.sub(v[0], v[1])
    return [sym.mul(d, d)]

  def op_ClipByValue(self, op, v):
    return [sym.minimum(sym.maximum(v[0], v[1]), v[2])]

  def op_GreaterEqual(self, op, v):
    return [sym.ge(v[0], v[1])]

  def op_Greater(self, op, v):
    return [sym.gt(v[0], v[1])]

  def op_LessEqual(self, op, v):
    return [sym.le(v[0], v[1])]

  def op_Less(self, op, v):
    return [sym.lt(v[0], v[1])]

  def op_Equal(self, op, v):
    return [sym.eq(v[0], v[1])]

  def op_NotEqual(self, op, v):
    return [sym.ne(v[0], v[1])]

  def op_LogicalAnd(self, op, v):
    return [sym.logical_and(v[0], v[1])]

  def op_LogicalOr(self, op, v):
    return [sym.logical_or(v[0], v[1])]

  def op_LogicalNot(self, op, v):
    return [sym.logical_not(v[0])]

  def op_IsNan(self, op, v):
    # reals: a value is NaN iff it is undefined (zero denominator)
    def f(a):
      if isinstance(a, Frac):
        return sym.s_not(sym.defined(a))
      if isinstance(a, sym.Inf):
        return a.v != a.v
      return False
    return [np.frompyfunc(f, 1, 1)(v[0])]

  def op_SelectV2(self, op, v):
    return [sym.select(v[0], v[1], v[2])]

  def op_Select(self, op, v):
    c = v[0]
    if c.ndim == 1 and v[1].ndim > 1:
      c = c.reshape((-1,) + (1,) * (v[1].ndim - 1))
    return [sym.select(c, v[1], v[2])]

  # reductions
  def _reduce(self, op, v, f, empty=None):
    axes = _ints(v[1])
    if np.asarray(v[0]).ndim == 0:
      return [v[0]]
    if len(axes) == 0 and np.asarray(v[1]).size == 0:
      return [v[0]]
    return [sym.reduce(f, v[0], axes, op.get_attr('keep_dims'), empty=empty)]

  def op_Sum(self, op, v):
    return self._reduce(op, v, sym.add, empty=0)

  def op_Prod(self, op, v):
    return self._reduce(op, v, sym.mul, empty=1)

  def op_Max(self, op, v):
    return self._reduce(op, v, sym.maximum)

  def op_Min(self, op, v):
    return self._reduce(op, v, sym.minimum)

  def op_All(self, op, v):
    return self._reduce(op, v, sym.logical_and)

  def op_Any(self, op, v):
    return self._reduce(op, v, sym.logical_or)

  def op_Mean(self, op, v):
    axes = _ints(v[1])
    x = np.asarray(v[0], dtype=object)
    if x.ndim == 0 or (len(axes) == 0 and np.asarray(v[1]).size == 0):
      return [x]
    n = 1
    for ax in set(a % x.ndim for a in axes):
      n *= x.shape[ax]
    r = sym.reduce(sym.add, x, axes, op.get_attr('keep_dims'))
    return [sym.mul(r, sym.full((), Fraction(1, n)))]

  def op_Cumsum(self, op, v):
    x = v[0]
    ax = _int(v[1]) % x.ndim
    excl, rev = op.get_attr('exclusive'), op.get_attr('reverse')
    parts = [np.take(x, i, axis=ax) for i in range(x.shape[ax])]
    if rev:
      parts = parts[::-1]
    acc = sym.full(parts[0].shape, 0)
    outp = []
    for p in parts:
      if excl:
        outp.append(acc)
        acc = sym.add(acc, p)
      else:
        acc = sym.add(acc, p)
        outp.append(acc)
    if rev:
      outp = outp[::-1]
    return [np.stack(outp, axis=ax)]

  def op_MatMul(self, op, v):
    a, b = v
    if op.get_attr('transpose_a'):
      a = a.T
    if op.get_attr('transpose_b'):
      b = b.T
    return [self._matmul2(a, b)]

  def _matmul2(self, a, b):
    out = np.empty((a.shape[0], b.shape[1]), dtype=object)
    for i in range(a.shape[0]):
      for j in range(b.shape[1]):
        acc = 0
        for k in range(a.shape[1]):
          acc = sym.s_add(acc, sym.s_mul(a[i, k], b[k, j]))
        out[i, j] = acc
    return out

  def op_BatchMatMulV2(self, op, v):
    a, b = v
    if op.get_attr('adj_x'):
      a = np.swapaxes(a, -1, -2)
    if op.get_attr('adj_y'):
      b = np.swapaxes(b, -1, -2)
    bshape = np.broadcast_shapes(a.shape[:-2], b.shape[:-2])
    a = np.broadcast_to(a, bshape + a.shape[-2:])
    b = np.broadcast_to(b, bshape + b.shape[-2:])
    out = np.empty(bshape + (a.shape[-2], b.shape[-1]), dtype=object)
    for idx in np.ndindex(*bshape):
      out[idx] = self._matmul2(a[idx], b[idx])
    return [out]
  op_BatchMatMul = op_BatchMatMulV2

  def op_Einsum(self, op, v):
    eq = op.get_attr('equation').decode()
    ins, out = eq.split('->')
    ins = ins.split(',')
    if any('.' in s for s in ins):
      raise HarnessError('Einsum with ellipsis')
    dims = {}
    for s, a in zip(ins, v):
      for ch, n in zip(s, a.shape):
        dims[ch] = n
    summed = [ch for ch in dims if ch not in out]
    res = np.empty([dims[ch] for ch in out], dtype=object)
    for oi in np.ndindex(*res.shape):
      asg = dict(zip(out, oi))
      acc = 0
      for si in np.ndindex(*[dims[ch] for ch in summed]):
        asg.update(zip(summed, si))
        term = 1
        for s, a in zip(ins, v):
          term = sym.s_mul(term, a[tuple(asg[ch] for ch in s)])
        acc = sym.s_add(acc, term)
      res[oi] = acc
    return [res]

  def op_DepthwiseConv2dNative(self, op, v):
    x, k = v
    if op.get_attr('padding') != b'VALID' or list(op.get_attr('strides')) != [1, 1, 1, 1]:
      raise HarnessError('DepthwiseConv2dNative: only VALID/stride 1')
    if op.get_attr('data_format') != b'NHWC':
      raise HarnessError('DepthwiseConv2dNative: only NHWC')
    B, H, W, C = x.shape
    kh, kw, _, M = k.shape
    out = np.empty((B, H - kh + 1, W - kw + 1, C * M), dtype=object)
    for bi in range(B):
      for i in range(H - kh + 1):
        for j in range(W - kw + 1):
          for c in range(C):
            for m in range(M):
              acc = 0
              for di in range(kh):
                for dj in range(kw):
                  acc = sym.s_add(acc, sym.s_mul(x[bi, i + di, j + dj, c], k[di, dj, c, m]))
              out[bi, i, j, c * M + m] = acc
    return [out]

  def op_DepthwiseConv2dNativeBackpropInput(self, op, v):
    in_sizes, k, dy = v
    B, H, W, C = _ints(in_sizes)
    kh, kw, _, M = k.shape
    out = sym.full((B, H, W, C), 0)
    for bi in range(B):
      for i in range(H - kh + 1):
        for j in range(W - kw + 1):
          for c in range(C):
            for m in range(M):
              g = dy[bi, i, j, c * M + m]
              for di in range(kh):
                for dj in range(kw):
                  out[bi, i + di, j + dj, c] = sym.s_add(out[bi, i + di, j + dj, c], sym.s_mul(g, k[di, dj, c, m]))
    return [out]

  def op_DepthwiseConv2dNativeBackpropFilter(self, op, v):
    x, f_sizes, dy = v
    kh, kw, C, M = _ints(f_sizes)
    B, H, W, _ = x.shape
    out = sym.full((kh, kw, C, M), 0)
    for bi in range(B):
      for i in range(H - kh + 1):
        for j in range(W - kw + 1):
          for c in range(C):
            for m in range(M):
              g = dy[bi, i, j, c * M + m]
              for di in range(kh):
                for dj in range(kw):
                  out[di, dj, c, m] = sym.s_add(out[di, dj, c, m], sym.s_mul(g, x[bi, i + di, j + dj, c]))
    return [out]

  # shape ops
  def op_Shape(self, op, v):
    return [sym.obj(np.array(np.asarray(v[0]).shape, dtype=np.int32))]

  def op_ShapeN(self, op, v):
    return [sym.obj(np.array(np.asarray(x).shape, dtype=np.int32)) for x in v]

  def op_Size(self, op, v):
    return [sym.obj(np.int32(np.asarray(v[0]).size))]

  def op_Rank(self, op, v):
    return [sym.obj(np.int32(np.asarray(v[0]).ndim))]

  def op_Reshape(self, op, v):
    return [np.reshape(v[0], _ints(v[1]))]

  def op_Transpose(self, op, v):
    return [np.transpose(v[0], _ints(v[1]))]

  def op_ExpandDims(self, op, v):
    ax = _int(v[1])
    if ax < 0:
      ax += v[0].ndim + 1
    return [np.expand_dims(v[0], ax)]

  def op_Squeeze(self, op, v):
    dims = op.get_attr('squeeze_dims')
    return [np.squeeze(v[0], axis=tuple(dims) if dims else None)]

  def op_Pack(self, op, v):
    ax = op.get_attr('axis')
    return [np.stack(v, axis=ax)]

  def op_Unpack(self, op, v):
    ax = op.get_attr('axis')
    return [np.take(v[0], i, axis=ax) for i in range(v[0].shape[ax])]

  def op_ConcatV2(self, op, v):
    return [np.concatenate(v[:-1], axis=_int(v[-1]))]

  def op_Fill(self, op, v):
    return [sym.full(_ints(v[0]), sym.scalar(v[1]))]

  def op_ZerosLike(self, op, v):
    z = False if op.outputs[0].dtype == tf.bool else 0
    return [sym.full(v[0].shape, z)]

  def op_OnesLike(self, op, v):
    return [sym.full(v[0].shape, 1)]

  def op_BroadcastTo(self, op, v):
    return [np.array(np.broadcast_to(v[0], _ints(v[1])), dtype=object)]

  def op_BroadcastArgs(self, op, v):
    return [sym.obj(np.array(np.broadcast_shapes(tuple(_ints(v[0])), tuple(_ints(v[1]))), dtype=np.int32))]

  def op_BroadcastGradientArgs(self, op, v):
    s0, s1 = _ints(v[0]), _ints(v[1])
    n = max(len(s0), len(s1))
    p0 = [1] * (n - len(s0)) + s0
    p1 = [1] * (n - len(s1)) + s1
    r0 = [i for i in range(n) if p0[i] == 1 and p1[i] != 1 or i < n - len(s0)]
    r1 = [i for i in range(n) if p1[i] == 1 and p0[i] != 1 or i < n - len(s1)]
    # TF also reduces axes where both are 1
    r0 = sorted(set(r0) | set(i for i in range(n) if p0[i] == 1 and p1[i] == 1))
    r1 = sorted(set(r1) | set(i for i in range(n) if p0[i] == 1 and p1[i] == 1))
    return [sym.obj(np.array(r0, dtype=np.int32)), sym.obj(np.array(r1, dtype=np.int32))]

  def op_Tile(self, op, v):
    return [np.tile(v[0], _ints(v[1]))]

  def op_Pad(self, op, v):
    pads = [(int(a), int(b)) for a, b in np.asarray(v[1], dtype=object).reshape(-1, 2)]
    out_shape = [s + a + b for s, (a, b) in zip(v[0].shape, pads)]
    out = sym.full(out_shape, 0)
    idx = tuple(slice(a, a + s) for s, (a, b) in zip(v[0].shape, pads))
    out[idx] = v[0]
    return [out]

  def op_PadV2(self, op, v):
    pads = [(int(a), int(b)) for a, b in np.asarray(v[1], dtype=object).reshape(-1, 2)]
    out_shape = [s + a + b for s, (a, b) in zip(v[0].shape, pads)]
    out = sym.full(out_shape, sym.scalar(v[2]))
    idx = tuple(slice(a, a + s) for s, (a, b) in zip(v[0].shape, pads))
    out[idx] = v[0]
    return [out]

  def op_Cast(self, op, v):
    src, dst = op.get_attr('SrcT'), op.get_attr('DstT')
    x = v[0]
    if dst.is_integer and src.is_floating:
      def f(a):
        if is_sym(a):
          return self.force_int(a)
        if isinstance(a, sym.Inf):
          raise HarnessError('cast of inf to int')
        return int(a)  # truncation toward zero
      return [np.frompyfunc(f, 1, 1)(x) if x.ndim else _arr(f(x[()]))]
    if dst.is_floating and src.is_bool or dst.is_integer and src.is_bool:
      def f(a):
        if is_z(a):
          return z3.If(a, z3.RealVal(1), z3.RealVal(0))
        return 1 if a else 0
      return [np.frompyfunc(f, 1, 1)(x) if x.ndim else _arr(f(x[()]))]
    if dst.is_bool:
      def f(a):
        if is_sym(a):
          return sym.s_cmp('ne', a, 0)
        return a != 0
      return [np.frompyfunc(f, 1, 1)(x) if x.ndim else _arr(f(x[()]))]
    if dst.is_floating and src.is_integer:
      return [x]
    if dst.is_floating and src.is_floating:
      return [x]
    if dst.is_integer and src.is_integer:
      return [x]
    raise HarnessError('Cast %s -> %s' % (src, dst))

  def force_int(self, a):
    """float->int cast of a symbolic value: must be forced by the case assumption."""
    c = sym.ctx()
    if isinstance(a, Frac):
      raise HarnessError('int cast of Frac')
    key = ('trunc', a.get_id())
    if key in c.memo:
      return c.memo[key][1]
    rng = c.memo.get('int_range', range(-2, 8))
    cands = []
    for k in rng:
      if k >= 0:
        cands.append((k, z3.And(a >= k, a < k + 1)))
      if k <= 0:
        cands.append((k, z3.And(a > k - 1, a <= k)))
    s = z3.Solver()
    s.set('timeout', 5000)
    s.add(*c.assumptions)
    s.add(*c.case_assumptions)
    for k, cond in cands:
      s.push()
      s.add(z3.Not(cond))
      c.side_queries += 1
      r = s.check()
      s.pop()
      if r == z3.unsat:
        c.memo[key] = (a, k)
        c.forced.append(('trunc', str(a)[:60], k))
        return k
    # machine integers: a float -> int32 cast of a value outside the int32 range is implementation-defined (x86 gives
    # INT_MIN).  If the case allows such an operand the code has no defined behaviour there.
    big = z3.Or(a >= 2 ** 31, a < -(2 ** 31))
    s.push()
    s.add(big)
    c.side_queries += 1
    r = s.check()
    s.pop()
    if r == z3.sat:
      raise sym.Undefined('float->int32 cast of %s which is not confined to the int32 range (overflow is implementation-defined)' % str(a)[:40],
                          cond=big)
    # not forced: split the case on the truncation interval of some feasible value
    if s.check() == z3.sat:
      v = sym.z3_to_py(s.model().eval(a, model_completion=True))
      k = int(v)  # toward zero
      cond = z3.And(a >= k, a < k + 1) if v >= 0 else z3.And(a > k - 1, a <= k)
      raise sym.NeedSplit(cond, 'float->int cast of %s' % str(a)[:40])
    raise HarnessError('float->int cast of a symbolic value under infeasible assumptions')

  def op_StridedSlice(self, op, v):
    x, b, e, s = v
    A = op.get_attr
    bm, em, elm, nam, sam = A('begin_mask'), A('end_mask'), A('ellipsis_mask'), A('new_axis_mask'), A('shrink_axis_mask')
    b, e, s = _ints(b), _ints(e), _ints(s)
    idx = []
    for i in range(len(b)):
      if elm & (1 << i):
        idx.append(Ellipsis)
        continue
      if nam & (1 << i):
        idx.append(None)
        continue
      if sam & (1 << i):
        idx.append(b[i])
        continue
      bb = None if bm & (1 << i) else b[i]
      ee = None if em & (1 << i) else e[i]
      idx.append(slice(bb, ee, s[i]))
    r = x[tuple(idx)]
    if not isinstance(r, np.ndarray):
      r = _arr(r)
    return [r]

  def op_StridedSliceGrad(self, op, v):
    shape, b, e, s, dy = v
    A = op.get_attr
    bm, em, elm, nam, sam = A('begin_mask'), A('end_mask'), A('ellipsis_mask'), A('new_axis_mask'), A('shrink_axis_mask')
    b, e, s = _ints(b), _ints(e), _ints(s)
    out = sym.full(_ints(shape), 0)
    idx = []
    for i in range(len(b)):
      if elm & (1 << i):
        idx.append(Ellipsis)
        continue
      if nam & (1 << i):
        idx.append(None)
        continue
      if sam & (1 << i):
        idx.append(b[i])
        continue
      bb = None if bm & (1 << i) else b[i]
      ee = None if em & (1 << i) else e[i]
      idx.append(slice(bb, ee, s[i]))
    out[tuple(idx)] = dy
    return [out]

  def op_Slice(self, op, v):
    x = v[0]
    b, sz = _ints(v[1]), _ints(v[2])
    idx = tuple(slice(bi, None if si == -1 else bi + si) for bi, si in zip(b, sz))
    return [x[idx]]

  def op_Split(self, op, v):
    ax = _int(v[0])
    return list(np.split(v[1], op.get_attr('num_split'), axis=ax))

  def op_SplitV(self, op, v):
    sizes = _ints(v[1])
    ax = _int(v[2])
    n = v[0].shape[ax]
    if -1 in sizes:
      sizes[sizes.index(-1)] = n - (sum(sizes) + 1)
    outs = []
    o = 0
    for sz in sizes:
      outs.append(np.take(v[0], range(o, o + sz), axis=ax))
      o += sz
    return outs

  def op_Range(self, op, v):
    vals = [sym.scalar(x) for x in v]
    if all(isinstance(x, int) for x in vals):
      return [sym.obj(np.arange(vals[0], vals[1], vals[2]))]
    n = int(math.ceil((Fraction(vals[1]) - Fraction(vals[0])) / Fraction(vals[2])))
    out = np.empty((n,), dtype=object)
    for i in range(n):
      out[i] = Fraction(vals[0]) + i * Fraction(vals[2])
    return [out]

  def op_InvertPermutation(self, op, v):
    perm = _ints(v[0])
    inv = [0] * len(perm)
    for i, p_ in enumerate(perm):
      inv[p_] = i
    return [sym.obj(np.array(inv, dtype=np.int32))]

  def op_ConcatOffset(self, op, v):
    ax = _int(v[0])
    outs = []
    off = 0
    for shp in v[1:]:
      s_ = _ints(shp)
      o = [0] * len(s_)
      o[ax] = off
      off += s_[ax]
      outs.append(sym.obj(np.array(o, dtype=np.int32)))
    return outs

  def op_ReverseV2(self, op, v):
    return [np.flip(v[0], axis=tuple(_ints(v[1])))]

  def op_GatherV2(self, op, v):
    params, idx, ax = v
    ax = _int(ax)
    bd = op.get_attr('batch_dims')
    if any(is_sym(i) for i in np.asarray(idx, dtype=object).reshape(-1)):
      raise HarnessError('GatherV2 with symbolic indices')
    ii = np.asarray(idx, dtype=object).astype(int)
    if (ii < 0).any() or (ii >= params.shape[ax]).any():
      raise sym.Undefined('GatherV2 index out of range: %s not in [0,%d)' % (ii.reshape(-1).tolist()[:8], params.shape[ax]))
    if bd == 0:
      return [np.take(params, ii, axis=ax)]
    if bd < 0:
      bd += ii.ndim
    out = []
    if bd == 1:
      for bi in range(params.shape[0]):
        out.append(np.take(params[bi], ii[bi], axis=ax - 1))
      return [np.stack(out, axis=0)]
    raise HarnessError('GatherV2 batch_dims=%d' % bd)

  def op_ResourceGather(self, op, v):
    ref = sym.scalar(v[0])
    params = np.asarray(self.var_value(ref), dtype=object)
    ii = np.asarray(v[1], dtype=object).astype(int)
    return [np.take(params, ii, axis=0)]

  def op_ResourceGatherNd(self, op, v):
    ref = sym.scalar(v[0])
    params = np.asarray(self.var_value(ref), dtype=object)
    return self.op_GatherNd(op, [params, v[1]])

  def op_GatherNd(self, op, v):
    params, idx = v
    ii = np.asarray(idx, dtype=object).astype(int)
    out_shape = ii.shape[:-1] + params.shape[ii.shape[-1]:]
    out = np.empty(out_shape, dtype=object)
    for pos in np.ndindex(*ii.shape[:-1]):
      out[pos] = params[tuple(ii[pos])]
    return [out]

  def op_OneHot(self, op, v):
    idx, depth, on, off = v
    depth = _int(depth)
    ax = op.get_attr('axis')
    if ax < 0:
      ax = idx.ndim
    on, off = sym.scalar(on), sym.scalar(off)
    out = np.empty(idx.shape + (depth,), dtype=object)
    for ii in np.ndindex(*idx.shape):
      for k in range(depth):
        out[ii + (k,)] = sym.s_ite(sym.s_cmp('eq', idx[ii], k), on, off)
    if ax != idx.ndim:
      out = np.moveaxis(out, -1, ax)
    return [out]

  def op_TensorScatterAdd(self, op, v):
    t, idx, upd = v
    ii = np.asarray(idx, dtype=object)
    if any(is_sym(q) for q in ii.reshape(-1)):
      raise HarnessError('TensorScatterAdd with symbolic indices')
    out = np.array(t, dtype=object, copy=True)
    depth = ii.shape[-1]
    for pos in np.ndindex(*ii.shape[:-1]):
      key = tuple(int(q) for q in ii[pos])
      if depth == out.ndim:
        out[key] = sym.s_add(out[key], upd[pos])
      else:
        out[key] = sym.add(out[key], upd[pos])
    return [out]

  def op_TensorScatterUpdate(self, op, v):
    t, idx, upd = v
    ii = np.asarray(idx, dtype=object)
    out = np.array(t, dtype=object, copy=True)
    for pos in np.ndindex(*ii.shape[:-1]):
      out[tuple(int(q) for q in ii[pos])] = upd[pos]
    return [out]

  def op_UnsortedSegmentSum(self, op, v):
    data, ids, num = v
    num = _int(num)
    ids = np.asarray(ids, dtype=object)
    if any(is_sym(t) for t in ids.reshape(-1)):
      raise HarnessError('UnsortedSegmentSum with symbolic ids')
    inner = data.shape[ids.ndim:]
    out = sym.full((num,) + tuple(inner), 0)
    for pos in np.ndindex(*ids.shape):
      k = int(ids[pos])
      if 0 <= k < num:
        out[k] = sym.add(out[k], data[pos]) if inner else sym.s_add(out[k], data[pos])
    return [out]

  def op_SegmentSum(self, op, v):
    data, ids = v
    ids = [int(t) for t in np.asarray(ids, dtype=object).reshape(-1)]
    num = (max(ids) + 1) if ids else 0
    inner = data.shape[1:]
    out = sym.full((num,) + tuple(inner), 0)
    for i, k in enumerate(ids):
      out[k] = sym.add(out[k], data[i]) if inner else sym.s_add(out[k], data[i])
    return [out]

  def op_SegmentMean(self, op, v):
    data, ids = v
    (tot,) = self.op_SegmentSum(op, v)
    idl = [int(t) for t in np.asarray(ids, dtype=object).reshape(-1)]
    for k in range(tot.shape[0]):
      cnt = idl.count(k)
      if cnt:
        tot[k] = sym.mul(tot[k], sym.full((), Fraction(1, cnt))) if tot.ndim > 1 else sym.s_mul(tot[k], Fraction(1, cnt))
    return [tot]

  def op_Where(self, op, v):
    c = np.asarray(v[0], dtype=object)
    if any(is_sym(t) for t in c.reshape(-1)):
      raise HarnessError('tf.where(cond) (index form) on a symbolic condition')
    idx = np.argwhere(c.astype(bool))
    return [sym.obj(idx.astype(np.int64)) if idx.size else np.empty((0, c.ndim), dtype=object)]

  def op_ArgMax(self, op, v):
    raise HarnessError('ArgMax unsupported')

  # sort: compare-exchange on values; indices only when forced
  def op_TopKV2(self, op, v):
    x, k = v[0], _int(v[1])
    n = x.shape[-1]
    if k != n:
      raise HarnessError('TopKV2 k != n')
    vals = np.empty(x.shape, dtype=object)
    idxs = np.empty(x.shape, dtype=object)
    for pos in np.ndindex(*x.shape[:-1]):
      row = [x[pos + (i,)] for i in range(n)]
      if sym.ctx().memo.get('sort_network') and any(is_sym(a) for a in row):
        # values by a compare-exchange network (exact: sorted values as min/max terms); indices are unusable
        srt = list(row)
        for i in range(n):
          for j in range(n - 1 - i):
            hi, lo = sym.s_max(srt[j], srt[j + 1]), sym.s_min(srt[j], srt[j + 1])
            srt[j], srt[j + 1] = hi, lo
        for r, val in enumerate(srt):
          vals[pos + (r,)] = val
          idxs[pos + (r,)] = NoIndex()
        continue
      order = self.sort_desc(row)
      for r, i in enumerate(order):
        vals[pos + (r,)] = row[i]
        idxs[pos + (r,)] = i
    return [vals, idxs]

  def sort_desc(self, row):
    """Stable descending order of row, forced by the assumptions (ties -> lower index first)."""
    n = len(row)
    if not any(is_sym(a) for a in row):
      return sorted(range(n), key=lambda i: (-row[i], i))
    c = sym.ctx()
    s = z3.Solver()
    s.set('timeout', 5000)
    s.add(*c.assumptions)
    s.add(*c.case_assumptions)

    def before(i, j):
      # i precedes j in TF's top_k order: larger value first, ties by lower index
      if i < j:
        cond = sym.GE(row[i], row[j])
      else:
        cond = sym.GT(row[i], row[j])
      s.push()
      s.add(z3.Not(cond))
      c.side_queries += 1
      r = s.check()
      s.pop()
      if r == z3.unsat:
        return True
      s.push()
      s.add(cond)
      c.side_queries += 1
      r = s.check()
      s.pop()
      if r == z3.unsat:
        return False
      raise sym.NeedSplit(cond, 'sort order of positions %d,%d' % (i, j))
    import functools
    order = sorted(range(n), key=functools.cmp_to_key(lambda i, j: -1 if before(i, j) else 1))
    c.forced.append(('sort', order))
    return order

  # transcendental stubs (contracts, DESIGN 1.4)
  def op_Softmax(self, op, v):
    x = v[0]
    c = sym.ctx()
    out = np.empty(x.shape, dtype=object)
    for pos in np.ndindex(*x.shape[:-1]):
      row = [x[pos + (i,)] for i in range(x.shape[-1])]
      if not any(is_sym(a) for a in row):
        ex = [math.exp(float(a)) for a in row]
        tot = sum(ex)
        for i, e in enumerate(ex):
          out[pos + (i,)] = Fraction(e / tot)
        continue
      key = ('softmax',) + tuple(Z(a).get_id() if is_z(a) else a for a in row)
      if key not in c.softmax:
        # floating point: a share whose logit is far below the largest underflows to exactly 0.  A case can ask
        # for that regime (memo['softmax_zero'] = positions within the row that underflow).
        zero = set(c.memo.get('softmax_zero', ()))
        if c.memo.get('softmax_zero_call') is not None and c.memo['softmax_zero_call'] != len(c.softmax):
          zero = set()  # only the n-th distinct softmax row of this run underflows
        vs = [Fraction(0) if i in zero else c.fresh_real('softmax') for i in range(len(row))]
        c.assume(*[s_ > 0 for s_ in vs if is_z(s_)])
        c.assume(z3.Sum([Z(s_) for s_ in vs]) == 1)
        # order contract: larger logit -> larger probability
        for i in range(len(row)):
          for j in range(i + 1, len(row)):
            c.assume(sym.b(sym.s_cmp('le', row[i], row[j])) == sym.b(sym.s_cmp('le', vs[i], vs[j])))
            c.assume(sym.b(sym.s_cmp('le', row[j], row[i])) == sym.b(sym.s_cmp('le', vs[j], vs[i])))
        # functional consistency with earlier softmax calls of the same width: equal logits -> equal outputs
        for (row2, vs2) in c.softmax.values():
          if len(row2) == len(row):
            same = z3.And([sym.b(sym.s_cmp('eq', a_, b_)) for a_, b_ in zip(row, row2)])
            c.assume(z3.Implies(same, z3.And([sym.b(sym.s_cmp('eq', p_, q_)) for p_, q_ in zip(vs, vs2)])))
        c.softmax[key] = (row, vs)
        if 'Softmax' not in c.stubs:
          c.stubs.append('Softmax')
      vs = c.softmax[key][1]
      for i, s_ in enumerate(vs):
        out[pos + (i,)] = s_
    return [out]

  def _unary_stub(self, name, x, concrete, contract):
    c = sym.ctx()

    def f(a):
      if not is_sym(a):
        if isinstance(a, sym.Inf):
          raise HarnessError('%s of inf' % name)
        return Fraction(concrete(float(a)))
      if isinstance(a, Frac):
        raise HarnessError('%s of Frac' % name)
      a = z3.simplify(a, som=True)  # canonical argument: syntactically different but equal polynomials share the stub
      key = (name, a.get_id())
      if key in c.memo:
        return c.memo[key][1]
      r = c.fresh_real(name.lower())
      c.memo[key] = (a, r)
      contract(c, a, r)
      if name not in c.stubs:
        c.stubs.append(name)
      return r
    return np.frompyfunc(f, 1, 1)(x) if x.ndim else _arr(f(x[()]))

  def op_Sigmoid(self, op, v):
    def contract(c, a, r):
      c.assume(r > 0, r < 1)
      c.assume((a >= 0) == (r >= Fraction(1, 2)))
      for (a2, r2) in c.sig_args:
        c.assume((a <= a2) == (r <= r2), (a2 <= a) == (r2 <= r))
      c.sig_args.append((a, r))
    return [self._unary_stub('Sigmoid', v[0], lambda t: 1 / (1 + math.exp(-t)), contract)]

  def op_Exp(self, op, v):
    def contract(c, a, r):
      c.assume(r > 0)
      c.assume((a >= 0) == (r >= 1))
      for (a2, r2) in c.exp_args:
        c.assume((a <= a2) == (r <= r2), (a2 <= a) == (r2 <= r))
      c.exp_args.append((a, r))
    return [self._unary_stub('Exp', v[0], math.exp, contract)]

  def op_Log(self, op, v):
    def contract(c, a, r):
      c.cmp_obligations.append(('log_domain', a))
      c.assume((a >= 1) == (r >= 0))
      for (a2, r2) in c.log_args:
        c.assume((a <= a2) == (r <= r2), (a2 <= a) == (r2 <= r))
      c.log_args.append((a, r))
    return [self._unary_stub('Log', v[0], math.log, contract)]

  def op_Sqrt(self, op, v):
    return [self._root(v[0], 2)]

  def op_Rsqrt(self, op, v):
    return [sym.div(sym.full((), 1), self._root(v[0], 2))]

  def _root(self, x, k):
    c = sym.ctx()

    def f(a):
      if not is_sym(a):
        fr = Fraction(a)
        # exact root if it exists
        r = round(float(fr) ** (1.0 / k) * 2 ** 20) / 2 ** 20
        if Fraction(r) ** k == fr:
          return Fraction(r)
        return Fraction(float(fr) ** (1.0 / k))
      if isinstance(a, Frac):
        # root(n/d) = r with r >= 0 and r^k * d == n (d is a denominator: non-zero whenever the value is defined)
        r = c.fresh_real('root%d' % k)
        acc = r
        for _ in range(k - 1):
          acc = acc * r
        c.assume(r >= 0, acc * Z(a.d) == Z(a.n))
        c.cmp_obligations.append(a.d)
        if 'Root' not in c.stubs:
          c.stubs.append('Root')
        return r
      key = ('root%d' % k, a.get_id())
      if key in c.memo:
        return c.memo[key][1]
      r = c.fresh_real('root%d' % k)
      acc = r
      for _ in range(k - 1):
        acc = acc * r
      c.assume(r >= 0, acc == a)
      c.cmp_obligations.append(('root_domain', a))
      c.memo[key] = (a, r)
      if 'Root' not in c.stubs:
        c.stubs.append('Root')
      return r
    return np.frompyfunc(f, 1, 1)(x) if x.ndim else _arr(f(x[()]))

  def op_Pow(self, op, v):
    e = np.asarray(v[1], dtype=object).reshape(-1)
    if any(is_sym(t) for t in e) or len(set(e)) != 1:
      raise HarnessError('Pow with non-constant exponent')
    ev = Fraction(e[0])
    if ev.denominator == 1 and ev.numerator >= 0:
      out = sym.full(v[0].shape, 1)
      for _ in range(ev.numerator):
        out = sym.mul(out, v[0])
      return [np.broadcast_to(out, np.broadcast_shapes(v[0].shape, v[1].shape)).copy()]
    ev2 = ev.limit_denominator(64)
    if abs(float(ev2) - float(ev)) < 1e-6 and ev2.numerator == 1:
      r = self._root(v[0], ev2.denominator)
      return [np.broadcast_to(r, np.broadcast_shapes(v[0].shape, v[1].shape)).copy()]
    raise HarnessError('Pow exponent %s' % ev)

  # random: contract stub
  def _random_uniform(self, op, v):
    shape = _ints(v[0])
    c = sym.ctx()
    out = np.empty(shape, dtype=object)
    for pos in np.ndindex(*shape):
      r = c.fresh_real('rand')
      c.assume(r >= 0, r < 1)
      out[pos] = r
    if 'RandomUniform' not in c.stubs:
      c.stubs.append('RandomUniform')
    return [out]
  op_RandomUniform = _random_uniform

  def op_StatelessRandomUniformV2(self, op, v):
    return self._random_uniform(op, v)

  def op_StatelessRandomGetKeyCounter(self, op, v):
    return [sym.full((1,), 0), sym.full((2,), 0)]

  def op_StatelessRandomGetAlg(self, op, v):
    return [sym.full((), 1)]

  def op_StatelessRandomGetKeyCounterAlg(self, op, v):
    return [sym.full((1,), 0), sym.full((2,), 0), sym.full((), 1)]


# ---------------------------------------------------------------- tracing helpers
def trace(fn, *specs):
  return tf.function(fn, autograph=False).get_concrete_function(*specs)


def spec(shape, dtype=tf.float32):
  return tf.TensorSpec(list(shape), dtype)


def keras_of():
  """the Keras implementation tensorflow_lattice itself uses"""
  from tensorflow_lattice.python import lattice_layer
  return lattice_layer.keras
