"""C03 - Premade and composed models stay monotone and bounded after any training history."""
import itertools
from fractions import Fraction

import numpy as np
import z3

from vf import sym, specs, core
from vf.core import Case, Traced
from vf.props import c04, c06

PROP = 'C03'

META = dict(
    level='model_checking',
    technique='history reduction: after any optimizer update every constrained variable equals constraint(a) for some tensor a '
              '(Keras contract), and C01/C04/C06/C07 decide that constraint(a) satisfies the reference predicates of the '
              'constraint object attached to the variable; here the whole real premade model (built by premade.py / '
              'premade_lib.py / rtl_layer.py) is traced and executed symbolically with every variable symbolic and assumed to '
              'satisfy exactly the predicates of ITS OWN attached constraint object; z3 decides model-level monotonicity for '
              'two input points and the output range, piece by piece (calibrator segments / lattice cells as case assumptions '
              'so that all terms are polynomial)',
    bounds=dict(quick='calibrated linear (2 features), calibrated lattice (PWL increasing / decreasing / categorical with an '
                      'ordering pair, with and without output calibration), lattice ensemble (explicit, rtl_layer), '
                      'Kronecker-factored lattice, hand-stacked PWLCalibration -> Lattice / Linear; 2-3 features, 2-3 keypoints, '
                      'lattice size 2; all real weights satisfying the attached constraints, all input pairs',
                thorough='3 keypoints everywhere, lattice size 3 for one feature, ensembles of 3 lattices'),
    outside=['optimizer internals and checkpoint files (Keras contract assumed)', 'models larger than the catalogue', 'IEEE-754 rounding',
             'estimators'],
    assumptions=['Keras applies variable.constraint after every optimizer update and restores saved values exactly',
                 'the reference predicates are what the attached constraint objects establish (decided by C01, C04, C06, C07)',
                 'TF op semantics per vf/interp.py (validated per case)', 'z3 is sound'],
)


def _fc(name, **kw):
  import tensorflow_lattice as tfl
  kw.setdefault('pwl_calibration_input_keypoints', [0.0, 1.0, 2.0][:kw.pop('nk', 2)] if 'num_buckets' not in kw else 'quantiles')
  if 'num_buckets' in kw:
    kw.pop('pwl_calibration_input_keypoints')
  kw.setdefault('lattice_size', 2)
  return tfl.configs.FeatureConfig(name=name, **kw)


def _models(tier):
  import tensorflow_lattice as tfl
  C, P = tfl.configs, tfl.premade
  nk = 2
  M = []
  M.append(('calibrated-linear', lambda: P.CalibratedLinear(C.CalibratedLinearConfig(
      feature_configs=[_fc('a', monotonicity='increasing', nk=nk), _fc('b', monotonicity='decreasing', nk=3)], use_bias=True,
      output_min=0.0, output_max=1.0, output_initialization=[0.0, 1.0])),
            [('a', 'increasing'), ('b', 'decreasing')], (0.0, 1.0), dict(b=[0.0, 1.0, 2.0])))
  M.append(('calibrated-linear-bounds-off-zero', lambda: P.CalibratedLinear(C.CalibratedLinearConfig(
      feature_configs=[_fc('a', monotonicity='increasing', nk=nk), _fc('b', nk=nk)], use_bias=False,
      output_min=1.0, output_max=2.0, output_initialization=[1.0, 2.0])),
            [('a', 'increasing')], (1.0, 2.0)))
  M.append(('calibrated-linear-dominance', lambda: P.CalibratedLinear(C.CalibratedLinearConfig(
      feature_configs=[_fc('a', monotonicity='increasing', nk=nk, dominates=[C.DominanceConfig(feature_name='b', dominance_type='monotonic')]),
                       _fc('b', monotonicity='increasing', nk=nk), _fc('c', nk=nk)], use_bias=False, output_initialization=[0.0, 1.0])),
            [('a', 'increasing'), ('b', 'increasing')], None))
  M.append(('calibrated-lattice', lambda: P.CalibratedLattice(C.CalibratedLatticeConfig(
      feature_configs=[_fc('a', monotonicity='increasing', nk=nk), _fc('b', monotonicity='decreasing', nk=nk)], output_min=0.0, output_max=1.0,
      output_initialization=[0.0, 1.0])),
            [('a', 'increasing'), ('b', 'decreasing')], (0.0, 1.0)))
  M.append(('calibrated-lattice-categorical', lambda: P.CalibratedLattice(C.CalibratedLatticeConfig(
      feature_configs=[_fc('a', monotonicity='increasing', nk=nk), _fc('c', num_buckets=3, monotonicity=[(0, 1)])], output_min=-1.0, output_max=2.0,
      output_initialization=[-1.0, 2.0])),
            [('a', 'increasing'), ('c', ('pair', 0, 1))], (-1.0, 2.0)))
  M.append(('calibrated-lattice-missing', lambda: P.CalibratedLattice(C.CalibratedLatticeConfig(
      feature_configs=[_fc('a', monotonicity='increasing', nk=nk, default_value=-1.0), _fc('b', monotonicity='decreasing', nk=nk)],
      output_min=0.0, output_max=1.0, output_initialization=[0.0, 1.0])),
            [('a', 'increasing'), ('b', 'decreasing')], (0.0, 1.0), {}, dict(a=-1.0)))
  M.append(('calibrated-linear-missing', lambda: P.CalibratedLinear(C.CalibratedLinearConfig(
      feature_configs=[_fc('a', monotonicity='decreasing', nk=3, default_value=0.0), _fc('c', num_buckets=3, monotonicity=[(0, 2)], default_value=-1)],
      use_bias=False, output_min=-1.0, output_max=1.0, output_initialization=[-1.0, 1.0])),
            [('a', 'decreasing'), ('c', ('pair', 0, 2))], (-1.0, 1.0), dict(a=[0.0, 1.0, 2.0]), dict(a=0.0)))
  M.append(('calibrated-lattice-always-monotonic', lambda: P.CalibratedLattice(C.CalibratedLatticeConfig(
      feature_configs=[_fc('a', monotonicity='increasing', nk=nk, pwl_calibration_always_monotonic=True),
                       _fc('b', monotonicity='decreasing', nk=nk, pwl_calibration_always_monotonic=True),
                       _fc('c', nk=nk, pwl_calibration_always_monotonic=True)],
      output_min=0.0, output_max=1.0, output_initialization=[0.0, 1.0])),
            [('a', 'increasing'), ('b', 'decreasing')], (0.0, 1.0)))
  M.append(('calibrated-linear-always-monotonic', lambda: P.CalibratedLinear(C.CalibratedLinearConfig(
      feature_configs=[_fc('a', monotonicity=-1, nk=3, pwl_calibration_always_monotonic=True), _fc('b', nk=nk, pwl_calibration_always_monotonic=True)],
      use_bias=True, output_initialization=[0.0, 1.0])),
            [('a', 'decreasing')], None, dict(a=[0.0, 1.0, 2.0])))
  M.append(('calibrated-linear-missing-zero-bound', lambda: P.CalibratedLinear(C.CalibratedLinearConfig(
      feature_configs=[_fc('a', monotonicity='increasing', nk=nk, default_value=-1.0), _fc('b', nk=nk, default_value=5.0)],
      use_bias=False, output_min=0.0, output_max=1.0, output_initialization=[0.0, 1.0])),
            [('a', 'increasing')], (0.0, 1.0), {}, dict(a=-1.0)))
  M.append(('calibrated-lattice-missing-off-zero', lambda: P.CalibratedLattice(C.CalibratedLatticeConfig(
      feature_configs=[_fc('a', monotonicity='increasing', nk=nk, default_value=-1.0), _fc('b', nk=nk)],
      output_min=1.0, output_max=2.0, output_initialization=[1.0, 2.0])),
            [('a', 'increasing')], (1.0, 2.0), {}, dict(a=-1.0)))
  M.append(('calibrated-linear-categorical-shortcut', lambda: P.CalibratedLinear(C.CalibratedLinearConfig(
      feature_configs=[_fc('a', monotonicity='increasing', nk=nk), _fc('c', num_buckets=4, monotonicity=[(0, 3), (0, 1), (1, 2), (2, 3)])],
      use_bias=True, output_initialization=[0.0, 1.0])),
            [('c', ('pair', 2, 3)), ('c', ('pair', 0, 1)), ('a', 'increasing')], None))
  M.append(('calibrated-lattice-output-calibration', lambda: P.CalibratedLattice(C.CalibratedLatticeConfig(
      feature_configs=[_fc('a', monotonicity='increasing', nk=nk), _fc('b', nk=nk)], output_min=0.0, output_max=1.0, output_calibration=True,
      output_calibration_num_keypoints=2, output_initialization=[0.0, 1.0])),
            [('a', 'increasing')], (0.0, 1.0)))
  M.append(('calibrated-lattice-kfl', lambda: P.CalibratedLattice(C.CalibratedLatticeConfig(
      feature_configs=[_fc('a', monotonicity='increasing', nk=nk), _fc('b', nk=nk)], parameterization='kronecker_factored', num_terms=1,
      output_min=0.0, output_max=1.0, output_initialization=[0.0, 1.0])),
            [('a', 'increasing')], (0.0, 1.0)))
  M.append(('ensemble-explicit', lambda: P.CalibratedLatticeEnsemble(C.CalibratedLatticeEnsembleConfig(
      feature_configs=[_fc('a', monotonicity='increasing', nk=nk), _fc('b', monotonicity='decreasing', nk=nk), _fc('c', nk=nk)],
      lattices=[['a', 'b'], ['c', 'a']], output_min=0.0, output_max=1.0, output_initialization=[0.0, 1.0])),
            [('a', 'increasing'), ('b', 'decreasing')], (0.0, 1.0)))
  M.append(('ensemble-rtl', lambda: P.CalibratedLatticeEnsemble(C.CalibratedLatticeEnsembleConfig(
      feature_configs=[_fc('a', monotonicity='increasing', nk=nk), _fc('b', monotonicity='increasing', nk=nk), _fc('c', nk=nk)],
      lattices='rtl_layer', num_lattices=2, lattice_rank=2, random_seed=4, output_min=0.0, output_max=1.0, output_initialization=[0.0, 1.0])),
            [('a', 'increasing'), ('b', 'increasing')], (0.0, 1.0)))
  M.append(('ensemble-linear-combination', lambda: P.CalibratedLatticeEnsemble(C.CalibratedLatticeEnsembleConfig(
      feature_configs=[_fc('a', monotonicity='increasing', nk=nk), _fc('b', nk=nk), _fc('c', monotonicity='decreasing', nk=nk)],
      lattices=[['a', 'b'], ['b', 'c']], use_linear_combination=True, use_bias=True, output_initialization=[0.0, 1.0])),
            [('a', 'increasing'), ('c', 'decreasing')], None))
  M.append(('ensemble-linear-combination-upper-bound', lambda: P.CalibratedLatticeEnsemble(C.CalibratedLatticeEnsembleConfig(
      feature_configs=[_fc('a', monotonicity='increasing', nk=nk), _fc('b', nk=nk), _fc('c', monotonicity='decreasing', nk=nk)],
      lattices=[['a', 'b'], ['b', 'c']], use_linear_combination=True, use_bias=False, output_max=1.0, output_initialization=[0.0, 1.0])),
            [('a', 'increasing'), ('c', 'decreasing')], (None, 1.0)))
  M.append(('ensemble-linear-combination-bounded', lambda: P.CalibratedLatticeEnsemble(C.CalibratedLatticeEnsembleConfig(
      feature_configs=[_fc('a', monotonicity='increasing', nk=nk), _fc('b', nk=nk)],
      lattices=[['a', 'b'], ['b', 'a']], use_linear_combination=True, use_bias=False, output_min=-1.0, output_max=2.0,
      output_initialization=[-1.0, 2.0])),
            [('a', 'increasing')], (-1.0, 2.0)))
  M.append(('ensemble-rtl-unconstrained-first', lambda: P.CalibratedLatticeEnsemble(C.CalibratedLatticeEnsembleConfig(
      feature_configs=[_fc('c', nk=nk), _fc('a', monotonicity='increasing', nk=nk), _fc('b', monotonicity='decreasing', nk=nk)],
      lattices='rtl_layer', num_lattices=2, lattice_rank=2, random_seed=4, output_min=0.0, output_max=1.0, output_initialization=[0.0, 1.0])),
            [('a', 'increasing'), ('b', 'decreasing')], (0.0, 1.0)))
  M.append(('stack-pwl-lattice', _stack_lattice, [('a', 'increasing'), ('b', 'decreasing')], (0.0, 1.0), dict(a=[0.0, 1.0, 3.0], b=[0.0, 2.0])))
  M.append(('stack-pwl-linear', _stack_linear, [('a', 'increasing'), ('b', 'decreasing')], None, dict(a=[0.0, 1.0, 3.0], b=[0.0, 2.0])))
  return M


def _stack_lattice():
  import tensorflow_lattice as tfl
  keras = tfl.layers.Lattice.__mro__[1].__module__ and __import__('vf.interp', fromlist=['keras_of']).keras_of()
  ia, ib = keras.layers.Input(shape=(1,), name='a'), keras.layers.Input(shape=(1,), name='b')
  ca = tfl.layers.PWLCalibration(input_keypoints=[0.0, 1.0, 3.0], output_min=0.0, output_max=1.0, monotonicity='increasing', name='calib_a')(ia)
  cb = tfl.layers.PWLCalibration(input_keypoints=[0.0, 2.0], output_min=0.0, output_max=1.0, monotonicity='decreasing', name='calib_b')(ib)
  out = tfl.layers.Lattice(lattice_sizes=[2, 2], monotonicities=['increasing', 'increasing'], output_min=0.0, output_max=1.0, name='lattice')(
      keras.layers.Concatenate(axis=1)([ca, cb]))
  return keras.Model(inputs=[ia, ib], outputs=out)


def _stack_linear():
  import tensorflow_lattice as tfl
  from vf.interp import keras_of
  keras = keras_of()
  ia, ib = keras.layers.Input(shape=(1,), name='a'), keras.layers.Input(shape=(1,), name='b')
  ca = tfl.layers.PWLCalibration(input_keypoints=[0.0, 1.0, 3.0], output_min=0.0, output_max=1.0, monotonicity='increasing', name='calib_a')(ia)
  cb = tfl.layers.PWLCalibration(input_keypoints=[0.0, 2.0], output_min=-1.0, output_max=1.0, monotonicity='increasing', name='calib_b')(ib)
  out = tfl.layers.Linear(num_input_dims=2, monotonicities=['increasing', 'decreasing'], name='linear')(keras.layers.Concatenate(axis=1)([ca, cb]))
  return keras.Model(inputs=[ia, ib], outputs=out)


def constraint_predicates(var, val):
  """Reference predicates established by the constraint object attached to `var`, on the symbolic value `val`."""
  con = var.constraint
  if con is None:
    return [], 'unconstrained'
  name = type(con).__name__
  from tensorflow_lattice.python import utils, pwl_calibration_lib as pl
  if name == 'PWLCalibrationConstraints':
    mono = utils.canonicalize_monotonicity(con.monotonicity) or 0
    conv = utils.canonicalize_convexity(con.convexity) or 0
    nk = val.shape[0]
    K = val
    cons = []
    for u in range(K.shape[1]):
      outs = specs.pwl_outputs(K[:, u])
      for i in range(1, nk):
        if mono:
          cons.append(sym.GE(sym.s_mul(K[i, u], mono), 0))
      for o in outs:
        if con.output_min_constraints != pl.BoundConstraintsType.NONE:
          cons.append(sym.GE(o, Fraction(con.output_min)))
        if con.output_max_constraints != pl.BoundConstraintsType.NONE:
          cons.append(sym.LE(o, Fraction(con.output_max)))
    return cons, name
  if name == 'LatticeConstraints':
    cons = specs.lattice_constraints(val, list(con.lattice_sizes), val.shape[1], monotonicities=con.monotonicities,
                                     edgeworth=con.edgeworth_trusts, trapezoid=con.trapezoid_trusts, output_min=con.output_min,
                                     output_max=con.output_max)
    return specs.holds(cons), name
  if name == 'LinearConstraints':
    mono = utils.canonicalize_monotonicities(con.monotonicities) or [0] * val.shape[0]
    q = dict(mono=mono, mdom=[list(t) for t in (con.monotonic_dominances or [])], rdom=[], imin=[None] * len(mono), imax=[None] * len(mono))
    cons = specs.holds(c06.lin_cons(val, q))
    if con.normalization_order == 1:
      # unit L1 norm per unit, or the all-zero column the constraint leaves alone (norm below its epsilon)
      cons += [z3.Or(sym.EQ(t, 1), sym.EQ(t, 0)) for t in c06.norm_terms(val, 1)]
    return cons, name
  if name == 'CategoricalCalibrationConstraints':
    # min/max passes only: the real constraint graph is run on a raw symbolic tensor instead of trusting its attributes
    return None, name
  if name == 'NaiveBoundsConstraints':
    # cheap (two clips): the real constraint graph is run on a raw symbolic tensor instead of trusting its attributes
    return None, name
  if name == 'KroneckerFactoredLatticeConstraints':
    # established facts (C07): weights >= 0 when monotone / one-sided bounds, direction*weights non-decreasing along monotone dims;
    # handled by running the real constraint instead (see below)
    return None, name
  if name == 'ScaleConstraints':
    return None, name
  if name == 'NonNeg':
    return [sym.GE(v, 0) for v in val.reshape(-1)], name
  return None, name


def case_model(**p):
  import tensorflow as tf
  case = Case(PROP, p['name'], {k: v for k, v in p.items() if k != 'name'})
  from tensorflow_lattice.python import premade, premade_lib, rtl_layer
  case.encoded(premade.CalibratedLattice.__init__, premade.CalibratedLinear.__init__, premade.CalibratedLatticeEnsemble.__init__,
               premade_lib.build_lattice_layer, premade_lib.build_calibration_layers, premade_lib.build_linear_layer,
               premade_lib.build_output_calibration_layer, premade_lib.build_lattice_ensemble_layer, premade_lib.build_rtl_layer,
               rtl_layer.RTL.call, rtl_layer.RTL._get_rtl_structure)
  entry = [m for m in _models(p.get('tier', 'quick')) if m[0] == p['model']][0]
  label, thunk, goals, bounds = entry[:4]
  model = thunk()
  names = _input_names(model)
  nin = len(names)
  fn = lambda *xs: model(list(xs))
  cats = {}
  for g in goals:
    if isinstance(g[1], tuple):
      cats[g[0]] = g[1]
  tr = Traced(fn, [tf.TensorSpec([2, 1], tf.float32)] * nin, name=label)

  def gen(rng, i, shp, trial):
    if names[i] in cats:
      return rng.integers(0, 3, size=shp).astype(np.float64)
    return rng.integers(-2, 12, size=shp) / 4.0
  done, mism = tr.validate(np.random.default_rng(0), n=2, gen=gen)
  case.meta.update(validation_points=done, validation_mismatch=mism, nodes=tr.n_nodes, variables=[v.name for v in tr.variables])
  var_names = [v.name for v in tr.variables]
  # right after construction: the initial value of every constrained variable already satisfies what its constraint establishes
  sym.new_ctx()
  init_bad = []
  for v in tr.variables:
    if not v.trainable:
      continue
    preds, kind = constraint_predicates(v, sym.obj(v.numpy()))
    for q_ in preds or []:
      q_ = z3.simplify(sym.b(q_)) if sym.is_z(sym.b(q_)) else q_
      if not (q_ is True or (sym.is_z(q_) and z3.is_true(q_))):
        init_bad.append('%s (%s)' % (v.name, kind))
        break
  case.record('initial-weights-satisfy-their-constraints', 'sat' if init_bad else 'unsat', kind='structural', witness={},
              replay=dict(fn='model-init', params=p), sig=dict(query='init', model=label), note=', '.join(init_bad)[:200] or 'all constrained variables')

  lin_norm_vars = []

  def bounds_sig(m):
    # a normalised Linear kernel that is identically zero (the constraint leaves it alone) is the recorded known finding
    zero = bool(lin_norm_vars) and all(all((lambda v_: v_ is not None and v_ == 0)(sym.subst_value(e, m)) for e in np.asarray(a, dtype=object).reshape(-1))
                                       for a in lin_norm_vars)
    return dict(query='bounds', model=label, normalised_linear_kernel_all_zero=zero)

  def fresh():
    sym.new_ctx()
    vv, wit, assume, kinds = {}, {}, [], {}
    post = []
    lin_norm_vars[:] = []
    for i, v in enumerate(tr.variables):
      if not v.trainable:
        kinds[v.name] = 'not trainable: fixed at its initial value'
        continue
      s = sym.symbolic('v%d' % i, tuple(v.shape))
      preds, kind = constraint_predicates(v, s)
      kinds[v.name] = kind
      if kind == 'LinearConstraints' and getattr(v.constraint, 'normalization_order', None):
        lin_norm_vars.append(s)
      if preds is None:
        post.append((v, s))
      else:
        assume += preds
        vv[v.ref()] = s
      wit['v%d' % i] = s
    # variables whose constraint has no predicate form (KFL): run the real constraint graph on a raw symbolic tensor
    scale_val = {}
    for v, s in post:
      if type(v.constraint).__name__ == 'ScaleConstraints':
        (val,) = Traced(_apply(v.constraint), [tf.TensorSpec(list(v.shape), tf.float32)]).sym_run(s)
        vv[v.ref()] = val
        scale_val[v.name.rsplit('/', 1)[0]] = (v, val)
    for v, s in post:
      if type(v.constraint).__name__ in ('NaiveBoundsConstraints', 'CategoricalCalibrationConstraints'):
        (val,) = Traced(_apply(v.constraint), [tf.TensorSpec(list(v.shape), tf.float32)]).sym_run(s)
        vv[v.ref()] = val
    for v, s in post:
      if type(v.constraint).__name__ == 'KroneckerFactoredLatticeConstraints':
        sv = v.constraint.scale
        (val,) = Traced(_apply(v.constraint), [tf.TensorSpec(list(v.shape), tf.float32)]).sym_run(s, var_values={sv.ref(): vv.get(sv.ref())})
        vv[v.ref()] = val
    return vv, wit, assume, kinds
  tmo = p.get('timeout', 120)
  for gi, (feat, goal) in enumerate(goals):
    fi = names.index(feat)
    vv, wit, assume, kinds = fresh()
    case.meta['constraint_kinds'] = kinds
    xs = [sym.symbolic('x%d' % i, (2, 1)) for i in range(nin)]
    rel = []
    for i in range(nin):
      if i == fi:
        if isinstance(goal, tuple):
          xs[i] = sym.obj(np.array([[float(goal[1])], [float(goal[2])]]))
        else:
          rel.append(xs[i][0, 0] <= xs[i][1, 0])
      else:
        if names[i] in cats:
          xs[i] = None
        else:
          rel.append(xs[i][0, 0] == xs[i][1, 0])
    cat_other = [i for i in range(nin) if xs[i] is None]
    combos = list(itertools.product(range(3), repeat=len(cat_other))) or [()]
    kps = entry[4] if len(entry) > 4 else {}
    missing = entry[5] if len(entry) > 5 else {}
    if feat in missing and not isinstance(goal, tuple):
      # the claim is for pairs of non-missing points of the feature that moves
      rel += [xs[fi][0, 0] != Fraction(missing[feat]), xs[fi][1, 0] != Fraction(missing[feat])]
    cont = [i for i in range(nin) if names[i] not in cats and not (i == fi and isinstance(goal, tuple))]
    piece_sets = []
    for i in cont:
      k = [Fraction(v) for v in kps.get(names[i], [0.0, 1.0])]
      pieces = [(None, k[0])] + [(k[j], k[j + 1]) for j in range(len(k) - 1)] + [(k[-1], None)]
      if i == fi:
        piece_sets.append([(a, b_) for ai, a in enumerate(pieces) for bi, b_ in enumerate(pieces) if ai <= bi])
      else:
        piece_sets.append([(a, a) for a in pieces])
    all_pieces = list(itertools.product(*piece_sets)) if p.get('split', False) else [None]
    for combo, pc in itertools.product(combos, all_pieces):
      for i, cval in zip(cat_other, combo):
        xs[i] = sym.obj(np.array([[float(cval)], [float(cval)]]))
      vv, wit, assume, kinds = fresh()
      pa = []
      if pc is not None:
        for i, (pa0, pa1) in zip(cont, pc):
          for row, (lo, hi) in enumerate((pa0, pa1)):
            if lo is not None:
              pa.append(xs[i][row, 0] >= lo)
            if hi is not None:
              pa.append(xs[i][row, 0] <= hi)
        sym.ctx().resolve_comparisons = True
      sym.ctx().assume(*(assume + rel + pa))
      (out,) = tr.sym_run(*xs, var_values=vv)
      case.meta['ops'] = tr.ops_seen
      o = np.asarray(out, dtype=object).reshape(2)
      sgn = -1 if goal == 'decreasing' else 1
      bad = sym.s_cmp('gt', sym.s_mul(o[0], sgn), sym.s_mul(o[1], sgn))
      w2 = dict(wit)
      w2.update({'x%d' % i: x for i, x in enumerate(xs)})
      ptag = '' if pc is None else ',piece=%s' % ''.join(str(all_pieces.index(pc)))
      case.solve('model-monotone[%s:%s%s%s]' % (feat, goal if not isinstance(goal, tuple) else 'pair%d<=%d' % goal[1:], '' if not combo else ',cat=%s' % list(combo), ptag),
                 sym.b(bad), witness=w2, timeout=tmo, sig=dict(query='monotone', model=label, feature=feat),
                 replay=dict(fn='model', params=p, feature=feat, var_names=var_names), required=p.get('required', True))
      if bounds is not None and gi == 0:
        bb = ([sym.s_cmp('lt', o[0], Fraction(bounds[0]))] if bounds[0] is not None else []) + \
             ([sym.s_cmp('gt', o[0], Fraction(bounds[1]))] if bounds[1] is not None else [])
        case.solve('model-output-within-bounds[%s%s]' % ('' if not combo else 'cat=%s' % list(combo), ptag), core.any_of(bb), witness=w2, timeout=tmo,
                   sig=bounds_sig, replay=dict(fn='model', params=p, feature=None, var_names=var_names), required=p.get('required', True))
        if lin_norm_vars:
          # the recorded finding (all-zero normalised kernel) must not hide anything else: same question for unit-norm kernels
          unit = [sym.EQ(t, 1) for a in lin_norm_vars for t in c06.norm_terms(a, 1)]
          case.solve('model-output-within-bounds-for-unit-norm-weights[%s%s]' % ('' if not combo else 'cat=%s' % list(combo), ptag), core.any_of(bb),
                     assumptions=unit, witness=w2, timeout=tmo, sig=bounds_sig,
                     replay=dict(fn='model', params=p, feature=None, var_names=var_names), required=p.get('required', True))
    # sabotage twin: without the weight assumptions the goal is violable
    if gi == 0:
      sym.new_ctx()
      vv2 = {v.ref(): sym.symbolic('u%d' % i, tuple(v.shape)) for i, v in enumerate(tr.variables) if v.trainable}
      xs2 = []
      rel2 = []
      for i in range(nin):
        if names[i] in cats:
          xs2.append(sym.obj(np.array([[0.0], [1.0 if i == fi else 0.0]])))
        else:
          x_ = sym.symbolic('y%d' % i, (2, 1))
          xs2.append(x_)
          rel2.append(x_[0, 0] <= x_[1, 0] if i == fi else x_[0, 0] == x_[1, 0])
      (o2,) = tr.sym_run(*xs2, var_values=vv2)
      o2 = np.asarray(o2, dtype=object).reshape(2)
      sgn = -1 if goal == 'decreasing' else 1
      case.solve('twin:unconstrained-weights-can-violate', sym.b(sym.s_cmp('gt', sym.s_mul(o2[0], sgn), sym.s_mul(o2[1], sgn))),
                 assumptions=rel2, expect='sat', kind='twin', timeout=60)
  return case


def _input_names(model):
  out = []
  for t in model.inputs:
    n = t.name.split(':')[0]
    out.append(n[len('tfl_input_'):] if n.startswith('tfl_input_') else n)
  return out


def _apply(con):
  return lambda w: con(w)


def replay(r):
  import tensorflow as tf
  rp = r['replay']
  p = rp['params']
  entry = [m for m in _models('quick') if m[0] == p['model']][0]
  label, thunk, goals, bounds = entry[:4]
  model = thunk()
  if rp['fn'] == 'model-init':
    # the real constraints applied to the initial values must not move them
    # (initial values may be random: up to 30 fresh models are built)
    moved = {}
    for attempt in range(30):
      for v in model.trainable_variables:
        if v.constraint is not None:
          d = float(tf.reduce_max(tf.abs(v.constraint(v) - v)))
          if d > 1e-5:
            moved[v.name] = d
      if moved:
        break
      model = thunk()
    return dict(reproduced=bool(moved), detail=dict(moved_by_own_constraint=moved, fresh_models_built=attempt + 1))
  w = r['witness']
  tr_vars = None
  names = _input_names(model)
  xs = [tf.constant(core.witness_np(w['x%d' % i]).astype(np.float32)) for i in range(len(names))]
  fn = tf.function(lambda *a: model(list(a)), autograph=False).get_concrete_function(*[tf.TensorSpec([2, 1], tf.float32)] * len(names))
  byname = {v.name: v for v in fn.variables}
  for i, nm in enumerate(rp['var_names']):
    if ('v%d' % i) in w and nm in byname:
      byname[nm].assign(core.witness_np(w['v%d' % i]).astype(np.float32))
  # weights must satisfy their own constraints: apply the real constraints once and require (almost) no movement
  moved = 0.0
  # variables whose constraint has no predicate form (KFL scale, then KFL kernel) carry the raw pre-projection witness: the
  # real constraints are applied to them once, in that order, exactly as one optimizer step would
  for kind_ in ('NaiveBoundsConstraints', 'CategoricalCalibrationConstraints', 'ScaleConstraints', 'KroneckerFactoredLatticeConstraints'):
    for v in fn.variables:
      if v.constraint is not None and type(v.constraint).__name__ == kind_:
        v.assign(v.constraint(v))
  for v in fn.variables:
    if v.constraint is not None and type(v.constraint).__name__ not in ('NaiveBoundsConstraints', 'CategoricalCalibrationConstraints', 'ScaleConstraints', 'KroneckerFactoredLatticeConstraints'):
      new = v.constraint(v)
      moved = max(moved, float(tf.reduce_max(tf.abs(new - v))))
  out = model(xs).numpy().astype(np.float64).reshape(2)
  tol = 1e-4 * max(1.0, float(np.max(np.abs(out))))
  if rp['feature'] is None:
    bad = bool((bounds[0] is not None and out[0] < bounds[0] - tol) or (bounds[1] is not None and out[0] > bounds[1] + tol))
  else:
    goal = [g for f, g in goals if f == rp['feature']][0]
    sgn = -1 if goal == 'decreasing' else 1
    bad = bool(sgn * out[0] > sgn * out[1] + tol)
  return dict(reproduced=bad and moved < 1e-3, detail=dict(outputs=out.tolist(), inputs=[x.numpy().tolist() for x in xs],
                                                          weights_moved_by_own_constraints=moved))


def cases(tier, seed):
  out = []
  for m in _models(tier):
    hard = m[0] in ('calibrated-lattice-kfl', 'ensemble-rtl', 'ensemble-rtl-unconstrained-first', 'ensemble-explicit', 'ensemble-linear-combination',
                    'ensemble-linear-combination-upper-bound', 'ensemble-linear-combination-bounded',
                    'calibrated-lattice-output-calibration', 'calibrated-lattice-missing', 'calibrated-lattice-always-monotonic')
    out.append(dict(name=m[0], fn='case_model', params=dict(name=m[0], model=m[0], tier=tier, required=not hard, split=False,
                                                            timeout=(40 if hard else 90) if tier == 'quick' else 200),
                    cap=1500, required=not hard))
    if tier == 'thorough' and hard:
      nm = m[0] + '-by-pieces'
      out.append(dict(name=nm, fn='case_model', params=dict(name=nm, model=m[0], tier=tier, required=False, split=True, timeout=60),
                      cap=2400, required=False))
  return out
