"""Driver: python -m vf.run <PROPERTY> [--tier quick|thorough] [--replay FILE]

Exit codes: 0 property held on everything decided; 1 violation (VIOLATION line
printed, replay file written); 3 harness error (the machinery itself is broken
or inconclusive beyond its allowance) - never used to report a violation.
"""
import argparse
import hashlib
import importlib
import json
import multiprocessing as mp
import os
import queue
import sys
import time
import traceback

ROOT = os.path.dirname(os.path.dirname(os.path.abspath(__file__)))
sys.path.insert(0, ROOT)


def _worker(wid, modname, task_q, res_q):
  os.environ.setdefault('TF_CPP_MIN_LOG_LEVEL', '3')
  os.environ.setdefault('CUDA_VISIBLE_DEVICES', '')
  os.environ['OMP_NUM_THREADS'] = '1'
  os.environ['TF_NUM_INTRAOP_THREADS'] = '1'
  os.environ['TF_NUM_INTEROP_THREADS'] = '1'
  try:
    try:
      from absl import logging as absl_logging
      absl_logging.set_verbosity(absl_logging.ERROR)
    except Exception:  # pylint: disable=broad-except
      pass
    mod = importlib.import_module(modname)
    if getattr(mod, 'NEEDS_TF', True):
      import tensorflow as tf
      try:
        tf.config.threading.set_intra_op_parallelism_threads(1)
        tf.config.threading.set_inter_op_parallelism_threads(1)
      except RuntimeError:
        pass
  except BaseException as e:  # pylint: disable=broad-except
    res_q.put(('fatal', wid, None, traceback.format_exc()))
    return
  res_q.put(('ready', wid, None, None))
  while True:
    task = task_q.get()
    if task is None:
      break
    tid, kind, payload = task
    res_q.put(('start', wid, tid, None))
    try:
      if kind == 'case':
        fn = getattr(mod, payload['fn'])
        case = fn(**payload['params'])
        out = dict(results=case.results, functions=case.functions, meta=case.meta,
                   wall=round(time.time() - case.t0, 2))
      else:
        out = mod.replay(payload)
      res_q.put(('done', wid, tid, out))
    except Exception as e:  # pylint: disable=broad-except
      res_q.put(('error', wid, tid, traceback.format_exc()))


def run_tasks(modname, tasks, jobs, log):
  """tasks: list of (tid, kind, payload, cap_seconds). Returns {tid: (status, out)}."""
  ctx = mp.get_context('fork')
  task_q = ctx.Queue()
  res_q = ctx.Queue()
  caps = {t[0]: t[3] for t in tasks}
  pending = list(tasks)
  # longest first
  pending.sort(key=lambda t: -t[3])
  workers = {}
  running = {}
  results = {}
  next_wid = [0]

  def spawn():
    wid = next_wid[0]
    next_wid[0] += 1
    p = ctx.Process(target=_worker, args=(wid, modname, task_q, res_q), daemon=True)
    p.start()
    workers[wid] = p
    return wid

  n = min(jobs, max(1, len(tasks)))
  for _ in range(n):
    spawn()
  for t in pending:
    task_q.put((t[0], t[1], t[2]))
  total = len(tasks)
  fatal = None
  while len(results) < total:
    try:
      msg, wid, tid, out = res_q.get(timeout=1.0)
    except queue.Empty:
      msg = None
    now = time.time()
    if msg == 'fatal':
      fatal = out
      break
    if msg == 'start':
      running[wid] = (tid, now)
    elif msg in ('done', 'error'):
      running.pop(wid, None)
      results[tid] = (msg, out)
      if msg == 'error':
        log('  task %s raised:\n%s' % (tid, out))
    # hard caps
    for wid, (tid, t0) in list(running.items()):
      if now - t0 > caps[tid]:
        log('  task %s exceeded hard cap %ds: killing worker' % (tid, caps[tid]))
        workers[wid].terminate()
        workers[wid].join(5)
        running.pop(wid)
        results[tid] = ('timeout', None)
        spawn()
    # dead workers
    for wid, p in list(workers.items()):
      if not p.is_alive() and wid in running:
        tid, _ = running.pop(wid)
        results[tid] = ('error', 'worker died (exit %s)' % p.exitcode)
        log('  worker died on task %s (exit %s)' % (tid, p.exitcode))
        spawn()
  for _ in workers:
    task_q.put(None)
  time.sleep(0.2)
  for p in workers.values():
    if p.is_alive():
      p.terminate()
  if fatal:
    raise RuntimeError('worker start-up failed:\n' + fatal)
  return results


def load_known(prop):
  path = os.path.join(ROOT, 'known_findings.json')
  if not os.path.exists(path):
    return []
  with open(path) as f:
    data = json.load(f)
  return [e for e in data.get('findings', []) if e.get('property') == prop and e.get('status') == 'open']


def sig_matches(entry, sig):
  want = entry.get('sig', {})
  if not want:
    return False
  for k, v in want.items():
    if k not in sig:
      return False
    if isinstance(v, list) and not isinstance(sig[k], list):
      if sig[k] not in v:
        return False
    elif sig[k] != v:
      return False
  return True


def main(argv=None):
  ap = argparse.ArgumentParser()
  ap.add_argument('prop')
  ap.add_argument('--tier', default=os.environ.get('VERIF_TIER', 'quick'))
  ap.add_argument('--replay')
  ap.add_argument('--only')
  ap.add_argument('--jobs', type=int, default=int(os.environ.get('VERIF_JOBS', '16')))
  ap.add_argument('--no-evidence', action='store_true')
  a = ap.parse_args(argv)
  prop = a.prop.upper()
  tier = a.tier if a.tier in ('quick', 'thorough') else 'quick'
  seed = int(os.environ.get('VERIF_SEED', '0') or 0)
  modname = 'vf.props.%s' % prop.lower()
  t0 = time.time()

  def log(s):
    print(s, flush=True)

  mod = importlib.import_module(modname)

  if a.replay:
    with open(a.replay) as f:
      payload = json.load(f)
    if (payload.get('replay') or {}).get('fn') == 'inline':
      log('this witness was replayed on the real code inside the check run; recorded result:')
      log(json.dumps(payload.get('replay_result'), indent=1, default=str))
      ok = bool((payload.get('replay_result') or {}).get('reproduced'))
      if ok:
        log('VIOLATION property=%s replay=%s' % (prop, a.replay))
      return 1 if ok else 0
    res = run_tasks(modname, [('replay', 'replay', payload, 900)], 1, log)['replay']
    log(json.dumps(res[1], indent=1, default=str) if res[0] == 'done' else str(res))
    ok = res[0] == 'done' and res[1].get('reproduced')
    if ok:
      log('VIOLATION property=%s replay=%s' % (prop, a.replay))
    return 1 if ok else 0

  cases = mod.cases(tier, seed)
  if a.only:
    cases = [c for c in cases if a.only in c['name']]
  log('[%s] tier=%s seed=%d cases=%d jobs=%d' % (prop, tier, seed, len(cases), a.jobs))
  tasks = [(c['name'], 'case', dict(fn=c['fn'], params=c['params']), c.get('cap', 600)) for c in cases]
  names = [t[0] for t in tasks]
  if len(set(names)) != len(names):
    dup = sorted(set(n for n in names if names.count(n) > 1))
    raise RuntimeError('duplicate case names: %s' % dup[:5])
  out = run_tasks(modname, tasks, a.jobs, log)

  required = {c['name']: c.get('required', True) for c in cases}
  all_results = []
  functions = set()
  metas = {}
  harness_errors = []
  case_wall = {}
  for c in cases:
    st, o = out[c['name']]
    if st == 'done':
      for r in o['results']:
        r['case_required'] = required[c['name']]
      all_results.extend(o['results'])
      functions |= set(o['functions'])
      metas[c['name']] = o['meta']
      case_wall[c['name']] = o['wall']
    elif st == 'timeout':
      all_results.append(dict(case=c['name'], query='*', verdict='unknown', expect='unsat', solve_s=c.get('cap', 600),
                              kind='main', required=required[c['name']], case_required=required[c['name']],
                              config=c['params'], reason='hard cap'))
    else:
      harness_errors.append('case %s: %s' % (c['name'], str(o).strip().splitlines()[-1] if o else st))

  # ---- classify
  candidates = [r for r in all_results if r['verdict'] == 'sat' and (r['expect'] == 'unsat' or r.get('probe'))]
  twins_bad = [r for r in all_results if r['expect'] == 'sat' and r['verdict'] != 'sat']
  unknown = [r for r in all_results if r['verdict'] == 'unknown' and r['expect'] == 'unsat']
  for r in all_results:
    if (r.get('cross') or {}).get('verdict') == 'sat':
      harness_errors.append('solver disagreement on %s/%s: z3 unsat, cvc5 sat' % (r['case'], r['query']))
  for r in twins_bad:
    harness_errors.append('twin %s/%s expected sat, got %s' % (r['case'], r['query'], r['verdict']))

  # ---- replay candidates on the real code
  known = load_known(prop)
  violations, known_hits, nonrepro = [], [], []
  if candidates:
    rtasks = []
    no_replay = [r for r in candidates if not r.get('replay')]
    for r in no_replay:
      r['verdict'] = 'unknown'
      r['reason'] = 'solver found a witness but this query has no replay procedure on the real code'
      unknown.append(r)
    candidates = [r for r in candidates if r.get('replay')]
    for i, r in enumerate(candidates):
      if 'replay_result' not in r:
        rtasks.append(('replay%d' % i, 'replay', r, 600))
    rout = run_tasks(modname, rtasks, a.jobs, log) if rtasks else {}
    for i, r in enumerate(candidates):
      st, o = rout['replay%d' % i] if ('replay%d' % i) in rout else ('done', r['replay_result'])
      if st != 'done':
        harness_errors.append('replay of %s/%s failed: %s' % (r['case'], r['query'], str(o)[-300:]))
        continue
      r['replay_result'] = o
      if not o.get('reproduced'):
        if r.get('probe'):
          continue  # probe of a twin model on the real code behaved as expected
        if r.get('weak_witness'):
          r['verdict'] = 'unknown'
          r['reason'] = 'exact-arithmetic witness without margin does not reproduce in floating point'
          unknown.append(r)
        else:
          nonrepro.append(r)
        continue
      entry = None
      for e in known:
        if sig_matches(e, r.get('sig', {})):
          entry = e
          break
      if entry is not None:
        known_hits.append((entry, r))
      else:
        violations.append(r)
  for r in nonrepro:
    harness_errors.append('witness of %s/%s does not reproduce on the real code: %s' %
                          (r['case'], r['query'], json.dumps(r.get('replay_result'), default=str)[:300]))

  # ---- report
  rc = 0
  seen_known = set()
  for e, r in known_hits:
    if e['id'] in seen_known:
      continue
    seen_known.add(e['id'])
    log('KNOWN-FINDING: property=%s %s [%s; e.g. case %s/%s]' % (prop, e['what'], e['id'], r['case'], r['query']))
  rdir = os.path.join(ROOT, 'replays', prop)
  vio_paths = []
  if len(violations) > 8:
    log('(%d violating queries; reporting the first 8)' % len(violations))
  for r in violations[:8]:
    os.makedirs(rdir, exist_ok=True)
    blob = json.dumps(r, sort_keys=True, default=str)
    h = hashlib.sha1(blob.encode()).hexdigest()[:12]
    path = os.path.join(rdir, '%s.json' % h)
    with open(path, 'w') as f:
      f.write(json.dumps(r, indent=1, default=str))
    vio_paths.append(path)
    log('VIOLATION property=%s replay=%s' % (prop, path))
    log('  case=%s query=%s sig=%s' % (r['case'], r['query'], json.dumps(r.get('sig'), default=str)))
    log('  replay: %s' % json.dumps(r.get('replay_result'), default=str)[:400])
    rc = 1
  if violations:
    rc = 1

  decided = [r for r in all_results if r['verdict'] in ('sat', 'unsat')]
  main_unsat = [r for r in all_results if r['expect'] == 'unsat' and r['verdict'] == 'unsat']
  req_unknown = [r for r in unknown if r.get('required', True) and r.get('case_required', True)]
  for r in unknown:
    log('INCONCLUSIVE %s/%s (%s) after %.0fs%s' % (r['case'], r['query'], r.get('reason', ''), r['solve_s'],
                                                  '' if r in req_unknown else ' [stretch]'))
  if harness_errors:
    for h in harness_errors:
      log('HARNESS-ERROR %s' % h)
    if rc == 0:
      rc = 3
  if rc == 0 and not main_unsat and not known_hits:
    log('HARNESS-ERROR nothing was decided')
    rc = 3
  if rc == 0 and req_unknown and len(req_unknown) * 4 > len([r for r in all_results if r['expect'] == 'unsat']):
    log('HARNESS-ERROR more than a quarter of the required queries are inconclusive')
    rc = 3

  wall = time.time() - t0
  if not a.no_evidence and not a.only:
    write_evidence(mod, prop, tier, seed, cases, all_results, functions, metas, known_hits, violations,
                   unknown, harness_errors, wall, case_wall)
  log('[%s] %d queries: %d unsat, %d sat (%d known-finding, %d violation), %d unknown, %d twin(s) ok; '
      'solver %.1fs, wall %.1fs -> exit %d' % (
          prop, len(all_results), len(main_unsat), len([r for r in candidates if not r.get('probe')]), len(known_hits), len(violations), len(unknown),
          len([r for r in all_results if r['expect'] == 'sat' and r['verdict'] == 'sat']),
          sum(r['solve_s'] for r in all_results), wall, rc))
  return rc


def write_evidence(mod, prop, tier, seed, cases, results, functions, metas, known_hits, violations, unknown,
                   harness_errors, wall, case_wall):
  import z3
  meta = getattr(mod, 'META', {})
  decided = [r for r in results if r['verdict'] in ('sat', 'unsat')]
  configs = set()
  for r in decided:
    if r['expect'] == 'unsat':
      cfg = r.get('config')
      if cfg:
        configs.add(json.dumps(cfg, sort_keys=True, default=str))
      else:
        # one case covering many labelled configurations (C11, C16, C17): the label inside [...] identifies it
        q = r['query']
        configs.add('%s|%s' % (r['case'], q[q.index('[') + 1:q.rindex(']')] if '[' in q and ']' in q else q))
  by = {}
  for r in results:
    k = '%s:%s' % (r.get('kind', 'main'), r['verdict'])
    by[k] = by.get(k, 0) + 1
  fam = {}
  for r in results:
    q = r['query'].split('[')[0]
    d = fam.setdefault(q, dict(unsat=0, sat=0, unknown=0, solve_s=0.0, max_s=0.0))
    d[r['verdict']] = d.get(r['verdict'], 0) + 1
    d['solve_s'] = round(d['solve_s'] + r['solve_s'], 3)
    d['max_s'] = max(d['max_s'], r['solve_s'])
  samples = []
  step = max(1, len(results) // 12)
  for r in results[::step][:12]:
    samples.append(dict(case=r['case'], query=r['query'], config=r.get('config'), verdict=r['verdict'],
                        expect=r['expect'], solve_s=r['solve_s']))
  for e, r in known_hits[:3]:
    samples.append(dict(case=r['case'], query=r['query'], config=r.get('config'), verdict='sat (known finding %s)' % e['id'],
                        witness=r.get('witness'), replay=r.get('replay_result')))
  val_pts = sum(m.get('validation_points', 0) for m in metas.values())
  val_mis = sum(m.get('validation_mismatch', 0) for m in metas.values())
  stubs = sorted(set(s for m in metas.values() for s in m.get('stubs', [])))
  ops = {}
  for m in metas.values():
    for k, n in m.get('ops', {}).items():
      ops[k] = ops.get(k, 0) + n
  ev = dict(
      property_id=prop, tier=tier, seed=seed, level=meta.get('level', 'model_checking'),
      coverage=dict(
          evaluations=len(decided),
          distinct_nontrivial=len(configs),
          rule=meta.get('rule', 'one encoding per enumerated configuration; evaluations = solver/structural queries decided '
                                '(unsat/sat); distinct_nontrivial = number of distinct configurations (parameter dictionary of '
                                'the case, or the configuration label of the query where one case covers a labelled catalogue) '
                                'for which at least one property query (not a twin) was decided'),
          samples=samples,
          exhaustive=False,
          technique=meta.get('technique', 'symbolic execution of the traced TensorFlow graph + z3'),
          functions_encoded=sorted(functions),
          bounds=meta.get('bounds', {}).get(tier, meta.get('bounds')),
          outside_claim=meta.get('outside', []),
          cases=len(cases),
          queries_total=len(results),
          queries_by_kind_verdict=by,
          query_families=fam,
          solver='z3 %s' % z3.get_version_string(),
          second_solver=dict(solver='cvc5 (python wheel)', note='queries z3 answered unsat re-asked via SMT-LIB2 text under a per-worker time budget; '
                             'disagreement = harness error; unknown/timeout = no second opinion',
                             agree=len([x for x in results if (x.get('cross') or {}).get('verdict') == 'unsat']),
                             disagree=len([x for x in results if (x.get('cross') or {}).get('verdict') == 'sat']),
                             no_opinion=len([x for x in results if 'cross' in x and x['cross'].get('verdict') not in ('sat', 'unsat')]),
                             time_s=round(sum((x.get('cross') or {}).get('s', 0) for x in results), 2)),
          solver_time_s=round(sum(r['solve_s'] for r in results), 2),
          stubs_used=stubs,
          graph_ops_interpreted=ops,
          translator_validation_points=val_pts,
          translator_validation_mismatches=val_mis,
          vacuity_and_sabotage_twins=len([r for r in results if r['expect'] == 'sat']),
          known_findings_reported=sorted(set(e['id'] for e, _ in known_hits)),
          inconclusive=[dict(case=r['case'], query=r['query'], reason=r.get('reason'), required=r.get('required', True) and r.get('case_required', True))
                        for r in unknown][:50],
          harness_errors=harness_errors[:20],
          slowest_cases=sorted(case_wall.items(), key=lambda kv: -kv[1])[:5],
      ),
      assumptions=meta.get('assumptions', []),
      wall_s=round(wall, 2),
      violations=len(violations),
  )
  os.makedirs(os.path.join(ROOT, 'evidence'), exist_ok=True)
  with open(os.path.join(ROOT, 'evidence', '%s.json' % prop), 'w') as f:
    json.dump(ev, f, indent=1, default=str)
  if tier == 'thorough':
    # the latest run of either tier is evidence/<id>.json; the latest thorough run is kept next to it as well
    os.makedirs(os.path.join(ROOT, 'evidence', 'thorough'), exist_ok=True)
    with open(os.path.join(ROOT, 'evidence', 'thorough', '%s.json' % prop), 'w') as f:
      json.dump(ev, f, indent=1, default=str)


if __name__ == '__main__':
  sys.exit(main())
