#!/bin/bash
# usage (inside `vp run --with-repo -- tools/run_thorough_bg.sh [ids...]`): runs the thorough tier of the given checks against the
# repository snapshot, one after the other, printing one summary line per check.
cd "$(dirname "$0")/.."
export VERIF_REPO=${VP_RUN_REPO:-/repo}
IDS=${@:-C01 C02 C03 C04 C05 C06 C07 C08 C09 C10 C11 C12 C13 C14 C15 C16 C17 C18 C19 C20}
for id in $IDS; do
  s=$(date +%s)
  ./check $id --tier thorough > thorough_$id.log 2>&1
  rc=$?
  echo "$id rc=$rc $(( $(date +%s) - s ))s $(tail -1 thorough_$id.log | cut -c1-220)"
  grep -E "^(VIOLATION|HARNESS-ERROR|KNOWN-FINDING)" thorough_$id.log | cut -c1-300 | head -10
done
