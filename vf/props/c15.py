"""C15 - Conditional calibration and CDF functions are bounded, monotone by construction."""
import itertools
from fractions import Fraction

import numpy as np
import z3

from vf import sym, specs, core
from vf.core import Case, Traced

PROP = 'C15'

META = dict(
    level='model_checking',
    technique='symbolic execution of the traced TF graphs of pwl_calibration_fn, cdf_fn and CDF.call (after the real NonNeg '
              'constraint) with free-form symbolic parameter tensors; softmax -> simplex contract, sigmoid/exp/log -> monotone '
              'range contracts; z3 decides range, monotonicity (two input points), clamp/cyclic/missing statements',
    bounds=dict(quick='pwl_calibration_fn: 2-4 keypoints (incl. keypoint_input_parameters=None), units 1-2, every '
                      'monotonicity/clamp/cyclic/missing mode, 2-D and 3-D parameter shapes; CDF / cdf_fn: input_dim 2-4, 2-3 basis '
                      'functions, units 1-2, relu6/sigmoid, mean/geometric_mean/none, sparsity 1-2, all scaling types, exp transform; '
                      'all real parameters and inputs; float32 semantics (IEEE, round to nearest even) for cdf_fn and CDF with one input, '
                      'one keypoint, one unit, relu6: every finite float32 input / location / non-negative scaling up to 2^100', thorough='5 keypoints, input_dim 4 with units 4'),
    outside=['IEEE-754 rounding/overflow except on the one-element float32 cases (range decided, monotonicity a stretch query); sigmoid saturating to exactly 0 or 1; softmax underflow other than the modelled one (one '
             'keypoint share exactly 0 in pwl_calibration_fn, division by the zero length executed as IEEE)', 'upper bound of the geometric mean beyond '
             '1+epsilon (the epsilon is documented)'],
    assumptions=['contracts: softmax outputs positive and sum to 1; sigmoid in (0,1) and monotone; exp > 0 monotone; log monotone',
                 'TF op semantics per vf/interp.py (validated per case)', 'z3 is sound'],
)


def _pwl_kw(p):
  return dict(units=p['units'], keypoint_input_min=p.get('imin', 0.0), keypoint_input_max=p.get('imax', 2.0),
              keypoint_output_min=p.get('omin', 0.0), keypoint_output_max=p.get('omax', 1.0), monotonicity=p['mono'],
              clamp_min=p.get('clamp_min', False), clamp_max=p.get('clamp_max', False), is_cyclic=p.get('cyclic', False),
              missing_input_value=p.get('missing_input'), missing_output_value=p.get('missing_output'))


def _pwl_shapes(p, B):
  nk, units = p['nk'], p['units']
  kw = _pwl_kw(p)
  osize = (nk - int(kw['clamp_min']) - int(kw['clamp_max']) - int(kw['is_cyclic'])
           + int(kw['missing_input_value'] is not None) - int(kw['missing_output_value'] is not None))
  cols = units if p.get('per_unit_input') else 1
  pb = 1 if p.get('shared_params') else B
  if p.get('two_d_inputs'):
    # documented: 2-D keypoint_input_parameters (shared by all units) next to 3-D output parameters
    ishape, oshape = [pb, nk - 2], [pb, units if not p.get('bcast_units') else 1, osize]
  elif p.get('two_d'):
    ishape, oshape = [pb, nk - 2], [pb, osize]
  else:
    ishape, oshape = [pb, units if not p.get('bcast_units') else 1, nk - 2], [pb, units if not p.get('bcast_units') else 1, osize]
  return [B, cols], ishape, oshape


def case_pwl_fn(**p):
  import tensorflow as tf
  from tensorflow_lattice.python import conditional_pwl_calibration as cp
  case = Case(PROP, p['name'], {k: v for k, v in p.items() if k != 'name'})
  case.encoded(cp.pwl_calibration_fn, cp._verify_pwl_calibration, cp._compute_interpolation_weights)
  B = 2
  kw = _pwl_kw(p)
  xs, ishape, oshape = _pwl_shapes(p, B)
  none_inputs = p['nk'] == 2 and p.get('omit_input_params', False)
  try:
    if none_inputs:
      tr = Traced(lambda x, ko: cp.pwl_calibration_fn(x, None, ko, **kw), [tf.TensorSpec(xs, tf.float32), tf.TensorSpec(oshape, tf.float32)],
                  name='pwl_calibration_fn')
    else:
      tr = Traced(lambda x, ki, ko: cp.pwl_calibration_fn(x, ki, ko, **kw),
                  [tf.TensorSpec(xs, tf.float32), tf.TensorSpec(ishape, tf.float32), tf.TensorSpec(oshape, tf.float32)], name='pwl_calibration_fn')
  except ValueError as e:
    case.record('documented-call-form-is-accepted', 'sat', witness={}, replay=dict(fn='pwl-accept', params=p),
                sig=dict(query='accept', none_inputs=none_inputs), note='ValueError: %s' % str(e)[:160])
    return case
  case.record('documented-call-form-is-accepted', 'unsat', kind='structural', witness={}, replay=None, sig=dict(query='accept'))

  def gen(rng, i, shp, trial):
    return rng.integers(-8, 17, size=shp) / 4.0
  done, mism = tr.validate(np.random.default_rng(0), n=2, gen=gen)
  sym.new_ctx()
  x = sym.symbolic('x', tuple(xs))
  ko = sym.symbolic('ko', tuple(oshape))
  args = [x, ko]
  wit = dict(x=x, ko=ko)
  if not none_inputs:
    ki = sym.symbolic('ki', tuple(ishape))
    args = [x, ki, ko]
    wit['ki'] = ki
  (out,) = tr.sym_run(*args)
  case.meta.update(validation_points=done, validation_mismatch=mism, ops=tr.ops_seen, stubs=sym.ctx().stubs, nodes=tr.n_nodes)
  omin, omax = Fraction(kw['keypoint_output_min']), Fraction(kw['keypoint_output_max'])
  tmo = p.get('timeout', 60)
  replay = dict(fn='pwl', params=p)
  mi = kw['missing_input_value']
  X = np.broadcast_to(x, (B, p['units'])) if x.shape[1] == 1 else x
  notmiss = [X[b_, u] != Fraction(mi) for b_ in range(B) for u in range(p['units'])] if mi is not None else []
  bad = []
  for v in out.reshape(-1):
    bad += [sym.s_cmp('lt', v, omin), sym.s_cmp('gt', v, omax), z3.Not(sym.defined(v))]
  case.solve('outputs-within-bounds', core.any_of(bad), assumptions=notmiss if kw['missing_output_value'] is not None else [],
             witness=wit, timeout=tmo, sig=dict(query='bounds'), replay=replay, required=p.get('required', True))
  same_params = []
  for arr in args[1:]:
    if arr.shape[0] == B:
      same_params += [arr[0][idx] == arr[1][idx] for idx in np.ndindex(*arr.shape[1:])]
  if kw['monotonicity'] == 'increasing':
    rel = [X[0, u] <= X[1, u] for u in range(p['units'])]
    bad = [sym.s_cmp('gt', out[0, u], out[1, u]) for u in range(p['units'])]
    case.solve('non-decreasing-in-input', core.any_of(bad), assumptions=rel + same_params + notmiss, witness=wit, timeout=tmo,
               sig=dict(query='monotone'), replay=replay, required=p.get('required', True))
  imin, imax = Fraction(kw['keypoint_input_min']), Fraction(kw['keypoint_input_max'])
  at_min = [X[0, u] == imin for u in range(p['units'])]
  at_max = [X[1, u] == imax for u in range(p['units'])]
  if kw['clamp_min']:
    case.solve('clamped-to-output_min-at-first-keypoint', core.any_of([sym.NE(out[0, u], omin) for u in range(p['units'])]),
               assumptions=at_min + notmiss, witness=wit, timeout=tmo, sig=dict(query='clamp'), replay=replay)
  if kw['clamp_max']:
    case.solve('clamped-to-output_max-at-last-keypoint', core.any_of([sym.NE(out[1, u], omax) for u in range(p['units'])]),
               assumptions=at_max + notmiss, witness=wit, timeout=tmo, sig=dict(query='clamp'), replay=replay)
  if kw['is_cyclic']:
    case.solve('cyclic-ends-agree', core.any_of([sym.NE(out[0, u], out[1, u]) for u in range(p['units'])]),
               assumptions=at_min + at_max + same_params + notmiss, witness=wit, timeout=tmo, sig=dict(query='cyclic'), replay=replay)
  if mi is not None:
    miss = [X[0, u] == Fraction(mi) for u in range(p['units'])]
    if kw['missing_output_value'] is not None:
      bad = [sym.NE(out[0, u], Fraction(kw['missing_output_value'])) for u in range(p['units'])]
    else:
      bad = []
      for u in range(p['units']):
        bad += [sym.s_cmp('lt', out[0, u], omin), sym.s_cmp('gt', out[0, u], omax)]
    case.solve('missing-input-maps-to-missing-output', core.any_of(bad), assumptions=miss, witness=wit, timeout=tmo,
               sig=dict(query='missing'), replay=replay)
    if kw['missing_output_value'] is None:
      # the learned missing output does not depend on the non-missing machinery: equal for both rows when parameters agree
      miss2 = miss + [X[1, u] == Fraction(mi) for u in range(p['units'])]
      case.solve('missing-output-independent-of-position', core.any_of([sym.NE(out[0, u], out[1, u]) for u in range(p['units'])]),
                 assumptions=miss2 + same_params, witness=wit, timeout=tmo, sig=dict(query='missing'), replay=replay)
  case.solve('twin:output-varies', sym.NE(out[0, 0], out[1, 0]), expect='sat', kind='twin', timeout=60)
  return case


def case_pwl_fn_underflow(**p):
  """pwl_calibration_fn with a keypoint share that underflowed to exactly 0 in softmax (float32 does that for logit gaps
  beyond ~104): a zero-length piece, divided by the IEEE way (x/0 = +-inf, 0/0 = NaN).  The output must still be a number
  inside the bounds and monotone."""
  import tensorflow as tf
  from tensorflow_lattice.python import conditional_pwl_calibration as cp
  case = Case(PROP, p['name'], {k: v for k, v in p.items() if k != 'name'})
  case.encoded(cp.pwl_calibration_fn, cp._compute_interpolation_weights)
  p = dict(p, units=1)
  kw = _pwl_kw(p)
  nk, zi = p['nk'], p['zero']
  B = 2
  xs, ishape, oshape = _pwl_shapes(dict(p, shared_params=True), B)
  tr = Traced(lambda x, ki, ko: cp.pwl_calibration_fn(x, ki, ko, **kw),
              [tf.TensorSpec(xs, tf.float32), tf.TensorSpec(ishape, tf.float32), tf.TensorSpec(oshape, tf.float32)], name='pwl_calibration_fn')
  done, mism = tr.validate(np.random.default_rng(0), n=2, gen=lambda rng, i, shp, trial: rng.integers(-8, 17, size=shp) / 4.0)
  omin, omax = Fraction(kw['keypoint_output_min']), Fraction(kw['keypoint_output_max'])
  tmo = p.get('timeout', 60)
  replay = dict(fn='pwl-underflow', params=p)
  state = dict(n=0)

  def build(extra, leaf):
    c = sym.new_ctx()
    c.memo['ieee_div0'] = True
    c.memo['softmax_zero'] = (zi,)
    c.memo['softmax_zero_call'] = 0  # the keypoint softmax is the first one of the function
    c.case_assumptions = list(extra)
    x = sym.symbolic('x', tuple(xs))
    ki = sym.symbolic('ki', tuple(ishape))
    ko = sym.symbolic('ko', tuple(oshape))
    wit = dict(x=x, ki=ki, ko=ko)
    tag = '[leaf=%s]' % (leaf or 'root')
    state['n'] += 1

    def shares():
      rows = [vs for (row, vs) in c.softmax.values()]
      return np.array(rows[0], dtype=object).reshape(1, -1) if rows else np.zeros((1, 0), dtype=object)
    try:
      (out,) = tr.sym_run(x, ki, ko)
    except sym.Undefined as e:
      wit['shares'] = shares()
      case.solve('output-is-a-number-with-collapsed-piece' + tag, z3.BoolVal(True), witness=wit, timeout=tmo,
                 sig=dict(query='underflow-nan', why=str(e)[:40]), replay=replay)
      return
    wit['shares'] = shares()
    case.meta.update(validation_points=done, validation_mismatch=mism, ops=tr.ops_seen, stubs=sym.ctx().stubs)
    bad = []
    for v in out.reshape(-1):
      bad += [sym.s_cmp('lt', v, omin), sym.s_cmp('gt', v, omax), z3.Not(sym.defined(v))]
    case.solve('outputs-within-bounds-with-collapsed-piece' + tag, core.any_of(bad), witness=wit, timeout=tmo,
               sig=dict(query='underflow-bounds'), replay=replay, required=p.get('required', True))
    if kw['monotonicity'] == 'increasing':
      case.solve('non-decreasing-with-collapsed-piece' + tag, sym.s_cmp('gt', out[0, 0], out[1, 0]), assumptions=[x[0, 0] <= x[1, 0]],
                 witness=wit, timeout=tmo, sig=dict(query='underflow-monotone'), replay=replay, required=p.get('required', True))
    case.solve('twin:leaf-reachable' + tag, z3.BoolVal(True), expect='sat', kind='twin', timeout=30)
  core.split_run(build)
  return case


def _cdf_layer(p):
  import tensorflow as tf
  from tensorflow_lattice.python import cdf_layer as CL
  layer = CL.CDF(num_keypoints=p['nk'], units=p['units'], activation=p['activation'], reduction=p['reduction'],
                 input_scaling_type=p.get('scaling', 'learned_per_input'), sparsity_factor=p.get('sparsity', 1),
                 input_scaling_monotonicity=p.get('scaling_mono', 'increasing'))
  if p.get('via_config'):
    # the layer a saved / cloned model holds: re-created from its own config (which carries canonical values)
    layer = CL.CDF.from_config(layer.get_config())
  # CDF.build does not mark the layer as built, so the first call would create fresh variables: call it once here
  layer(tf.zeros([1, p['dim']]))
  return layer


def _range_mono_queries(case, out, X, B, dim, wit, replay, tmo, same, p, geometric):
  o = np.asarray(out, dtype=object).reshape(B, -1)
  bad = []
  for v in o.reshape(-1):
    bad.append(sym.s_cmp('lt', v, 0))
    if not geometric:
      bad.append(sym.s_cmp('gt', v, 1))
  case.solve('outputs-within-unit-interval' if not geometric else 'outputs-nonnegative', core.any_of(bad), witness=wit, timeout=tmo,
             sig=dict(query='range'), replay=replay, required=p.get('required', True))
  for d0 in range(dim):
    rel = [X[0, d] <= X[1, d] if d == d0 else X[0, d] == X[1, d] for d in range(dim)]
    badm = [sym.s_cmp('gt', o[0, j], o[1, j]) for j in range(o.shape[1])]
    case.solve('non-decreasing-in-input[%d]' % d0, core.any_of(badm), assumptions=rel + same, witness=wit, timeout=tmo,
               sig=dict(query='monotone'), replay=replay, required=p.get('required', True) and not geometric)
  case.solve('twin:output-varies', sym.NE(o[0, 0], o[1, 0]), expect='sat', kind='twin', timeout=60)


def case_cdf_layer(**p):
  import tensorflow as tf
  from tensorflow_lattice.python import cdf_layer as CL
  case = Case(PROP, p['name'], {k: v for k, v in p.items() if k != 'name'})
  case.encoded(CL.CDF.call, CL.CDF.build)
  layer = _cdf_layer(p)
  B, dim = 2, p['dim']
  tr = Traced(lambda x: layer(x), [tf.TensorSpec([B, dim], tf.float32)], name='CDF.call')
  done, mism = tr.validate(np.random.default_rng(0), n=2, gen=lambda r, i, s, t: r.integers(-8, 17, size=s) / 8.0)
  sym.new_ctx()
  x = sym.symbolic('x', (B, dim))
  K = sym.symbolic('k', tuple(layer.kernel.shape))
  vv = {layer.kernel.ref(): K}
  wit = dict(x=x, k=K)
  if p.get('scaling', 'learned_per_input') != 'fixed':
    raw = sym.symbolic('s', tuple(layer.input_scaling.shape))
    con = layer.input_scaling.constraint
    if con is not None:
      trc = Traced(lambda s: con(s), [tf.TensorSpec(list(raw.shape), tf.float32)], name='NonNeg')
      (sc,) = trc.sym_run(raw)
      case.encoded(type(con).__call__)
    else:
      sc = raw
    vv[layer.input_scaling.ref()] = sc
    wit['s'] = raw
  (out,) = tr.sym_run(x, var_values=vv)
  case.meta.update(validation_points=done, validation_mismatch=mism, ops=tr.ops_seen, stubs=sym.ctx().stubs)
  _range_mono_queries(case, out, x, B, dim, wit, dict(fn='cdf-layer', params=p), p.get('timeout', 90), [], p,
                      p['reduction'] == 'geometric_mean')
  return case


def case_cdf_fn(**p):
  import tensorflow as tf
  from tensorflow_lattice.python import conditional_cdf as cc
  case = Case(PROP, p['name'], {k: v for k, v in p.items() if k != 'name'})
  case.encoded(cc.cdf_fn, cc._verify_cdf_params)
  B, dim, nk, units, sp = 2, p['dim'], p['nk'], p['units'], p.get('sparsity', 1)
  lshape = [B, dim, nk, units // sp]
  sshape = {'per_input': [B, dim, 1, 1], 'full': lshape, 'per_fn': [B, dim, nk, 1], None: None}[p.get('scaling_shape', 'per_input')]
  mult = p.get('exp_mult')
  if sshape is None:
    fn = lambda x, l: cc.cdf_fn(x, l, None, units=units, activation=p['activation'], reduction=p['reduction'], sparsity_factor=sp)
    specs_ = [tf.TensorSpec([B, dim], tf.float32), tf.TensorSpec(lshape, tf.float32)]
  else:
    fn = lambda x, l, s: cc.cdf_fn(x, l, s, units=units, activation=p['activation'], reduction=p['reduction'], sparsity_factor=sp,
                                   scaling_exp_transform_multiplier=mult)
    specs_ = [tf.TensorSpec([B, dim], tf.float32), tf.TensorSpec(lshape, tf.float32), tf.TensorSpec(sshape, tf.float32)]
  tr = Traced(fn, specs_, name='cdf_fn')
  done, mism = tr.validate(np.random.default_rng(0), n=2, gen=lambda r, i, s, t: r.integers(0, 17, size=s) / 8.0)
  sym.new_ctx()
  x = sym.symbolic('x', (B, dim))
  loc = sym.symbolic('l', tuple(lshape))
  args = [x, loc]
  wit = dict(x=x, l=loc)
  same = [loc[0][idx] == loc[1][idx] for idx in np.ndindex(*lshape[1:])]
  if sshape is not None:
    sc = sym.symbolic('s', tuple(sshape))
    if mult is None:
      sym.ctx().assume(*[v >= 0 for v in sc.reshape(-1)])   # documented precondition: non-negative scaling
    args.append(sc)
    wit['s'] = sc
    same += [sc[0][idx] == sc[1][idx] for idx in np.ndindex(*sshape[1:])]
  (out,) = tr.sym_run(*args)
  case.meta.update(validation_points=done, validation_mismatch=mism, ops=tr.ops_seen, stubs=sym.ctx().stubs)
  _range_mono_queries(case, out, x, B, dim, wit, dict(fn='cdf-fn', params=p), p.get('timeout', 90), same, p,
                      p['reduction'] == 'geometric_mean')
  return case


def case_cdf_fn_float32(**p):
  """cdf_fn on a one-keypoint, one-unit, one-input configuration (every tensor holds a single float32): the real graph is
  interpreted over IEEE float32 terms (round to nearest even) instead of exact rationals, so that rounding at large magnitudes
  is part of the semantics.  Range and monotonicity are asked for every finite float32 input, location and (non-negative)
  scaling up to 2^100."""
  import tensorflow as tf
  from tensorflow_lattice.python import conditional_cdf as cc
  case = Case(PROP, p['name'], {k: v for k, v in p.items() if k != 'name'})
  case.encoded(cc.cdf_fn)
  scaled = p.get('scaled', False)
  red = p.get('reduction', 'mean')
  if scaled:
    fn = lambda x, l, s_: cc.cdf_fn(x, l, s_, units=1, activation='relu6', reduction=red)
    specs_ = [tf.TensorSpec([1, 1], tf.float32), tf.TensorSpec([1, 1, 1, 1], tf.float32), tf.TensorSpec([1, 1, 1, 1], tf.float32)]
  else:
    fn = lambda x, l: cc.cdf_fn(x, l, None, units=1, activation='relu6', reduction=red)
    specs_ = [tf.TensorSpec([1, 1], tf.float32), tf.TensorSpec([1, 1, 1, 1], tf.float32)]
  tr = Traced(fn, specs_, name='cdf_fn[float32]')
  sym.new_ctx()
  F = z3.Float32()
  xs = [z3.FP('x%d' % i, F) for i in range(2)]
  loc, sc = z3.FP('loc', F), z3.FP('scale', F)
  big = z3.FPVal(2.0 ** 100, F)
  fin = []
  for t in xs + [loc] + ([sc] if scaled else []):
    fin += [z3.Not(z3.fpIsNaN(t)), z3.fpLEQ(z3.fpAbs(t), big)]
  if scaled:
    fin.append(z3.fpGEQ(sc, z3.FPVal(0.0, F)))   # documented precondition: non-negative scaling
  outs = []
  for xv in xs:
    args = [np.array([[xv]], dtype=object), np.array([[[[loc]]]], dtype=object)] + ([np.array([[[[sc]]]], dtype=object)] if scaled else [])
    (o,) = tr.sym_run(*args)
    outs.append(np.asarray(o, dtype=object).reshape(-1)[0])
  case.meta.update(ops=tr.ops_seen, float_regime='IEEE float32, RNE; tensors of one element only')
  wit = dict(x=np.array([[xs[0]], [xs[1]]], dtype=object), loc=np.array([loc], dtype=object))
  if scaled:
    wit['scale'] = np.array([sc], dtype=object)

  def rp(m):
    xn = np.array([[sym.fp_value(xs[0], m)], [sym.fp_value(xs[1], m)]], dtype=np.float32)
    ln = np.full([2, 1, 1, 1], sym.fp_value(loc, m), dtype=np.float32)
    a = [tf.constant(xn), tf.constant(ln)] + ([tf.constant(np.full([2, 1, 1, 1], sym.fp_value(sc, m), dtype=np.float32))] if scaled else [None])
    out = cc.cdf_fn(a[0], a[1], a[2], units=1, activation='relu6', reduction=red).numpy().astype(np.float64).reshape(-1)
    bad = bool(np.any(~np.isfinite(out)) or np.any(out < 0) or np.any(out > 1) or (xn[0, 0] <= xn[1, 0] and out[0] > out[1]))
    return dict(reproduced=bad, detail=dict(x=xn.reshape(-1).tolist(), location=float(ln[0, 0, 0, 0]), scale=(sym.fp_value(sc, m) if scaled else None), out=out.tolist()))
  o0 = outs[0]
  one = z3.FPVal(1.0, F)
  zero = z3.FPVal(0.0, F)
  case.solve('float32-output-in-unit-interval', z3.Or(z3.fpIsNaN(o0), z3.fpLT(o0, zero), z3.fpGT(o0, one)), assumptions=fin, witness=wit,
             timeout=p.get('timeout', 120), sig=dict(query='float32-range'), inline_replay=rp)
  # stretch: three float32 variables through a subtraction are beyond bit-blasting in z3 and cvc5 (no verdict in 300 s on the
  # unchanged tree); the query can only ever report a witness, it is never counted as held
  case.solve('float32-output-non-decreasing-in-input[stretch]', z3.fpGT(outs[0], outs[1]), assumptions=fin + [z3.fpLEQ(xs[0], xs[1])], witness=wit,
             timeout=p.get('mono_timeout', 30), sig=dict(query='float32-monotone'), inline_replay=rp, required=False)
  case.solve('twin:float32-output-varies', z3.Not(z3.fpEQ(outs[0], outs[1])), assumptions=fin, expect='sat', kind='twin', timeout=60)
  return case


def case_cdf_layer_float32(**p):
  """the CDF layer with one input, one keypoint, one unit in float32 semantics (see case_cdf_fn_float32): output in [0, 1] for
  every finite float32 input, keypoint location and non-negative input scaling"""
  import tensorflow as tf
  from tensorflow_lattice.python import cdf_layer as CL
  case = Case(PROP, p['name'], {k: v for k, v in p.items() if k != 'name'})
  case.encoded(CL.CDF.call)
  q = dict(dim=1, nk=1, units=1, activation='relu6', reduction=p.get('reduction', 'mean'), scaling=p.get('scaling', 'learned_per_input'))
  layer = _cdf_layer(q)
  tr = Traced(lambda x: layer(x), [tf.TensorSpec([1, 1], tf.float32)], name='CDF.call[float32]')
  sym.new_ctx()
  F = z3.Float32()
  x, loc, sc = z3.FP('x', F), z3.FP('loc', F), z3.FP('scale', F)
  big = z3.FPVal(2.0 ** 100, F)
  fin = []
  for t in (x, loc, sc):
    fin += [z3.Not(z3.fpIsNaN(t)), z3.fpLEQ(z3.fpAbs(t), big)]
  fin.append(z3.fpGEQ(sc, z3.FPVal(0.0, F)))   # what the NonNeg constraint leaves
  vv = {layer.kernel.ref(): np.full(tuple(layer.kernel.shape), loc, dtype=object)}
  if q['scaling'] != 'fixed':
    vv[layer.input_scaling.ref()] = np.full(tuple(layer.input_scaling.shape), sc, dtype=object)
  (o,) = tr.sym_run(np.array([[x]], dtype=object), var_values=vv)
  o0 = np.asarray(o, dtype=object).reshape(-1)[0]
  case.meta.update(ops=tr.ops_seen, float_regime='IEEE float32, RNE; tensors of one element only')

  def rp(m):
    lay = _cdf_layer(q)
    lay.kernel.assign(np.full(tuple(lay.kernel.shape), sym.fp_value(loc, m), dtype=np.float32))
    if q['scaling'] != 'fixed':
      lay.input_scaling.assign(np.full(tuple(lay.input_scaling.shape), sym.fp_value(sc, m), dtype=np.float32))
    out = lay(tf.constant([[sym.fp_value(x, m)]], tf.float32)).numpy().astype(np.float64).reshape(-1)
    return dict(reproduced=bool(np.any(~np.isfinite(out)) or np.any(out < 0) or np.any(out > 1)),
                detail=dict(x=sym.fp_value(x, m), location=sym.fp_value(loc, m), scale=sym.fp_value(sc, m), out=out.tolist()))
  case.solve('float32-output-in-unit-interval', z3.Or(z3.fpIsNaN(o0), z3.fpLT(o0, z3.FPVal(0.0, F)), z3.fpGT(o0, z3.FPVal(1.0, F))), assumptions=fin,
             witness=dict(x=np.array([x], dtype=object), loc=np.array([loc], dtype=object), scale=np.array([sc], dtype=object)),
             timeout=p.get('timeout', 240), sig=dict(query='float32-range'), inline_replay=rp, required=p.get('required', True))
  case.solve('twin:float32-output-can-be-positive', z3.fpGT(o0, z3.FPVal(0.0, F)), assumptions=fin, expect='sat', kind='twin', timeout=60)
  return case


def replay(r):
  import tensorflow as tf
  rp = r['replay']
  p = rp['params']
  w = r['witness']
  tolf = 1e-4
  if rp['fn'] == 'pwl-accept':
    from tensorflow_lattice.python import conditional_pwl_calibration as cp
    kw = _pwl_kw(p)
    xs, ishape, oshape = _pwl_shapes(p, 2)
    try:
      cp.pwl_calibration_fn(tf.zeros(xs), None if (p['nk'] == 2 and p.get('omit_input_params')) else tf.zeros(ishape), tf.zeros(oshape), **kw)
    except ValueError as e:
      return dict(reproduced=True, detail=dict(error=str(e)[:300]))
    return dict(reproduced=False, detail='accepted')
  if rp['fn'] == 'pwl-underflow':
    # logits reproduce the model's softmax shares, the underflowed one 200 below the smallest other (float32 softmax
    # then returns exactly 0); an input the model puts on a keypoint is put on the float keypoint computed by the same ops
    from tensorflow_lattice.python import conditional_pwl_calibration as cp
    kw = _pwl_kw(p)
    zi = p['zero']
    sh = core.witness_np(w['shares']).astype(np.float64).reshape(-1)
    lg = np.where(sh > 0, np.log(np.where(sh > 0, sh, 1.0)), 0.0)
    lg[zi] = float(np.min(lg[[i for i in range(len(lg)) if i != zi]])) - 200.0
    ki = (lg[1:] - lg[0]).astype(np.float32).reshape(core.witness_np(w['ki']).shape)
    ko = core.witness_np(w['ko']).astype(np.float32)
    padded = cp._front_pad(tf.constant(ki.reshape(1, 1, -1)), 0.0)
    deltas = tf.nn.softmax(padded, axis=-1) * (kw['keypoint_input_max'] - kw['keypoint_input_min'])
    kps = (tf.cumsum(deltas, exclusive=True, axis=-1) + kw['keypoint_input_min']).numpy().reshape(-1)
    kps = np.concatenate([kps, [kw['keypoint_input_max']]])
    x = core.witness_np(w['x']).astype(np.float32)
    for b_ in range(x.shape[0]):
      j = int(np.argmin(np.abs(kps - x[b_, 0])))
      if abs(kps[j] - x[b_, 0]) <= 1e-5 * max(1.0, abs(float(x[b_, 0]))):
        x[b_, 0] = kps[j]
    out = cp.pwl_calibration_fn(tf.constant(x), tf.constant(ki), tf.constant(ko), **kw).numpy().astype(np.float64)
    det = dict(x=x.tolist(), out=out.tolist(), keypoints=kps.tolist(), keypoint_input_parameters=ki.tolist(),
               keypoint_output_parameters=ko.tolist())
    if kps[zi] != kps[zi + 1] and zi + 1 < len(kps) - 1:
      return dict(reproduced=False, detail=dict(det, note='the share did not underflow on the real code'))
    if not np.all(np.isfinite(out)):
      return dict(reproduced=True, detail=dict(det, what='non-finite output for finite parameters and inputs'))
    q = r['query']
    omin, omax = kw['keypoint_output_min'], kw['keypoint_output_max']
    if q.startswith('non-decreasing'):
      bad = bool(x[0, 0] <= x[1, 0] and np.any(out[0] > out[1] + tolf))
    else:
      bad = bool(np.any(out < omin - tolf) or np.any(out > omax + tolf))
    return dict(reproduced=bad, detail=det)
  if rp['fn'] == 'pwl':
    from tensorflow_lattice.python import conditional_pwl_calibration as cp
    kw = _pwl_kw(p)
    x = core.witness_np(w['x']).astype(np.float32)
    ko = core.witness_np(w['ko']).astype(np.float32)
    ki = core.witness_np(w['ki']).astype(np.float32) if 'ki' in w else None
    out = cp.pwl_calibration_fn(tf.constant(x), None if ki is None else tf.constant(ki), tf.constant(ko), **kw).numpy().astype(np.float64)
    q = r['query']
    omin, omax = kw['keypoint_output_min'], kw['keypoint_output_max']
    X = np.broadcast_to(x, out.shape)
    mi = kw['missing_input_value']
    bad = False
    if not np.all(np.isfinite(out)):
      bad = True
    elif q.startswith('outputs-within'):
      mask = np.ones_like(out, dtype=bool) if (mi is None or kw['missing_output_value'] is None) else (X != mi)
      bad = bool(np.any(out[mask] < omin - tolf) or np.any(out[mask] > omax + tolf))
    elif q.startswith('non-decreasing'):
      bad = bool(np.any(out[0] > out[1] + tolf))
    elif q.startswith('clamped-to-output_min'):
      bad = bool(np.any(np.abs(out[0] - omin) > tolf))
    elif q.startswith('clamped-to-output_max'):
      bad = bool(np.any(np.abs(out[1] - omax) > tolf))
    elif q.startswith('cyclic'):
      bad = bool(np.any(np.abs(out[0] - out[1]) > tolf))
    elif q.startswith('missing-input'):
      if kw['missing_output_value'] is not None:
        bad = bool(np.any(np.abs(out[0] - kw['missing_output_value']) > tolf))
      else:
        bad = bool(np.any(out[0] < omin - tolf) or np.any(out[0] > omax + tolf))
    else:
      bad = bool(np.any(np.abs(out[0] - out[1]) > tolf))
    return dict(reproduced=bad, detail=dict(out=out.tolist(), x=x.tolist()))
  x = core.witness_np(w['x']).astype(np.float32)
  if rp['fn'] == 'cdf-layer':
    layer = _cdf_layer(p)
    layer.kernel.assign(core.witness_np(w['k']).astype(np.float32))
    if 's' in w:
      s = core.witness_np(w['s']).astype(np.float32)
      layer.input_scaling.assign(s)
      if layer.input_scaling.constraint is not None:
        layer.input_scaling.assign(layer.input_scaling.constraint(layer.input_scaling))
    out = layer(tf.constant(x)).numpy().astype(np.float64)
  else:
    from tensorflow_lattice.python import conditional_cdf as cc
    loc = tf.constant(core.witness_np(w['l']).astype(np.float32))
    sc = tf.constant(core.witness_np(w['s']).astype(np.float32)) if 's' in w else None
    out = cc.cdf_fn(tf.constant(x), loc, sc, units=p['units'], activation=p['activation'], reduction=p['reduction'],
                    sparsity_factor=p.get('sparsity', 1), scaling_exp_transform_multiplier=p.get('exp_mult')).numpy().astype(np.float64)
  o = out.reshape(2, -1)
  q = r['query']
  if q.startswith('outputs'):
    bad = bool(np.any(o < -tolf) or (q.startswith('outputs-within') and np.any(o > 1 + tolf)) or not np.all(np.isfinite(o)))
  else:
    bad = bool(np.any(o[0] > o[1] + tolf))
  return dict(reproduced=bad, detail=dict(out=o.tolist(), x=x.tolist()))


def cases(tier, seed):
  out = []

  def add(fn, required=True, cap=900, **p):
    nm = '%s-%s' % (fn.replace('case_', ''), '-'.join('%s%s' % (k[:4], str(v).replace(' ', '')) for k, v in sorted(p.items()) if k not in ('timeout',)))
    p['name'] = nm[:200]
    p['required'] = required
    out.append(dict(name=p['name'], fn=fn, params=p, cap=cap, required=required))

  add('case_pwl_fn', nk=2, units=1, mono='increasing', omit_input_params=True)
  add('case_pwl_fn', nk=2, units=2, mono='none', omit_input_params=True, per_unit_input=True)
  # omitted interior keypoint parameters with an input range that does not start at 0
  add('case_pwl_fn', nk=2, units=1, mono='increasing', omit_input_params=True, imin=1.0, imax=2.0, omin=-3.0, omax=7.0, clamp_max=True)
  add('case_pwl_fn', nk=2, units=3, mono='increasing', omit_input_params=True, imin=5.0, imax=5.5, clamp_max=True, per_unit_input=True)
  add('case_pwl_fn', nk=2, units=2, mono='none', omit_input_params=True, imin=-1.0, imax=0.0, cyclic=True)
  # cyclic together with a derived / a fixed missing output
  add('case_pwl_fn', nk=3, units=1, mono='none', cyclic=True, missing_input=-1.0)
  add('case_pwl_fn', nk=4, units=2, mono='none', cyclic=True, missing_input=0.0, per_unit_input=True, omin=-1.0, omax=2.0)
  add('case_pwl_fn', nk=3, units=2, mono='none', cyclic=True, missing_input=3.0, missing_output=0.5)
  for nk_ in (3, 4):
    add('case_pwl_fn', nk=nk_, units=2, mono='increasing', two_d_inputs=True)
    add('case_pwl_fn', nk=nk_, units=3, mono='none', two_d_inputs=True, shared_params=True, per_unit_input=True)
  add('case_pwl_fn', nk=3, units=1, mono='none')
  # floating point: a keypoint share that underflowed to exactly 0 in softmax (zero-length piece)
  for nk_, zeros in ((3, (0, 1)), (4, (0, 1, 2))):
    for z_ in zeros:
      for mono_ in ('none', 'increasing'):
        add('case_pwl_fn_underflow', nk=nk_, zero=z_, mono=mono_, required=(nk_ == 3), timeout=60 if nk_ == 3 else 120)
  add('case_pwl_fn', nk=3, units=2, mono='increasing', per_unit_input=True)
  add('case_pwl_fn', nk=4, units=1, mono='increasing', clamp_min=True, clamp_max=True)
  add('case_pwl_fn', nk=3, units=2, mono='increasing', clamp_min=True, omin=-1.0, omax=2.5, imin=-1.0, imax=1.0)
  add('case_pwl_fn', nk=3, units=1, mono='increasing', clamp_max=True, two_d=True)
  add('case_pwl_fn', nk=4, units=1, mono='none', cyclic=True)
  add('case_pwl_fn', nk=3, units=2, mono='none', cyclic=True, bcast_units=True, shared_params=True)
  add('case_pwl_fn', nk=3, units=1, mono='none', missing_input=-1.0)
  add('case_pwl_fn', nk=3, units=2, mono='increasing', omin=-1.0, omax=2.5, imin=1.0, imax=4.0, per_unit_input=True)
  add('case_pwl_fn', nk=3, units=1, mono='increasing', omin=2.0, omax=5.0, clamp_max=True, two_d=True)
  add('case_pwl_fn', nk=3, units=2, mono='none', omin=-2.0, omax=3.0, imin=1.0, imax=4.0, missing_input=0.0, per_unit_input=True)
  add('case_pwl_fn', nk=3, units=1, mono='increasing', omin=-2.0, omax=3.0, imin=1.0, imax=4.0, missing_input=-1.0)
  add('case_pwl_fn', nk=3, units=2, mono='increasing', missing_input=0.0, missing_output=0.5, per_unit_input=True)
  add('case_pwl_fn', nk=3, units=1, mono='increasing', missing_input=-1.0, clamp_min=True, two_d=True, shared_params=True)
  for act in ('relu6', 'sigmoid'):
    for red in ('mean', 'none', 'geometric_mean'):
      add('case_cdf_layer', dim=2, nk=2, units=2, activation=act, reduction=red, required=red != 'geometric_mean')
      add('case_cdf_fn', dim=2, nk=2, units=1, activation=act, reduction=red, required=red != 'geometric_mean')
  add('case_cdf_layer', dim=4, nk=2, units=2, activation='relu6', reduction='mean', sparsity=2, scaling='learned_shared')
  add('case_cdf_layer', dim=2, nk=3, units=1, activation='sigmoid', reduction='mean', scaling='fixed')
  # the documented integer spelling of the scaling monotonicity, and layers re-created from their config
  add('case_cdf_layer', dim=2, nk=2, units=1, activation='relu6', reduction='mean', scaling_mono=1)
  add('case_cdf_layer', dim=2, nk=2, units=2, activation='sigmoid', reduction='none', scaling='learned_shared', scaling_mono=1)
  add('case_cdf_layer', dim=2, nk=2, units=1, activation='relu6', reduction='mean', via_config=True)
  add('case_cdf_layer', dim=2, nk=2, units=2, activation='sigmoid', reduction='mean', scaling='learned_shared', via_config=True)
  add('case_cdf_fn', dim=4, nk=2, units=2, activation='relu6', reduction='mean', sparsity=2, scaling_shape='per_fn')
  add('case_cdf_fn', dim=2, nk=2, units=2, activation='sigmoid', reduction='none', scaling_shape='full', exp_mult=0.5)
  add('case_cdf_fn', dim=3, nk=2, units=1, activation='relu6', reduction='mean', scaling_shape=None)
  # float32 semantics (rounding at large magnitudes) on the one-element configuration
  add('case_cdf_fn_float32', scaled=False)
  add('case_cdf_fn_float32', scaled=True, required=False, timeout=240)
  add('case_cdf_fn_float32', scaled=False, reduction='none')
  add('case_cdf_layer_float32')
  add('case_cdf_layer_float32', scaling='fixed')
  add('case_cdf_fn', dim=2, nk=3, units=1, activation='relu6', reduction='mean', exp_mult=-1.0, required=False, timeout=45)
  if tier == 'thorough':
    add('case_pwl_fn', nk=5, units=2, mono='increasing', clamp_min=True, clamp_max=True, per_unit_input=True, required=False, timeout=600)
    add('case_cdf_layer', dim=4, nk=3, units=4, activation='sigmoid', reduction='mean', sparsity=2, required=False, timeout=600)
  return out
