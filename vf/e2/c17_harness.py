"""CrossHair harness for C17 (engine E2): the real pure-Python structure builders are cut out of /repo's current source
with `ast` and executed symbolically; only the random source is replaced by symbolic permutations / choices supplied
as harness arguments (contract: 'shuffle returns some permutation', 'choice returns some element')."""
import ast
import collections
import itertools
import os
import types
from typing import List

REPO = os.environ.get('VERIF_REPO', '/repo')
_RTL_SRC = os.path.join(REPO, 'tensorflow_lattice/python/rtl_layer.py')
_PM_SRC = os.path.join(REPO, 'tensorflow_lattice/python/premade_lib.py')


class OutOfRandomness(Exception):
  """the code under analysis drew more random values than the harness supplies: a harness limit, not a finding"""


class _Perms(object):
  """RNG stub: every shuffle applies the next supplied permutation; every choice consumes the next supplied integers."""

  def __init__(self, perms=(), ints=()):
    self.perms = [list(p) for p in perms]
    self.ints = list(ints)

  def seed(self, s):
    pass

  def shuffle(self, lst):
    if not self.perms:
      raise OutOfRandomness('more shuffles than supplied')
    p = self.perms.pop(0)
    cp = list(lst)
    for i in range(len(cp)):
      lst[i] = cp[p[i]]

  def _int(self):
    if not self.ints:
      raise OutOfRandomness('more random draws than supplied')
    return self.ints.pop(0)

  def permutation(self, seq):
    seq = list(range(seq)) if isinstance(seq, int) else list(seq)
    out = []
    while seq:
      out.append(seq.pop(self._int() % len(seq)))
    return out

  def choice(self, seq, size=None, replace=True):
    seq = list(seq)
    if size is None:
      return seq[self._int() % len(seq)]
    if replace:
      raise NotImplementedError
    if size > len(seq):
      raise ValueError('Cannot take a larger sample than population when replace is False')
    out = []
    for _ in range(size):
      out.append(seq.pop(self._int() % len(seq)))
    return out


_CUR = [None]


def _np_stub():
  rnd = types.SimpleNamespace(
      RandomState=lambda seed: _CUR[0],
      seed=lambda s: None,
      shuffle=lambda lst: _CUR[0].shuffle(lst),
      permutation=lambda seq: _CUR[0].permutation(seq),
      choice=lambda seq, size=None, replace=True: _CUR[0].choice(seq, size=size, replace=replace))
  return types.SimpleNamespace(random=rnd)


def _load_rtl():
  tree = ast.parse(open(_RTL_SRC).read())
  keep = []
  for node in tree.body:
    if isinstance(node, ast.Assign) and any(getattr(t, 'id', '') in ('_MAX_RTL_SWAPS', '_RTLInput') for t in node.targets):
      keep.append(node)
    if isinstance(node, ast.ClassDef) and node.name == 'RTL':
      for sub in node.body:
        if isinstance(sub, ast.FunctionDef) and sub.name == '_get_rtl_structure':
          keep.append(sub)
  ns = {'collections': collections, 'itertools': itertools, 'np': _np_stub(),
        'logging': types.SimpleNamespace(info=lambda *a, **k: None)}
  exec(compile(ast.Module(body=keep, type_ignores=[]), _RTL_SRC, 'exec'), ns)
  return ns['_get_rtl_structure']


class _Cfg(object):
  pass


def _load_pm():
  tree = ast.parse(open(_PM_SRC).read())
  want = ('set_random_lattice_ensemble', '_add_pair_to_ensemble', '_set_all_pairs_cover_lattices')
  keep = [n for n in tree.body if isinstance(n, ast.FunctionDef) and n.name in want]
  ns = {'itertools': itertools, 'np': _np_stub(), 'configs': types.SimpleNamespace(CalibratedLatticeEnsembleConfig=_Cfg),
        '_canonical_feature_names': lambda cfg, names: names,
        'logging': types.SimpleNamespace(info=lambda *a, **k: None)}
  exec(compile(ast.Module(body=keep, type_ignores=[]), _PM_SRC, 'exec'), ns)
  return ns


_GET_RTL = _load_rtl()
_PM = _load_pm()


def is_perm(p, n):
  return len(p) == n and all(0 <= x < n for x in p) and len(set(p)) == n


# ---------------------------------------------------------------- RTL
def run_rtl(n_unc, n_inc, num_lattices, rank, p1, p2, grouped=False):
  _CUR[0] = _Perms(perms=[p1, p2])
  self = types.SimpleNamespace(num_lattices=num_lattices, lattice_rank=rank, random_seed=0, avoid_intragroup_interaction=True)
  shape = {}
  if n_unc:
    shape['unconstrained'] = [(None, n_unc)] if grouped else (None, n_unc)
  if n_inc:
    shape['increasing'] = (None, n_inc)
  return _GET_RTL(self, shape)


def rtl_ok(st, n_unc, n_inc, num_lattices, rank):
  # flattened order follows sorted keys: 'increasing' inputs first, then 'unconstrained'
  n = n_unc + n_inc
  mono_of = [1] * n_inc + [0] * n_unc
  use = [0] * n
  nl = 0
  ok = True
  for monos, lats in st:
    for lat in lats:
      nl += 1
      ok = ok and len(lat) == rank and len(monos) == rank
      for m, i in zip(monos, lat):
        ok = ok and 0 <= i < n
        if 0 <= i < n:
          use[i] += 1
          ok = ok and (mono_of[i] == m)
  ok = ok and nl == num_lattices
  ok = ok and min(use) >= 1 and max(use) - min(use) <= 1
  return ok


def check_rtl_1_2_2x2(p1: List[int], p2: List[int]) -> bool:
  """
  pre: is_perm(p1, 3) and is_perm(p2, 4)
  post: _
  """
  return rtl_ok(run_rtl(1, 2, 2, 2, p1, p2), 1, 2, 2, 2)


def check_rtl_2_1_2x2(p1: List[int], p2: List[int]) -> bool:
  """
  pre: is_perm(p1, 3) and is_perm(p2, 4)
  post: _
  """
  return rtl_ok(run_rtl(2, 1, 2, 2, p1, p2), 2, 1, 2, 2)


def check_rtl_0_3_2x2(p1: List[int], p2: List[int]) -> bool:
  """
  pre: is_perm(p1, 3) and is_perm(p2, 4)
  post: _
  """
  return rtl_ok(run_rtl(0, 3, 2, 2, p1, p2), 0, 3, 2, 2)


def check_rtl_2_2_2x2(p1: List[int], p2: List[int]) -> bool:
  """
  pre: is_perm(p1, 4) and is_perm(p2, 4)
  post: _
  """
  return rtl_ok(run_rtl(2, 2, 2, 2, p1, p2), 2, 2, 2, 2)


def check_rtl_1_1_2x2_grouped(p1: List[int], p2: List[int]) -> bool:
  """
  pre: is_perm(p1, 2) and is_perm(p2, 4)
  post: _
  """
  return rtl_ok(run_rtl(1, 1, 2, 2, p1, p2, grouped=True), 1, 1, 2, 2)


def check_rtl_2_1_1x3(p1: List[int], p2: List[int]) -> bool:
  """
  pre: is_perm(p1, 3) and is_perm(p2, 3)
  post: _
  """
  return rtl_ok(run_rtl(2, 1, 1, 3, p1, p2), 2, 1, 1, 3)


def check_rtl_1_2_3x2(p1: List[int], p2: List[int]) -> bool:
  """
  pre: is_perm(p1, 3) and is_perm(p2, 6)
  post: _
  """
  return rtl_ok(run_rtl(1, 2, 3, 2, p1, p2), 1, 2, 3, 2)


def run_rtl_shapes(shape, num_lattices, rank, p1, p2):
  """list input form: every key maps to a list of (batch, columns) shapes, one group per tensor"""
  _CUR[0] = _Perms(perms=[p1, p2])
  self = types.SimpleNamespace(num_lattices=num_lattices, lattice_rank=rank, random_seed=0, avoid_intragroup_interaction=True)
  return _GET_RTL(self, shape)


def rtl_groups_ok(st, shape, num_lattices, rank):
  """as rtl_ok for the list input form (one group per tensor, several columns per group).  Group separation itself is a
  best-effort heuristic of the layer and not part of the property: it is not demanded here."""
  mono_of, group_of = [], []
  g = 0
  for key in sorted(shape.keys()):
    for (_, cols) in shape[key]:
      for _ in range(cols):
        mono_of.append(1 if key == 'increasing' else 0)
        group_of.append(g)
      g += 1
  n = len(mono_of)
  use = [0] * n
  nl = 0
  ok = True
  for monos, lats in st:
    for lat in lats:
      nl += 1
      ok = ok and len(lat) == rank and len(monos) == rank
      for m, i in zip(monos, lat):
        ok = ok and 0 <= i < n
        if 0 <= i < n:
          use[i] += 1
          ok = ok and (mono_of[i] == m)
  ok = ok and nl == num_lattices
  ok = ok and min(use) >= 1 and max(use) - min(use) <= 1
  return ok


def check_rtl_groups_inc2_unc1_unc1_2x2(p1: List[int], p2: List[int]) -> bool:
  """
  pre: is_perm(p1, 4) and is_perm(p2, 4)
  post: _
  """
  shape = {'increasing': [(None, 2)], 'unconstrained': [(None, 1), (None, 1)]}
  return rtl_groups_ok(run_rtl_shapes(shape, 2, 2, p1, p2), shape, 2, 2)


def check_rtl_groups_unc2_inc1_2x2(p1: List[int], p2: List[int]) -> bool:
  """
  pre: is_perm(p1, 3) and is_perm(p2, 4)
  post: _
  """
  shape = {'unconstrained': [(None, 2)], 'increasing': [(None, 1)]}
  return rtl_groups_ok(run_rtl_shapes(shape, 2, 2, p1, p2), shape, 2, 2)


def check_rtl_groups_inc2_inc2_unc2_3x2(p1: List[int], p2: List[int]) -> bool:
  """
  pre: is_perm(p1, 6) and is_perm(p2, 6)
  post: _
  """
  shape = {'increasing': [(None, 2), (None, 2)], 'unconstrained': [(None, 2)]}
  return rtl_groups_ok(run_rtl_shapes(shape, 3, 2, p1, p2), shape, 3, 2)


# ---------------------------------------------------------------- random ensemble
def run_random(n_features, num_lattices, rank, ints):
  _CUR[0] = _Perms(ints=ints)
  cfg = _Cfg()
  cfg.lattices = 'random'
  cfg.num_lattices = num_lattices
  cfg.lattice_rank = rank
  cfg.random_seed = 0
  names = ['f%d' % i for i in range(n_features)]
  _PM['set_random_lattice_ensemble'](cfg, names)
  return cfg.lattices, names


def random_ok(lattices, names, num_lattices, rank):
  ok = len(lattices) == num_lattices
  used = set()
  for lat in lattices:
    lat = list(lat)
    ok = ok and len(lat) == rank and len(set(lat)) == rank
    for f in lat:
      ok = ok and f in names
      used.add(f)
  return ok and len(used) == len(names)


def check_random_3f_2x2(ints: List[int]) -> bool:
  """
  pre: len(ints) == 8 and all(0 <= v < 6 for v in ints)
  post: _
  """
  lat, names = run_random(3, 2, 2, ints)
  return random_ok(lat, names, 2, 2)


def check_random_4f_2x2(ints: List[int]) -> bool:
  """
  pre: len(ints) == 8 and all(0 <= v < 12 for v in ints)
  post: _
  """
  lat, names = run_random(4, 2, 2, ints)
  return random_ok(lat, names, 2, 2)


def check_random_3f_2x3(ints: List[int]) -> bool:
  """
  pre: len(ints) == 8 and all(0 <= v < 6 for v in ints)
  post: _
  """
  lat, names = run_random(3, 2, 3, ints)
  return random_ok(lat, names, 2, 3)


def check_random_4f_3x2(ints: List[int]) -> bool:
  """
  pre: len(ints) == 8 and all(0 <= v < 12 for v in ints)
  post: _
  """
  lat, names = run_random(4, 3, 2, ints)
  return random_ok(lat, names, 3, 2)


# ---------------------------------------------------------------- all-pairs cover (Crystals prefitting)
def run_cover(n_features, rank, perm):
  _CUR[0] = _Perms(perms=[perm])
  cfg = _Cfg()
  cfg.lattice_rank = rank
  cfg.random_seed = 0
  names = ['f%d' % i for i in range(n_features)]
  _PM['_set_all_pairs_cover_lattices'](cfg, names)
  return cfg.lattices, names


def cover_ok(lattices, names, rank):
  ok = True
  for lat in lattices:
    ok = ok and 2 <= len(lat) <= rank and len(set(lat)) == len(lat)
  for a in range(len(names)):
    for b in range(a + 1, len(names)):
      ok = ok and any(names[a] in lat and names[b] in lat for lat in lattices)
  return ok


def check_cover_3f_rank2(perm: List[int]) -> bool:
  """
  pre: is_perm(perm, 3)
  post: _
  """
  lat, names = run_cover(3, 2, perm)
  return cover_ok(lat, names, 2)


def check_cover_4f_rank2(perm: List[int]) -> bool:
  """
  pre: is_perm(perm, 6)
  post: _
  """
  lat, names = run_cover(4, 2, perm)
  return cover_ok(lat, names, 2)


def check_cover_4f_rank3(perm: List[int]) -> bool:
  """
  pre: is_perm(perm, 6)
  post: _
  """
  lat, names = run_cover(4, 3, perm)
  return cover_ok(lat, names, 3)


def _perm_with_head(head, n):
  return list(head) + [v for v in range(n) if v not in head]


def check_cover_5f_rank4_head3(head: List[int]) -> bool:
  """
  pre: len(head) == 3 and all(0 <= v < 10 for v in head) and len(set(head)) == 3
  post: _
  """
  # rank >= 4 is where a pair can join a lattice that holds neither of its members; the first three of the ten pairs are
  # arbitrary, the rest follow in ascending order (stated bound)
  lat, names = run_cover(5, 4, _perm_with_head(head, 10))
  return cover_ok(lat, names, 4)


def check_cover_5f_rank4_head2(head: List[int]) -> bool:
  """
  pre: len(head) == 2 and all(0 <= v < 10 for v in head) and len(set(head)) == 2
  post: _
  """
  lat, names = run_cover(5, 4, _perm_with_head(head, 10))
  return cover_ok(lat, names, 4)


def check_cover_6f_rank5_head2(head: List[int]) -> bool:
  """
  pre: len(head) == 2 and all(0 <= v < 15 for v in head) and len(set(head)) == 2
  post: _
  """
  lat, names = run_cover(6, 5, _perm_with_head(head, 15))
  return cover_ok(lat, names, 5)


# reachability twins: must be refuted (a counterexample must exist), otherwise the preconditions are vacuous
def twin_rtl_reachable(p1: List[int], p2: List[int]) -> bool:
  """
  pre: is_perm(p1, 3) and is_perm(p2, 4)
  post: _
  """
  run_rtl(1, 2, 2, 2, p1, p2)
  return False


def twin_random_reachable(ints: List[int]) -> bool:
  """
  pre: len(ints) == 8 and all(0 <= v < 6 for v in ints)
  post: _
  """
  run_random(3, 2, 2, ints)
  return False


CHECKS_QUICK = ['check_rtl_1_2_2x2', 'check_rtl_2_1_2x2', 'check_rtl_0_3_2x2', 'check_rtl_1_1_2x2_grouped', 'check_rtl_2_1_1x3',
                'check_rtl_groups_inc2_unc1_unc1_2x2', 'check_rtl_groups_unc2_inc1_2x2',
                'check_random_3f_2x2', 'check_random_4f_2x2', 'check_random_3f_2x3',
                'check_cover_3f_rank2', 'check_cover_4f_rank2', 'check_cover_4f_rank3', 'check_cover_5f_rank4_head2', 'check_cover_6f_rank5_head2']
CHECKS_THOROUGH = ['check_cover_5f_rank4_head3', 'check_rtl_groups_inc2_inc2_unc2_3x2', 'check_rtl_2_2_2x2', 'check_rtl_1_2_3x2', 'check_random_4f_3x2']
TWINS = ['twin_rtl_reachable', 'twin_random_reachable']
