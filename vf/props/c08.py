"""C08 - Iterative projection keeps feasible weights, converges to the L2-nearest point."""
import itertools
import json
import os
from fractions import Fraction

import numpy as np
import z3

from vf import sym, specs, core
from vf.core import Case, Traced

PROP = 'C08'

META = dict(
    level='model_checking',
    technique='symbolic execution of the traced TF graphs of lattice_lib.project_by_dykstra (while-loop unrolled exactly), '
              'of its loop-body function from an arbitrary symbolic state, of every _project_partial_* group projection, and '
              'of pwl_calibration_lib.project_all_constraints; z3 QF_LRA. Oracles: reference predicates, textbook half-space '
              'projection per group, Dykstra telescoping invariant, KKT characterisation of the true Euclidean projection',
    bounds=dict(
        quick='lattices 2x2, 3x3, 2x3, 2x3x2, units 1-2; every family alone and combined; N = 1,2,3 for the fixed point, '
              'one body step from an arbitrary state for the recurrence, N in {1,2,4,8} on 2x2/2x3 for bounded convergence and '
              'distance to the KKT point (kernels in the unit box; cone families are positively homogeneous)',
        thorough='adds 3x4, 4x4, 3x3x2, N up to 16 on 2x2/2x3 and up to 4 on 3x3'),
    outside=['IEEE-754 rounding', 'convergence rates on lattices larger than the bounds; iteration counts in the thousands are '
             'covered through the inductive fixed point, the exact-group-projection + recurrence queries and the Boyle-Dykstra '
             'theorem (cited, not re-proved)', 'joint unimodality: its feasibility predicate is read off the hyperplanes '
             'the projection itself uses (no independent documentation exists)'],
    assumptions=['TF op semantics as in vf/interp.py (validated per case)', 'z3 is sound',
                 'Boyle-Dykstra: cyclic Dykstra iterations with exact projections onto closed convex sets converge to the '
                 'Euclidean projection onto their intersection'],
)

THRESH_FILE = os.path.join(os.path.dirname(os.path.abspath(__file__)), 'c08_thresholds.json')


def _fam(p):
  def tl(x):
    return [tuple(t) for t in x] if x else None
  return dict(monotonicities=list(p['mono']) if p.get('mono') else None,
              unimodalities=list(p['uni']) if p.get('uni') else None,
              edgeworth_trusts=tl(p.get('edge')), trapezoid_trusts=tl(p.get('trap')),
              monotonic_dominances=tl(p.get('mdom')), range_dominances=tl(p.get('rdom')),
              joint_monotonicities=tl(p.get('jmono')),
              joint_unimodalities=[(tuple(t[0]), t[1]) for t in p['juni']] if p.get('juni') else None)


def joint_unimodality_cons(w, sizes, units, juni):
  """Feasibility predicate of joint unimodality as defined by the projection's own hyperplanes
  (lattice_lib._project_partial_joint_unimodality): for every vertex v != centre, every offset vector over the
  dimensions with v_d != c_d whose neighbours exist:  sum_d (v_d-c_d)*off_d*(w[v+off_d e_d]-w[v]) >= 0 (valley)."""
  W = np.asarray(w, dtype=object).reshape(list(sizes) + [units])
  cons = []
  for dims, direction in juni or []:
    dims = list(dims)
    ub = [sizes[d] for d in dims]
    center = [s // 2 for s in ub]
    other = [d for d in range(len(sizes)) if d not in dims]
    for u in range(units):
      for rest in itertools.product(*[range(sizes[d]) for d in other]):
        for vertex in itertools.product(*[range(s) for s in ub]):
          if list(vertex) == center:
            continue
          for offs in itertools.product([-1, 1], repeat=len(dims)):
            tot = 0
            ok = True
            any_term = False
            for k, off in enumerate(offs):
              dw = vertex[k] - center[k]
              if dw == 0:
                continue
              nb = list(vertex)
              nb[k] += off
              if nb[k] < 0 or nb[k] >= ub[k]:
                ok = False
                break

              def full(vtx):
                idx = [0] * len(sizes)
                for d, val in zip(dims, vtx):
                  idx[d] = val
                for d, val in zip(other, rest):
                  idx[d] = val
                return tuple(idx) + (u,)
              tot = sym.s_add(tot, sym.s_mul(sym.s_sub(W[full(nb)], W[full(vertex)]), dw * off))
              any_term = True
            if ok and any_term:
              cons.append(('joint_unimodality', (tuple(dims), vertex, offs, rest, u),
                           tot if direction == 'valley' else sym.s_neg(tot)))
  return cons


def all_cons(w, sizes, units, p):
  cons = specs.lattice_constraints(
      w, sizes, units, monotonicities=p.get('mono'), unimodalities=p.get('uni'), edgeworth=p.get('edge'),
      trapezoid=p.get('trap'), monotonic_dominances=p.get('mdom'), range_dominances=p.get('rdom'),
      joint_monotonicities=p.get('jmono'))
  cons += joint_unimodality_cons(w, sizes, units, p.get('juni'))
  return cons


def normals(cons_fn, shape):
  """Constraint normals a_k (slack_k(w) = a_k . w) by probing the linear reference predicates with unit vectors."""
  n = int(np.prod(shape))
  zero = cons_fn(sym.full(shape, 0))
  A = [[Fraction(0)] * n for _ in zero]
  for i in range(n):
    e = sym.full((n,), 0)
    e[i] = 1
    for k, c in enumerate(cons_fn(e.reshape(shape))):
      A[k][i] = Fraction(c[2])
  return [(zero[k][0], zero[k][1], A[k]) for k in range(len(zero))]


def halfspace_project(w_flat, a):
  """w - min(0, a.w)/|a|^2 a   (projection onto {a.w >= 0})"""
  dot = 0
  for wi, ai in zip(w_flat, a):
    if ai:
      dot = sym.s_add(dot, sym.s_mul(wi, ai))
  nn = sum(ai * ai for ai in a)
  lam = sym.s_mul(sym.s_min(dot, 0), Fraction(1) / nn)
  return [sym.s_sub(wi, sym.s_mul(lam, ai)) if ai else wi for wi, ai in zip(w_flat, a)]


# ---------------------------------------------------------------- A: fixed point (+ loop state)
def case_fixed_point(**p):
  import tensorflow as tf
  from tensorflow_lattice.python import lattice_lib as ll
  sizes, units = list(p['sizes']), p['units']
  n = int(np.prod(sizes))
  case = Case(PROP, p['name'], {k: v for k, v in p.items() if k != 'name'})
  case.encoded(ll.project_by_dykstra, ll._project_partial_monotonicity, ll._project_partial_edgeworth,
               ll._project_partial_trapezoid, ll._project_partial_monotonic_dominance,
               ll._project_partial_range_dominance, ll._project_partial_joint_monotonicity,
               ll._project_partial_joint_unimodality, ll._project_onto_hyperplane)
  fam = _fam(p)
  for N in p['iters']:
    tr = Traced(lambda w: ll.project_by_dykstra(w, sizes, num_iterations=N, **fam), [tf.TensorSpec([n, units], tf.float32)],
                name='project_by_dykstra')
    if N == p['iters'][0]:
      done, mism = tr.validate(np.random.default_rng(0), n=2)
      case.meta.update(validation_points=done, validation_mismatch=mism, nodes=tr.n_nodes)
    sym.new_ctx()
    w = sym.symbolic('w', (n, units))
    (out,) = tr.sym_run(w)
    case.meta['ops'] = tr.ops_seen
    cons = all_cons(w, sizes, units, p)
    replay = dict(fn='dykstra', params=dict(p, N=N))
    case.solve('dykstra-unchanged-if-feasible[N=%d]' % N, core.neq_arrays(out, w), assumptions=specs.holds(cons),
               witness=dict(w=w), timeout=p.get('timeout', 120), sig=dict(query='unchanged', N=N), replay=replay,
               robust=core.robust_neq(out, w, [w]))
    if N == p['iters'][0]:
      case.solve('twin:feasible-set-nonempty', z3.BoolVal(True), assumptions=specs.holds(cons), expect='sat', kind='twin',
                 timeout=30)
      case.solve('twin:infeasible-moves', core.neq_arrays(out, w), expect='sat', kind='twin', timeout=30)
      # loop state after the run: every last_change must be zero again (inductive step for arbitrary N)
      it = tr.last_interp
      wops = [o for o in tr.cf.graph.get_operations() if o.type in ('While', 'StatelessWhile')]
      if wops:
        bad = []
        cnt = 0
        for t in wops[0].outputs:
          if t.dtype == tf.float32 and t.name in it.env:
            val = it.env[t.name]
            if val.shape == tuple(sizes + ([units] if units > 1 else [])):
              cnt += 1
              if cnt == 1:
                continue  # the weights themselves
              bad += [sym.NE(x, 0) for x in val.reshape(-1)]
        case.solve('dykstra-feasible-state-is-inductive[N=%d]' % N, core.any_of(bad), assumptions=specs.holds(cons),
                   witness=dict(w=w), timeout=p.get('timeout', 120), sig=dict(query='inductive'), replay=None)
        case.meta['last_change_slots'] = cnt - 1
  return case


# ---------------------------------------------------------------- B: exact group projections
def _groups(p, sizes):
  """(label, python call, reference constraint filter) for every group the Dykstra body visits."""
  from tensorflow_lattice.python import lattice_lib as ll
  nd = len(sizes)
  mono = list(p.get('mono') or [0] * nd)
  uni = list(p.get('uni') or [0] * nd)
  out = []
  for d in range(nd):
    if mono[d] or uni[d]:
      for g in (0, 1):
        if g + 1 >= sizes[d]:
          continue
        out.append(('mono/uni dim%d g%d' % (d, g),
                    lambda w, d=d, g=g: ll._project_partial_monotonicity(w, sizes, mono, uni, d, g),
                    lambda c, d=d, g=g: c[0] in ('monotonicity', 'unimodality') and c[1][0] == d and c[1][1][d] % 2 == g))
  for t in p.get('edge') or []:
    m, c_, dr = t
    for g in itertools.product([0, 1], [0, 1]):
      if g[0] >= sizes[m] - 1 or g[1] >= sizes[c_] - 1:
        continue

      def filt(c, t=t, g=g, m=m, c_=c_, dr=dr):
        if c[0] != 'edgeworth' or tuple(c[1][0]) != tuple(t):
          return False
        idx = c[1][1]
        j = idx[c_] if dr > 0 else sizes[c_] - 2 - idx[c_]
        return idx[m] % 2 == g[0] and j % 2 == g[1]
      out.append(('edgeworth %s g%s' % (t, g), lambda w, t=t, g=g: ll._project_partial_edgeworth(w, sizes, tuple(t), g), filt))
  for t in p.get('trap') or []:
    m, c_, dr = t
    for g in (0, 1):
      if g >= sizes[c_] - 1:
        continue

      def filt(c, t=t, g=g, c_=c_, dr=dr):
        if c[0] != 'trapezoid' or tuple(c[1][0]) != tuple(t):
          return False
        idx = c[1][1]
        j = idx[c_] if dr > 0 else sizes[c_] - 2 - idx[c_]
        return j % 2 == g
      out.append(('trapezoid %s g%d' % (t, g), lambda w, t=t, g=g: ll._project_partial_trapezoid(w, sizes, tuple(t), g), filt))
  for t in p.get('mdom') or []:
    for g in itertools.product([0, 1], [0, 1], [0, 1]):
      if g[0] >= sizes[t[0]] - 1 or g[1] >= sizes[t[1]] - 1:
        continue

      def filt(c, t=t, g=g):
        if c[0] != 'monotonic_dominance' or tuple(c[1][0]) != tuple(t):
          return False
        idx = c[1][1]
        tri = 'lower' if g[2] == 1 else 'upper'
        return idx[t[0]] % 2 == g[0] and idx[t[1]] % 2 == g[1] and c[1][3] == tri
      out.append(('monotonic_dominance %s g%s' % (t, g),
                  lambda w, t=t, g=g: ll._project_partial_monotonic_dominance(w, sizes, tuple(t), g), filt))
  for t in p.get('jmono') or []:
    for g in itertools.product([0, 1], [0, 1], [0, 1]):
      if g[0] >= sizes[t[0]] - 1 or g[1] >= sizes[t[1]] - 1:
        continue

      def filt(c, t=t, g=g):
        if c[0] != 'joint_monotonicity' or tuple(c[1][0]) != tuple(t):
          return False
        idx = c[1][1]
        tri = 'lower' if g[2] == 1 else 'upper'
        return idx[t[0]] % 2 == g[0] and idx[t[1]] % 2 == g[1] and c[1][3] == tri
      out.append(('joint_monotonicity %s g%s' % (t, g),
                  lambda w, t=t, g=g: ll._project_partial_joint_monotonicity(w, sizes, tuple(t), g), filt))
  return out


def case_group_exact(**p):
  """Each _project_partial_* equals the textbook Euclidean projection onto its (disjoint) group of half-spaces."""
  import tensorflow as tf
  from tensorflow_lattice.python import lattice_lib as ll
  sizes = list(p['sizes'])
  n = int(np.prod(sizes))
  case = Case(PROP, p['name'], {k: v for k, v in p.items() if k != 'name'})
  case.encoded(ll._project_partial_monotonicity, ll._project_partial_edgeworth, ll._project_partial_trapezoid,
               ll._project_partial_monotonic_dominance, ll._project_partial_joint_monotonicity, ll._unstack_nd, ll._stack_nd)
  cons_fn = lambda w: all_cons(np.asarray(w, dtype=object).reshape(n, 1), sizes, 1, p)
  norms = normals(cons_fn, (n,))
  covered = set()
  for label, call, filt in _groups(p, sizes):
    tr = Traced(call, [tf.TensorSpec(sizes, tf.float32)], name=label)
    done, mism = tr.validate(np.random.default_rng(0), n=1)
    case.meta['validation_points'] = case.meta.get('validation_points', 0) + done
    sym.new_ctx()
    w = sym.symbolic('w', tuple(sizes))
    (out,) = tr.sym_run(w)
    mine = [(k, nm) for k, nm in enumerate(norms) if filt((nm[0], nm[1]))]
    # supports must be disjoint
    supp = [set(i for i, a in enumerate(nm[2]) if a) for _, nm in mine]
    disjoint = all(not (supp[i] & supp[j]) for i in range(len(supp)) for j in range(i + 1, len(supp)))
    case.record('group-supports-disjoint[%s]' % label, 'unsat' if disjoint and mine else 'sat', kind='structural',
                sig=dict(query='disjoint'), replay=None, witness={})
    ref = list(w.reshape(-1))
    for k, nm in mine:
      covered.add(k)
      ref = halfspace_project(ref, nm[2])
    ref = np.array(ref, dtype=object).reshape(sizes)
    case.solve('group-is-exact-projection[%s]' % label, core.neq_arrays(out, ref), witness=dict(w=w), timeout=60,
               sig=dict(query='group-exact', group=label.split(' ')[0]), replay=dict(fn='group', params=dict(p, label=label)),
               robust=core.robust_neq(out, ref, [w]))
  exact_kinds = ('monotonicity', 'unimodality', 'edgeworth', 'trapezoid', 'monotonic_dominance', 'joint_monotonicity')
  missing = [k for k, nm in enumerate(norms) if nm[0] in exact_kinds and k not in covered]
  case.record('groups-cover-every-constraint', 'unsat' if not missing else 'sat', kind='structural', sig=dict(query='cover'),
              replay=None, witness={}, note='%d constraints, %d uncovered' % (len(norms), len(missing)))
  return case


# ---------------------------------------------------------------- B2: range-dominance steps land on their hyperplane
def _rdom_steps(p, sizes):
  from tensorflow_lattice.python import lattice_lib as ll
  out = []
  for t in p.get('rdom') or []:
    for i in range(sizes[t[0]]):
      for j in range(sizes[t[1]]):
        out.append(('range_dominance %s v(%d,%d)' % (t, i, j), t, i, j,
                    lambda w, t=t, i=i, j=j: ll._project_partial_range_dominance(w, sizes, tuple(t), (i, j))))
  return out


def _rdom_step_goal(w_flat, out_flat, mine, ne, lt, ge):
  """Violation of the step lemma; (ne, lt, ge) build the comparisons (symbolic or numeric)."""
  bad = []
  touched = set()
  for nm in mine:
    a = nm[2]
    supp = [k for k, ak in enumerate(a) if ak]
    touched |= set(supp)
    s0 = sum((w_flat[k] * a[k] for k in supp[1:]), w_flat[supp[0]] * a[supp[0]])
    s1 = sum((out_flat[k] * a[k] for k in supp[1:]), out_flat[supp[0]] * a[supp[0]])
    bad.append((lt(s0, 0), ne(s1, 0)))
    for k in supp:
      bad.append((ge(s0, 0), ne(out_flat[k], w_flat[k])))
  for k in range(len(w_flat)):
    if k not in touched:
      bad.append((True, ne(out_flat[k], w_flat[k])))
  return bad


def case_rdom_step(**p):
  """Range dominance is outside the nearest-point claim (its corner steps are oblique), but convergence of the
  successive-projection scheme needs every per-vertex step to be a (possibly oblique) projection: a weight vector that
  violates the vertex's constraint is moved exactly onto the constraint's hyperplane (neither short of it nor beyond),
  one that satisfies it is left alone, and no weight outside the constraint's support moves."""
  import tensorflow as tf
  from tensorflow_lattice.python import lattice_lib as ll
  sizes = list(p['sizes'])
  n = int(np.prod(sizes))
  case = Case(PROP, p['name'], {k: v for k, v in p.items() if k != 'name'})
  case.encoded(ll._project_partial_range_dominance, ll._unstack_nd, ll._stack_nd)
  q = dict(rdom=p['rdom'])
  cons_fn = lambda w: all_cons(np.asarray(w, dtype=object).reshape(n, 1), sizes, 1, q)
  norms = normals(cons_fn, (n,))
  covered = set()
  for label, t, i, j, call in _rdom_steps(p, sizes):
    tr = Traced(call, [tf.TensorSpec(sizes, tf.float32)], name=label)
    done, mism = tr.validate(np.random.default_rng(0), n=1)
    case.meta['validation_points'] = case.meta.get('validation_points', 0) + done
    sym.new_ctx()
    w = sym.symbolic('w', tuple(sizes))
    (out,) = tr.sym_run(w)
    mine = [(k, nm) for k, nm in enumerate(norms)
            if nm[0] == 'range_dominance' and tuple(nm[1][0]) == tuple(t) and nm[1][1][t[0]] == i and nm[1][1][t[1]] == j]
    covered |= set(k for k, _ in mine)
    wf, of = list(w.reshape(-1)), list(out.reshape(-1))
    bad = _rdom_step_goal([_Lin(x) for x in wf], [_Lin(x) for x in of], [nm for _, nm in mine],
                          ne=lambda a, b: sym.NE(_unlin(a), _unlin(b)), lt=lambda a, b: sym.GT(_unlin(b), _unlin(a)),
                          ge=lambda a, b: sym.GE(_unlin(a), _unlin(b)))
    goal = core.any_of([c2 if c1 is True else z3.And(c1, c2) for c1, c2 in bad])
    case.solve('rdom-step-lands-on-hyperplane[%s]' % label, goal, witness=dict(w=w), timeout=60,
               sig=dict(query='rdom-step', vertex=[i, j]), replay=dict(fn='rdom_step', params=dict(p, label=label)))
    if (i, j) == (0, 0):
      case.solve('twin:rdom-step-moves-something', core.neq_arrays(out, w), expect='sat', kind='twin', timeout=30)
  missing = [k for k, nm in enumerate(norms) if nm[0] == 'range_dominance' and k not in covered]
  case.record('rdom-steps-cover-every-constraint', 'unsat' if not missing and covered else 'sat', kind='structural',
              sig=dict(query='cover'), replay=None, witness={}, note='%d constraints, %d uncovered' % (len(norms), len(missing)))
  return case


class _Lin(object):
  """Thin arithmetic wrapper so that one goal builder serves symbolic elements (vf.sym) and floats."""

  def __init__(self, v):
    self.v = v

  def __mul__(self, k):
    return _Lin(sym.s_mul(self.v, Fraction(k)))

  def __add__(self, o):
    return _Lin(sym.s_add(self.v, o.v))


def _unlin(x):
  return x.v if isinstance(x, _Lin) else x


# ---------------------------------------------------------------- C: recurrence invariants on the real loop body
def case_body(**p):
  import tensorflow as tf
  from tensorflow_lattice.python import lattice_lib as ll
  from vf import interp
  sizes, units = list(p['sizes']), p['units']
  n = int(np.prod(sizes))
  case = Case(PROP, p['name'], {k: v for k, v in p.items() if k != 'name'})
  case.encoded(ll.project_by_dykstra)
  fam = _fam(p)
  tr = Traced(lambda w: ll.project_by_dykstra(w, sizes, num_iterations=1, **fam), [tf.TensorSpec([n, units], tf.float32)],
              name='project_by_dykstra')
  wops = [o for o in tr.cf.graph.get_operations() if o.type in ('While', 'StatelessWhile')]
  if not wops:
    case.record('no-loop', 'unknown', note='no while loop in graph')
    return case
  wop = wops[0]
  body = wop.get_attr('body').name
  sym.new_ctx()
  it = interp.Interp(tr.cf)
  shape = tuple(sizes + ([units] if units > 1 else []))
  state = []
  fl = []
  for i, t in enumerate(wop.inputs):
    if t.dtype == tf.float32 and tuple(t.shape.as_list()) == shape:
      a = sym.symbolic('s%d' % i, shape)
      fl.append(len(state))
      state.append(a)
    else:
      # loop counters / limits: take the concrete values of the real graph
      env = {}
      it._bind_captures(tr.cf, env)
      state.append(it.eval_tensor(tr.cf.graph, t, env))
  new = it.run_function(body, state)
  case.meta.update(ops=it.ops_seen, last_change_slots=len(fl) - 1)
  x0, d0 = state[fl[0]], [state[i] for i in fl[1:]]
  x1, d1 = new[fl[0]], [new[i] for i in fl[1:]]
  lhs, rhs = x1, x0
  for a in d1:
    lhs = sym.sub(lhs, a)
  for a in d0:
    rhs = sym.sub(rhs, a)
  wit = dict(x=x0)
  case.solve('dykstra-telescoping-invariant', core.neq_arrays(lhs, rhs), witness=wit, timeout=p.get('timeout', 120),
             sig=dict(query='telescoping'), replay=None)
  # from a feasible state with zero increments nothing moves (inductive step on the real body)
  cons = all_cons(x0.reshape(n, units), sizes, units, p)
  zero = [sym.EQ(v, 0) for a in d0 for v in a.reshape(-1)]
  bad = [core.neq_arrays(x1, x0)] + [sym.NE(v, 0) for a in d1 for v in a.reshape(-1)]
  case.solve('body-fixed-point-from-feasible-state', core.any_of(bad), assumptions=specs.holds(cons) + zero, witness=wit,
             timeout=p.get('timeout', 120), sig=dict(query='body-fixed'), replay=None)
  # after the body, the iterate satisfies the last group visited: skipped (depends on order) ; but increments of
  # every group lie in the cone of its constraints: checked through group exactness (case_group_exact).
  case.solve('twin:body-moves-something', core.neq_arrays(x1, x0), expect='sat', kind='twin', timeout=30)
  return case


# ---------------------------------------------------------------- D/E: bounded convergence, distance to the KKT point
def kkt_point(w, norms, prefix='kkt'):
  """Fresh x*, lambda with the KKT conditions of  min |x-w|^2  s.t. a_k.x >= 0  (unique solution = projection)."""
  n = len(w)
  xs = [z3.Real('%s_x%d' % (prefix, i)) for i in range(n)]
  lam = [z3.Real('%s_l%d' % (prefix, k)) for k in range(len(norms))]
  conds = []
  slacks = []
  for k, (_, _, a) in enumerate(norms):
    s = z3.Sum([xs[i] * sym.Z(a[i]) for i in range(n) if a[i]])
    slacks.append(s)
    conds += [lam[k] >= 0, s >= 0, z3.Or(lam[k] == 0, s == 0)]
  for i in range(n):
    conds.append(xs[i] - sym.Z(w[i]) == z3.Sum([lam[k] * sym.Z(norms[k][2][i]) for k in range(len(norms)) if norms[k][2][i]] or [z3.RealVal(0)]))
  return xs, conds


def _slice_sym(n, free):
  if not free:
    return sym.symbolic('w', (n, 1))
  w = sym.full((n, 1), 0)
  for i in free:
    w[i, 0] = z3.Real('w_%d_0' % i)
  return w


def load_thresholds():
  if os.path.exists(THRESH_FILE):
    with open(THRESH_FILE) as f:
      return json.load(f)
  return {}


def case_convergence(**p):
  import tensorflow as tf
  from tensorflow_lattice.python import lattice_lib as ll, lattice_layer as LL
  sizes, units = list(p['sizes']), 1
  n = int(np.prod(sizes))
  case = Case(PROP, p['name'], {k: v for k, v in p.items() if k != 'name'})
  case.encoded(ll.project_by_dykstra)
  fam = _fam(p)
  th = p['thresholds']
  cons_fn = lambda w: all_cons(np.asarray(w, dtype=object).reshape(n, 1), sizes, 1, p)
  norms = normals(cons_fn, (n,))
  for N in p['iters']:
    key = str(N)
    tr = Traced(lambda w: ll.project_by_dykstra(w, sizes, num_iterations=N, **fam), [tf.TensorSpec([n, 1], tf.float32)],
                name='project_by_dykstra')
    sym.new_ctx()
    w = _slice_sym(n, p.get('free'))
    (out,) = tr.sym_run(w)
    case.meta['ops'] = tr.ops_seen
    boxc = core.box(w, -1, 1)
    cons = all_cons(out, sizes, 1, p)
    replay = dict(fn='dykstra', params=dict(p, N=N, units=1))
    if th.get('viol', {}).get(key) is not None:
      tau = Fraction(th['viol'][key])
      case.solve('violation-after-N-iterations<=tau[N=%d,tau=%s]' % (N, tau), core.any_of(specs.violated(cons, tau)),
                 assumptions=boxc, witness=dict(w=w), timeout=p.get('timeout', 200),
                 sig=dict(query='converge', N=N), replay=replay, required=p.get('required', True))
    if th.get('dist', {}).get(key) is not None and p.get('nearest', True):
      tau = Fraction(th['dist'][key])
      xs, kk = kkt_point(list(w.reshape(-1)), norms)
      far = core.far_arrays(out.reshape(-1), np.array(xs, dtype=object), tau)
      case.solve('distance-to-true-projection<=tau[N=%d,tau=%s]' % (N, tau), far, assumptions=boxc + kk, witness=dict(w=w),
                 timeout=p.get('timeout', 200), sig=dict(query='nearest', N=N), replay=replay, required=p.get('required', True))
      case.solve('twin:kkt-point-exists[N=%d]' % N, z3.BoolVal(True), assumptions=boxc + kk, expect='sat', kind='twin', timeout=60)
    if th.get('idem', {}).get(key) is not None:
      tau = Fraction(th['idem'][key])
      (out2,) = tr.sym_run(out)
      case.solve('reprojecting-converged-result-moves<=tau[N=%d,tau=%s]' % (N, tau), core.far_arrays(out2, out, tau),
                 assumptions=boxc, witness=dict(w=w), timeout=p.get('timeout', 200), sig=dict(query='idempotent', N=N),
                 replay=replay, required=False)
  # the strict layer constraint with many iterations stays close to the true projection
  if th.get('strict') is not None:
    N = p['iters'][-1]
    tau = Fraction(th['strict'])
    con = LL.LatticeConstraints(lattice_sizes=sizes, num_projection_iterations=N, enforce_strict_monotonicity=True,
                                **{k: v for k, v in fam.items() if k not in ()})
    tr = Traced(lambda w: con(w), [tf.TensorSpec([n, 1], tf.float32)], name='LatticeConstraints')
    sym.new_ctx()
    w = _slice_sym(n, p.get('free'))
    (out,) = tr.sym_run(w)
    xs, kk = kkt_point(list(w.reshape(-1)), norms)
    far = core.far_arrays(out.reshape(-1), np.array(xs, dtype=object), tau)
    case.solve('strict-constraint-close-to-true-projection[N=%d,tau=%s]' % (N, tau), far, assumptions=core.box(w, -1, 1) + kk,
               witness=dict(w=w), timeout=p.get('timeout', 200), sig=dict(query='strict-near', N=N),
               replay=dict(fn='strict', params=dict(p, N=N, units=1)), required=False)
  return case


# ---------------------------------------------------------------- PWL
def case_pwl(**p):
  import tensorflow as tf
  from tensorflow_lattice.python import pwl_calibration_lib as pl
  from vf.props import c04
  case = Case(PROP, p['name'], {k: v for k, v in p.items() if k != 'name'})
  case.encoded(pl.project_all_constraints, pl._project_bounds_considering_monotonicity, pl._project_monotonicity,
               pl._project_convexity)
  q = dict(nk=p['nk'], spacing=p['spacing'], units=1, mono=p['mono'], conv=p['conv'], omin=p['omin'], omax=p['omax'],
           clamp_min=p['clamp_min'], clamp_max=p['clamp_max'], iters=p['N'])
  con = c04._mk(q)
  tr = Traced(lambda w: con(w), [tf.TensorSpec([p['nk'], 1], tf.float32)], name='project_all_constraints')
  done, mism = tr.validate(np.random.default_rng(0), n=2)
  sym.new_ctx()
  w = sym.symbolic('w', (p['nk'], 1))
  (out,) = tr.sym_run(w)
  case.meta.update(validation_points=done, validation_mismatch=mism, ops=tr.ops_seen)
  allc = c04.pwl_cons(w, q)
  out_c = core.concretise_dens(out, specs.holds(allc))
  replay = dict(fn='pwl', params=p)
  case.solve('pwl-unchanged-if-feasible[N=%d]' % p['N'], core.neq_arrays(out_c, w), assumptions=specs.holds(allc),
             witness=dict(w=w), timeout=120, sig=dict(query='pwl-unchanged'), replay=replay,
             robust=core.robust_neq(out_c, w, [w]))
  if p.get('tau') is not None and p['mono'] and not p['conv']:
    # monotonicity with bounds: distance to the true projection (KKT) after N iterations, kernels in the box
    cons_fn = lambda v: [c for c in c04.pwl_cons(np.asarray(v, dtype=object).reshape(p['nk'], 1), q)]
    # affine constraints: slack = a.w + b
    zero = cons_fn(sym.full((p['nk'],), 0))
    n = p['nk']
    A = [[Fraction(0)] * n for _ in zero]
    B = [Fraction(c[2]) for c in zero]
    for i in range(n):
      e = sym.full((n,), 0)
      e[i] = 1
      for k, c in enumerate(cons_fn(e)):
        A[k][i] = Fraction(c[2]) - B[k]
    xs = [z3.Real('kx%d' % i) for i in range(n)]
    lam = [z3.Real('kl%d' % k) for k in range(len(A))]
    kk = []
    for k in range(len(A)):
      s = z3.Sum([xs[i] * sym.Z(A[k][i]) for i in range(n) if A[k][i]] + [sym.Z(B[k])])
      kk += [lam[k] >= 0, s >= 0, z3.Or(lam[k] == 0, s == 0)]
    wf = list(w.reshape(-1))
    for i in range(n):
      kk.append(xs[i] - wf[i] == z3.Sum([lam[k] * sym.Z(A[k][i]) for k in range(len(A)) if A[k][i]] or [z3.RealVal(0)]))
    tau = Fraction(p['tau'])
    far = core.far_arrays(out.reshape(-1), np.array(xs, dtype=object), tau)
    case.solve('pwl-distance-to-true-projection<=tau[N=%d,tau=%s]' % (p['N'], tau), far,
               assumptions=core.box(w, -2, 2) + kk, witness=dict(w=w), timeout=200, sig=dict(query='pwl-nearest'),
               inline_replay=lambda m: _pwl_nearest_replay(m, tr, w, xs, tau), required=False)
    case.solve('twin:pwl-kkt-point-exists', z3.BoolVal(True), assumptions=core.box(w, -2, 2) + kk, expect='sat', kind='twin',
               timeout=60)
  return case


def _pwl_nearest_replay(m, tr, w, xs, tau):
  """real project_all_constraints on the witness kernel against the true projection (the KKT point of the model)"""
  wn = core.model_np(m, w)
  got = np.asarray(tr.tf_run(wn)[0], dtype=np.float64).reshape(-1)
  want = core.model_np(m, np.array(xs, dtype=object)).reshape(-1)
  d = float(np.max(np.abs(got - want)))
  return dict(reproduced=bool(d > float(tau) - 1e-4), detail=dict(kernel=wn.reshape(-1).tolist(), projected=got.tolist(),
                                                                  nearest_feasible=want.tolist(), max_abs_distance=d, tau=float(tau)))


# ---------------------------------------------------------------- replay
def replay(r):
  import tensorflow as tf
  from tensorflow_lattice.python import lattice_lib as ll, lattice_layer as LL
  rp = r['replay']
  p = rp['params']
  w = core.witness_np(r['witness']['w'])
  scale = max(1.0, float(np.max(np.abs(w))))
  tol = 1e-4 * scale
  if rp['fn'] == 'pwl':
    from vf.props import c04
    q = dict(nk=p['nk'], spacing=p['spacing'], units=1, mono=p['mono'], conv=p['conv'], omin=p['omin'], omax=p['omax'],
             clamp_min=p['clamp_min'], clamp_max=p['clamp_max'], iters=p['N'])
    out = c04._mk(q)(tf.constant(w, tf.float32)).numpy().astype(np.float64)
    feas = all(float(c[2]) >= 0 for c in c04.pwl_cons(sym.obj(w), q))
    diff = float(np.max(np.abs(out - w)))
    return dict(reproduced=bool(feas and diff > tol), detail=dict(input_feasible=feas, max_abs_change=diff))
  sizes = list(p['sizes'])
  n = int(np.prod(sizes))
  if rp['fn'] == 'group':
    for label, call, filt in _groups(p, sizes):
      if label == p['label']:
        out = call(tf.constant(w.reshape(sizes), tf.float32)).numpy().astype(np.float64)
        cons_fn = lambda v: all_cons(np.asarray(v, dtype=object).reshape(n, 1), sizes, 1, p)
        norms = normals(cons_fn, (n,))
        ref = [Fraction(x) for x in w.reshape(-1)]
        for k, nm in enumerate(norms):
          if filt((nm[0], nm[1])):
            ref = halfspace_project(ref, nm[2])
        ref = np.array([float(x) for x in ref]).reshape(sizes)
        diff = float(np.max(np.abs(out - ref)))
        return dict(reproduced=bool(diff > tol), detail=dict(max_abs_diff_to_textbook_projection=diff, out=out.tolist(), ref=ref.tolist()))
    return dict(reproduced=False, detail='group not found')
  if rp['fn'] == 'rdom_step':
    q = dict(rdom=p['rdom'])
    for label, t, i, j, call in _rdom_steps(p, sizes):
      if label == p['label']:
        out = call(tf.constant(w.reshape(sizes), tf.float32)).numpy().astype(np.float64)
        cons_fn = lambda v: all_cons(np.asarray(v, dtype=object).reshape(n, 1), sizes, 1, q)
        mine = [nm for nm in normals(cons_fn, (n,))
                if nm[0] == 'range_dominance' and tuple(nm[1][0]) == tuple(t) and nm[1][1][t[0]] == i and nm[1][1][t[1]] == j]
        fl = lambda a: [float(x) for x in a.reshape(-1)]
        mine = [(nm[0], nm[1], [float(a) for a in nm[2]]) for nm in mine]
        bad = _rdom_step_goal(fl(w), fl(out), mine, ne=lambda a, b: abs(a - b) > tol, lt=lambda a, b: a < b - tol,
                              ge=lambda a, b: a >= b + tol)
        hit = any((c1 is True or c1) and c2 for c1, c2 in bad)
        return dict(reproduced=bool(hit), detail=dict(w=w.tolist(), out=out.tolist()))
    return dict(reproduced=False, detail='step not found')
  units = p.get('units', 1)
  fam = _fam(p)
  N = p['N']
  if rp['fn'] == 'strict':
    con = LL.LatticeConstraints(lattice_sizes=sizes, num_projection_iterations=N, enforce_strict_monotonicity=True, **fam)
    out = con(tf.constant(w, tf.float32)).numpy().astype(np.float64)
  else:
    out = ll.project_by_dykstra(tf.constant(w, tf.float32), sizes, num_iterations=N, **fam).numpy().astype(np.float64)
  q = r['query']
  if q.startswith('dykstra-unchanged'):
    feas = all(float(c[2]) >= 0 for c in all_cons(sym.obj(w), sizes, units, p))
    diff = float(np.max(np.abs(out - w)))
    return dict(reproduced=bool(feas and diff > tol), detail=dict(input_feasible=feas, max_abs_change=diff))
  tau = float(Fraction(q.split('tau=')[1].rstrip(']')))
  if q.startswith('violation-after'):
    worst = min(float(c[2]) for c in all_cons(sym.obj(out), sizes, 1, p))
    return dict(reproduced=bool(worst < -tau - tol), detail=dict(worst_slack=worst, tau=tau))
  if q.startswith('reprojecting'):
    out2 = ll.project_by_dykstra(tf.constant(out, tf.float32), sizes, num_iterations=N, **fam).numpy().astype(np.float64)
    d = float(np.max(np.abs(out2 - out)))
    return dict(reproduced=bool(d > tau + tol), detail=dict(moved=d, tau=tau))
  # distance to the true projection: compute the true projection numerically with many iterations of a reference
  # Dykstra in exact arithmetic is costly; use scipy-free active-set via z3 on the concrete w
  cons_fn = lambda v: all_cons(np.asarray(v, dtype=object).reshape(n, 1), sizes, 1, p)
  norms = normals(cons_fn, (n,))
  xs, kk = kkt_point([Fraction(float(x)) for x in w.reshape(-1)], norms)
  s = z3.Solver()
  s.add(*kk)
  if s.check() != z3.sat:
    return dict(reproduced=False, detail='kkt unsat')
  m = s.model()
  xstar = np.array([float(sym.z3_to_py(m.eval(x, model_completion=True))) for x in xs])
  d = float(np.max(np.abs(out.reshape(-1) - xstar)))
  return dict(reproduced=bool(d > tau + tol), detail=dict(distance=d, tau=tau, true_projection=xstar.tolist(), out=out.tolist()))


# ---------------------------------------------------------------- cases
FAMILIES = [
    dict(tag='mono', sizes=[3, 3], mono=[1, 1]),
    dict(tag='mono1', sizes=[2, 3], mono=[0, 1]),
    dict(tag='uni', sizes=[3, 3], uni=[1, -1]),
    dict(tag='uni4', sizes=[4, 2], uni=[1, 0], mono=[0, 1]),
    dict(tag='edge+', sizes=[3, 3], mono=[1, 0], edge=[[0, 1, 1]]),
    dict(tag='edge-', sizes=[2, 3], mono=[1, 1], edge=[[0, 1, -1]]),
    dict(tag='trap+', sizes=[3, 3], mono=[1, 0], trap=[[0, 1, 1]]),
    dict(tag='trap-', sizes=[3, 4], mono=[1, 0], trap=[[0, 1, -1]]),
    dict(tag='mdom', sizes=[3, 3], mono=[1, 1], mdom=[[0, 1]]),
    dict(tag='rdom', sizes=[3, 3], mono=[1, 1], rdom=[[0, 1]]),
    dict(tag='jmono', sizes=[3, 3], jmono=[[0, 1]]),
    dict(tag='juni', sizes=[3, 3], juni=[[[0, 1], 'valley']]),
    dict(tag='junip', sizes=[3, 3, 2], juni=[[[0, 1], 'peak']], mono=[0, 0, 1]),
    dict(tag='all', sizes=[3, 3], mono=[1, 1], edge=[[0, 1, 1]], trap=[[0, 1, 1]], mdom=[[0, 1]], jmono=[[0, 1]]),
    dict(tag='r3', sizes=[2, 3, 2], mono=[1, 1, 0], edge=[[0, 2, -1]], trap=[[1, 2, 1]], rdom=[[1, 0]]),
]

CONV = [
    dict(tag='mono22', sizes=[2, 2], mono=[1, 1]),
    dict(tag='mono23', sizes=[2, 3], mono=[1, 1]),
    dict(tag='edge22', sizes=[2, 2], mono=[1, 0], edge=[[0, 1, 1]]),
    dict(tag='trap23', sizes=[2, 3], mono=[1, 0], trap=[[0, 1, 1]]),
    dict(tag='mdom22', sizes=[2, 2], mono=[1, 1], mdom=[[0, 1]]),
    dict(tag='jmono22', sizes=[2, 2], jmono=[[0, 1]]),
    dict(tag='uni3', sizes=[3, 2], uni=[1, 0], mono=[0, 1]),
    dict(tag='rdom22', sizes=[2, 2], mono=[1, 1], rdom=[[0, 1]], nearest=False),
    dict(tag='combo22', sizes=[2, 2], mono=[1, 1], edge=[[0, 1, 1]], trap=[[0, 1, 1]]),
    # non-square shapes: every even/odd group of every constraint must be visited whatever the sizes of the two dimensions
    dict(tag='edge32', sizes=[3, 2], mono=[1, 0], edge=[[0, 1, 1]]),
    dict(tag='edge24', sizes=[2, 4], mono=[0, 1], edge=[[1, 0, -1]]),
    dict(tag='trap32', sizes=[3, 2], mono=[1, 0], trap=[[0, 1, -1]]),
    dict(tag='mdom32', sizes=[3, 2], mono=[1, 1], mdom=[[0, 1]]),
    dict(tag='jmono32', sizes=[3, 2], jmono=[[0, 1]]),
    dict(tag='rdom23', sizes=[2, 3], mono=[1, 1], rdom=[[0, 1]], nearest=False),
    dict(tag='rdom32', sizes=[3, 2], mono=[1, 1], rdom=[[0, 1]], nearest=False),
    # signed options that cancel: peak (-1) next to increasing / valley (+1) entries (a configuration is "empty" only if
    # every entry is zero, not if the entries sum to zero)
    dict(tag='unip3', sizes=[3, 2], uni=[-1, 0], mono=[0, 1]),
    dict(tag='unipv', sizes=[3, 3], uni=[-1, 1], free=[0, 1, 3, 4, 5, 7], slice_iters=[1, 2]),
    dict(tag='edgeunip', sizes=[2, 3], mono=[1, 0], uni=[0, -1], edge=[[0, 1, 1]]),
    # several constraints of the same family (distinct roll-back slots must not be shared)
]
# 8-weight lattices: the kernel is symbolic on a 4-coordinate slice (the other weights are 0), N in {2,4}
SLICES = [[0, 2, 4, 6], [1, 3, 5, 7], [0, 1, 2, 3], [0, 3, 5, 6]]
for _t, _f in (('trap2s', dict(sizes=[2, 2, 2], mono=[1, 1, 0], trap=[[0, 2, 1], [1, 2, 1]])),
               ('edge2', dict(sizes=[2, 2, 2], mono=[1, 1, 0], edge=[[0, 2, 1], [1, 2, -1]])),
               ('mdom2', dict(sizes=[2, 2, 2], mono=[1, 1, 1], mdom=[[0, 1], [1, 2]])),
               ('jmono2', dict(sizes=[2, 2, 2], jmono=[[0, 1], [1, 2]])),
               ('mono222', dict(sizes=[2, 2, 2], mono=[1, 1, 1])),
               ('mono33', dict(sizes=[3, 3], mono=[1, 1]))):
  for _s in SLICES:
    CONV.append(dict(_f, tag='%s@%s' % (_t, ''.join(map(str, _s))), free=_s, slice_iters=[2, 4]))



def cases(tier, seed):
  out = []
  th_all = load_thresholds()
  for f in FAMILIES:
    f = dict(f)
    tag = f.pop('tag')
    for units in ((1, 2) if tag in ('edge+', 'all', 'mono') else (1,)):
      nm = 'fixed-%s-u%d' % (tag, units)
      out.append(dict(name=nm, fn='case_fixed_point', params=dict(f, name=nm, units=units, iters=[1, 2, 3] if tier == 'quick' else [1, 2, 3, 5]),
                      cap=600))
    nm = 'body-%s' % tag
    out.append(dict(name=nm, fn='case_body', params=dict(f, name=nm, units=2 if tag in ('edge+', 'mono') else 1), cap=600))
    if not f.get('juni') and not (f.get('rdom') and len(f) == 3):
      nm = 'groups-%s' % tag
      out.append(dict(name=nm, fn='case_group_exact', params=dict(f, name=nm), cap=600))
  for tag, f in (('rstep23', dict(sizes=[2, 3], rdom=[[0, 1]])), ('rstep32', dict(sizes=[3, 2], rdom=[[0, 1]])),
                 ('rstep33', dict(sizes=[3, 3], rdom=[[0, 1], [1, 0]])), ('rstep232', dict(sizes=[2, 3, 2], rdom=[[1, 0], [2, 1]])),
                 ('rstep42', dict(sizes=[4, 2], rdom=[[1, 0]]))) + \
      ((('rstep243', dict(sizes=[2, 4, 3], rdom=[[0, 1], [2, 1], [1, 2]])),) if tier != 'quick' else ()):
    nm = 'rdomstep-%s' % tag
    out.append(dict(name=nm, fn='case_rdom_step', params=dict(f, name=nm), cap=600))
  for f in CONV:
    f = dict(f)
    tag = f.pop('tag')
    th = th_all.get(tag)
    if not th:
      continue
    iters = [1, 2, 4, 8] if tier == 'quick' else [1, 2, 4, 8, 16]
    if f.get('slice_iters'):
      iters = f.pop('slice_iters')
    for N in iters:
      nm = 'conv-%s-N%d' % (tag, N)
      out.append(dict(name=nm, fn='case_convergence',
                      params=dict(f, name=nm, iters=[N], thresholds=dict(th, strict=th.get('strict') if N == 8 else None),
                                  required=N <= 4), cap=900, required=N <= 4))
  for (mono, conv, omin, omax, cmin, cmax) in [(1, 0, 0.0, 1.0, False, False), (-1, 0, 0.0, 1.0, False, False),
                                               (1, 0, 0.0, 1.0, True, True), (1, 1, None, None, False, False),
                                               (0, -1, None, None, False, False), (1, 0, None, 1.0, False, False),
                                               (1, 1, 0.0, 1.0, False, False),
                                               # one end clamped, the other only bounded (both directions)
                                               (1, 0, 0.0, 1.0, False, True), (1, 0, 0.0, 1.0, True, False),
                                               (-1, 0, 0.0, 1.0, True, False), (-1, 0, 0.0, 1.0, False, True)]:
    for N in (1, 4, 8):
      nm = 'pwl-m%d-c%d-b%s,%s-cl%d%d-N%d' % (mono, conv, omin, omax, cmin, cmax, N)
      tau = {1: 1.0, 4: 0.25, 8: 0.0625}[N]
      out.append(dict(name=nm, fn='case_pwl',
                      params=dict(name=nm, nk=3, spacing='a', mono=mono, conv=conv, omin=omin, omax=omax, clamp_min=cmin,
                                  clamp_max=cmax, N=N, tau=tau if (omin is not None or omax is not None) else None), cap=600))
  return out
