#!/bin/bash
# usage: confirm_seed.sh <ID> [name] [round-suffix]  -- (round suffix '2' uses /tmp/wt2_<ID> and /tmp/seeds2/<ID>)
# independently confirms a seeded change delivered in /tmp/seeds/<ID>/ using the
# scratch worktree /tmp/wt_<ID>: patch applies to HEAD, demo fails with it and passes without it, pinned suite passes with it.
# Writes /verif/seeded/<name>/{patch.diff,demo.py,meta.json} and removes the worktree.
ID=$1; NAME=${2:-$1}; R=${3:-}
WT=/tmp/wt${R}_$ID; SRC=/tmp/seeds$R/$ID; DST=/verif/seeded/$NAME
mkdir -p $DST
cd $WT || exit 9
git checkout -q -- . && git apply $SRC/patch.diff || { echo "patch does not apply"; exit 9; }
PYTHONPATH=$WT /venv/bin/python $SRC/demo.py > $DST/demo_with.log 2>&1; RC_WITH=$?
/tmp/seedtools/run_baseline.sh $WT > $DST/baseline_with.log 2>&1; RC_BASE=$?
git checkout -q -- .
PYTHONPATH=$WT /venv/bin/python $SRC/demo.py > $DST/demo_without.log 2>&1; RC_WITHOUT=$?
cp $SRC/patch.diff $SRC/demo.py $DST/
/venv/bin/python - "$SRC/meta.json" "$DST/meta.json" $RC_WITH $RC_WITHOUT $RC_BASE "$(tail -1 $DST/baseline_with.log | head -c 200)" "$(grep -m1 'stable tests' $DST/baseline_with.log)" <<'PY'
import json, sys
src, dst, rw, rwo, rb, _, base = sys.argv[1:8]
m = json.load(open(src))
m['confirmed_by_main'] = dict(demo_exit_with_change=int(rw), demo_exit_without_change=int(rwo), baseline_exit_with_change=int(rb),
                              baseline_summary=base,
                              ran=['git apply patch.diff in a scratch worktree of /repo HEAD', 'PYTHONPATH=<wt> /venv/bin/python demo.py (with and without the change)',
                                   '/tmp/seedtools/run_baseline.sh <wt> (pinned 281-test suite, with the change)'])
m['confirmed'] = (int(rw) != 0 and int(rwo) == 0 and int(rb) == 0)
json.dump(m, open(dst, 'w'), indent=1)
print(dst, 'confirmed' if m['confirmed'] else 'NOT CONFIRMED', rw, rwo, rb)
PY
sed -i -e 's/^/  /' $DST/demo_with.log; tail -c 600 $DST/demo_with.log > $DST/demo_with.tail; mv $DST/demo_with.tail $DST/demo_with.log
rm -f $DST/demo_without.log
git -C /repo worktree remove --force $WT
