"""C13 - Regularizers compute the documented Laplacian / torsion / Hessian / wrinkle penalties."""
import itertools
from fractions import Fraction

import numpy as np
import z3

from vf import sym, specs, core
from vf.core import Case, Traced

PROP = 'C13'

META = dict(
    level='model_checking',
    technique='symbolic execution of the traced TF graphs of the Keras regularizer objects (lattice Laplacian/Torsion, PWL '
              'Laplacian/Hessian/Wrinkle) with a symbolic kernel; z3 polynomial identities against the documented sums '
              '(abs -> if-then-else, squares -> products)',
    bounds=dict(quick='lattice rank 2-3 with unequal sizes (2x3, 3x2x4 torsion only on 2x3x2, 2x3x2), units 1-2, scalar and '
                      'per-dimension amounts incl. zeros; PWL kernels with 2-6 rows, units 1-2, cyclic or not; all real kernels',
                thorough='adds 3x2x4, 2x2x3x2, 7-8 PWL rows'),
    outside=['IEEE-754 rounding', 'amounts other than the enumerated dyadic values (linearity in l1, l2 is decided separately)'],
    assumptions=['TF op semantics per vf/interp.py (validated per case)', 'z3 is sound'],
)


# ---------------------------------------------------------------- references
def ref_laplacian(K, sizes, l1, l2):
  W = np.asarray(K, dtype=object).reshape(list(sizes) + [-1])
  rank = len(sizes)
  l1s = [Fraction(v) for v in (l1 if isinstance(l1, (list, tuple)) else [l1] * rank)]
  l2s = [Fraction(v) for v in (l2 if isinstance(l2, (list, tuple)) else [l2] * rank)]
  tot = 0
  for u in range(W.shape[-1]):
    for d in range(rank):
      for idx in np.ndindex(*sizes):
        if idx[d] + 1 < sizes[d]:
          j = list(idx)
          j[d] += 1
          diff = sym.s_sub(W[tuple(j) + (u,)], W[idx + (u,)])
          if l1s[d]:
            tot = sym.s_add(tot, sym.s_mul(sym.s_abs(diff), l1s[d]))
          if l2s[d]:
            tot = sym.s_add(tot, sym.s_mul(sym.s_mul(diff, diff), l2s[d]))
  return tot


def ref_torsion(K, sizes, l1, l2, pair_weights=None):
  W = np.asarray(K, dtype=object).reshape(list(sizes) + [-1])
  rank = len(sizes)
  tot = 0
  for u in range(W.shape[-1]):
    for i in range(rank):
      for j in range(i + 1, rank):
        a1, a2 = pair_weights(i, j)
        for idx in np.ndindex(*sizes):
          if idx[i] + 1 < sizes[i] and idx[j] + 1 < sizes[j]:
            p10 = list(idx); p10[i] += 1
            p01 = list(idx); p01[j] += 1
            p11 = list(idx); p11[i] += 1; p11[j] += 1
            tw = sym.s_sub(sym.s_add(W[idx + (u,)], W[tuple(p11) + (u,)]), sym.s_add(W[tuple(p10) + (u,)], W[tuple(p01) + (u,)]))
            if a1:
              tot = sym.s_add(tot, sym.s_mul(sym.s_abs(tw), a1))
            if a2:
              tot = sym.s_add(tot, sym.s_mul(sym.s_mul(tw, tw), a2))
  return tot


def ref_pwl(K, order, l1, l2, cyclic):
  """l1*|D_order y|_1 + l2*|D_order y|_2^2 of the keypoint outputs y = cumsum(kernel); cyclic: differences wrap around."""
  K = np.asarray(K, dtype=object)
  tot = 0
  for u in range(K.shape[1]):
    y = specs.pwl_outputs(K[:, u])
    seq = list(y)
    for _ in range(order):
      if cyclic:
        seq = [sym.s_sub(seq[(i + 1) % len(seq)], seq[i]) for i in range(len(seq))]
      else:
        seq = [sym.s_sub(seq[i + 1], seq[i]) for i in range(len(seq) - 1)]
    for v in seq:
      if l1:
        tot = sym.s_add(tot, sym.s_mul(sym.s_abs(v), Fraction(l1)))
      if l2:
        tot = sym.s_add(tot, sym.s_mul(sym.s_mul(v, v), Fraction(l2)))
  return tot


# ---------------------------------------------------------------- cases
def _lat_reg(p, l1=None, l2=None):
  from tensorflow_lattice.python import lattice_layer as LL
  cls = LL.LaplacianRegularizer if p['kind'] == 'laplacian' else LL.TorsionRegularizer
  if p.get('via') == 'layer':
    # the regularizer object a Lattice layer builds from the documented ('name', l1, l2) spelling (with its own sizes)
    layer = LL.Lattice(lattice_sizes=list(p['sizes']), units=p['units'],
                       kernel_regularizer=(p['kind'], p['l1'] if l1 is None else l1, p['l2'] if l2 is None else l2))
    (rg,) = layer.kernel_regularizer
    return rg
  return cls(lattice_sizes=list(p['sizes']), l1=p['l1'] if l1 is None else l1, l2=p['l2'] if l2 is None else l2)


def _pair_weights(p):
  import math
  rank = len(p['sizes'])

  def amounts(v):
    if isinstance(v, (list, tuple)):
      return [Fraction(x) for x in v]
    if not v:
      return [Fraction(0)] * rank
    r = Fraction(math.sqrt(v))
    assert r * r == Fraction(v), 'scalar torsion amount must be a perfect square of a dyadic'
    return [r] * rank
  a1, a2 = amounts(p['l1']), amounts(p['l2'])
  return lambda i, j: (a1[i] * a1[j], a2[i] * a2[j])


def case_lattice(**p):
  import tensorflow as tf
  from tensorflow_lattice.python import lattice_layer as LL, lattice_lib as ll
  case = Case(PROP, p['name'], {k: v for k, v in p.items() if k != 'name'})
  case.encoded(LL.LaplacianRegularizer.__call__, LL.TorsionRegularizer.__call__, ll.laplacian_regularizer, ll.torsion_regularizer)
  sizes, units = list(p['sizes']), p['units']
  n = int(np.prod(sizes))
  reg = _lat_reg(p)
  tr = Traced(lambda k: reg(k), [tf.TensorSpec([n, units], tf.float32)], name=p['kind'])
  done, mism = tr.validate(np.random.default_rng(0), n=2)
  sym.new_ctx()
  K = sym.symbolic('k', (n, units))
  (out,) = tr.sym_run(K)
  out = sym.scalar(out)
  case.meta.update(validation_points=done, validation_mismatch=mism, ops=tr.ops_seen, nodes=tr.n_nodes)
  ref = ref_laplacian(K, sizes, p['l1'], p['l2']) if p['kind'] == 'laplacian' else ref_torsion(K, sizes, p['l1'], p['l2'], _pair_weights(p))
  replay = dict(fn='lattice', params=p)
  tmo = p.get('timeout', 120)
  case.solve('regularizer-equals-documented-sum', sym.NE(out, ref), witness=dict(k=K), timeout=tmo, sig=dict(query='identity', kind=p['kind']),
             replay=replay, required=p.get('required', True))
  if not (any(p['l2']) if isinstance(p['l2'], list) else p['l2']):
    # with squares the claim follows from the identity (the documented sum is a sum of non-negative terms); the
    # solver is asked directly only for the piecewise-linear (l1-only) configurations
    case.solve('regularizer-nonnegative', sym.b(sym.s_cmp('lt', out, 0)), witness=dict(k=K), timeout=tmo,
               sig=dict(query='nonneg', kind=p['kind']), replay=replay, required=False)
  W = K.reshape(sizes + [units])
  if p['kind'] == 'laplacian':
    const = [sym.EQ(W[idx + (u,)], W[tuple([0] * len(sizes)) + (u,)]) for idx in np.ndindex(*sizes) for u in range(units)]
    case.solve('laplacian-vanishes-on-constants', sym.NE(out, 0), assumptions=const, witness=dict(k=K), timeout=tmo,
               sig=dict(query='vanish', kind=p['kind']), replay=replay)
  else:
    # additively separable kernel: K[idx] = sum_d f_d[idx_d]
    f = [[z3.Real('f_%d_%d_%d' % (d, i, u)) for i in range(sizes[d])] for d in range(len(sizes)) for u in range(units)]
    sep = []
    for u in range(units):
      for idx in np.ndindex(*sizes):
        sep.append(W[idx + (u,)] == z3.Sum([f[d * units + u][idx[d]] for d in range(len(sizes))]))
    case.solve('torsion-vanishes-on-separable-kernels', sym.NE(out, 0), assumptions=sep, witness=dict(k=K), timeout=tmo,
               sig=dict(query='vanish', kind=p['kind']), replay=replay, required=False)
  if any(p['l1'] if isinstance(p['l1'], list) else [p['l1']]) or any(p['l2'] if isinstance(p['l2'], list) else [p['l2']]):
    case.solve('twin:regularizer-not-identically-zero', sym.NE(out, 0), expect='sat', kind='twin', timeout=30)
  # linearity in the amounts: reg(l1,l2) = reg(l1,0) + reg(0,l2), and scaling both by 2 doubles each part (laplacian)
  if p.get('linearity') and p['kind'] == 'laplacian':
    def scaled(v, c):
      return [x * c for x in v] if isinstance(v, list) else v * c
    z1 = [0.0] * len(sizes) if isinstance(p['l1'], list) else 0.0
    z2 = [0.0] * len(sizes) if isinstance(p['l2'], list) else 0.0
    parts = []
    for (a, b_) in ((p['l1'], z2), (z1, p['l2']), (scaled(p['l1'], 2), scaled(p['l2'], 4))):
      rg = _lat_reg(p, a, b_)
      t2 = Traced(lambda k: rg(k) + tf.zeros([], tf.float32), [tf.TensorSpec([n, units], tf.float32)], name=p['kind'])
      parts.append(sym.scalar(t2.sym_run(K)[0]))
    case.solve('regularizer-linear-in-amounts', z3.Or(sym.NE(out, sym.s_add(parts[0], parts[1])),
                                                      sym.NE(parts[2], sym.s_add(sym.s_mul(parts[0], 2), sym.s_mul(parts[1], 4)))),
               witness=dict(k=K), timeout=tmo, sig=dict(query='linear', kind=p['kind']), replay=dict(fn='lattice-linear', params=p), required=False)
  return case


def _pwl_reg(p, l1=None, l2=None):
  from tensorflow_lattice.python import pwl_calibration_layer as PL
  cls = dict(laplacian=PL.LaplacianRegularizer, hessian=PL.HessianRegularizer, wrinkle=PL.WrinkleRegularizer)[p['kind']]
  l1 = p['l1'] if l1 is None else l1
  l2 = p['l2'] if l2 is None else l2
  via = p.get('via')
  if via:
    # the regularizer objects a PWLCalibration layer builds from the documented ('name', l1, l2) spelling: they must carry
    # the layer's own is_cyclic
    spec = {'layer': (p['kind'], l1, l2), 'layerupper': (p['kind'].capitalize(), l1, l2),
            'layerlist': [(p['kind'], l1, 0.0), (p['kind'], 0.0, l2)]}[via]
    layer = PL.PWLCalibration(input_keypoints=np.linspace(0.0, 1.0, p['rows']), units=p['units'], is_cyclic=p['cyclic'],
                              kernel_regularizer=spec)
    regs = list(layer.kernel_regularizer)
    assert len(regs) == (2 if via == 'layerlist' else 1), regs
    return lambda k: sum(r(k) for r in regs)
  return cls(l1=l1, l2=l2, is_cyclic=p['cyclic'])


def case_pwl(**p):
  import tensorflow as tf
  from tensorflow_lattice.python import pwl_calibration_layer as PL
  case = Case(PROP, p['name'], {k: v for k, v in p.items() if k != 'name'})
  case.encoded(PL.LaplacianRegularizer.__call__, PL.HessianRegularizer.__call__, PL.WrinkleRegularizer.__call__)
  rows, units = p['rows'], p['units']
  reg = _pwl_reg(p)
  tr = Traced(lambda k: reg(k) + tf.zeros([], tf.float32), [tf.TensorSpec([rows, units], tf.float32)], name='pwl-' + p['kind'])
  done, mism = tr.validate(np.random.default_rng(0), n=2)
  sym.new_ctx()
  K = sym.symbolic('k', (rows, units))
  out = sym.scalar(tr.sym_run(K)[0])
  case.meta.update(validation_points=done, validation_mismatch=mism, ops=tr.ops_seen, nodes=tr.n_nodes)
  order = dict(laplacian=1, hessian=2, wrinkle=3)[p['kind']]
  ref = ref_pwl(K, order, p['l1'], p['l2'], p['cyclic'])
  replay = dict(fn='pwl', params=p)
  tmo = p.get('timeout', 60)
  case.solve('regularizer-equals-documented-norm', sym.NE(out, ref), witness=dict(k=K), timeout=tmo,
             sig=dict(query='identity', kind='pwl-' + p['kind']), replay=replay, required=p.get('required', True))
  if not p['l2']:
    case.solve('regularizer-nonnegative', sym.b(sym.s_cmp('lt', out, 0)), witness=dict(k=K), timeout=tmo,
               sig=dict(query='nonneg', kind='pwl-' + p['kind']), replay=replay, required=False)
  # vanishing: outputs polynomial of degree < order in the keypoint index (non cyclic)
  if not p['cyclic']:
    coef = [[z3.Real('c_%d_%d' % (d, u)) for d in range(order)] for u in range(units)]
    poly = []
    for u in range(units):
      y = specs.pwl_outputs(K[:, u])
      for i, yi in enumerate(y):
        poly.append(sym.Z(yi) == z3.Sum([coef[u][d] * (i ** d) for d in range(order)]))
    case.solve('vanishes-on-polynomials-of-degree-%d' % (order - 1), sym.NE(out, 0), assumptions=poly, witness=dict(k=K),
               timeout=tmo, sig=dict(query='vanish', kind='pwl-' + p['kind']), replay=replay)
  rg1, rg2 = _pwl_reg(p, p['l1'], 0.0), _pwl_reg(p, 0.0, p['l2'])
  o1 = sym.scalar(Traced(lambda k: rg1(k) + tf.zeros([], tf.float32), [tf.TensorSpec([rows, units], tf.float32)]).sym_run(K)[0])
  o2 = sym.scalar(Traced(lambda k: rg2(k) + tf.zeros([], tf.float32), [tf.TensorSpec([rows, units], tf.float32)]).sym_run(K)[0])
  case.solve('regularizer-additive-in-l1-l2', sym.NE(out, sym.s_add(o1, o2)), witness=dict(k=K), timeout=tmo,
             sig=dict(query='linear', kind='pwl-' + p['kind']), replay=dict(fn='pwl-linear', params=p), required=False)
  return case


def replay(r):
  import tensorflow as tf
  p = r['replay']['params']
  K = core.witness_np(r['witness']['k'])
  if r['replay']['fn'] in ('lattice-linear', 'pwl-linear'):
    mk = _lat_reg if r['replay']['fn'] == 'lattice-linear' else _pwl_reg
    z1 = [0.0] * len(p['l1']) if isinstance(p['l1'], list) else 0.0
    z2 = [0.0] * len(p['l2']) if isinstance(p['l2'], list) else 0.0
    Kt = tf.constant(K, tf.float32)
    whole, a_, b_ = float(mk(p)(Kt)), float(mk(p, p['l1'], z2)(Kt)), float(mk(p, z1, p['l2'])(Kt))
    return dict(reproduced=bool(abs(whole - (a_ + b_)) > 1e-4 * max(1.0, abs(whole))), detail=dict(both=whole, l1_only=a_, l2_only=b_))
  if r['replay']['fn'] == 'lattice':
    out = float(_lat_reg(p)(tf.constant(K, tf.float32)))
    ref = ref_laplacian(sym.obj(K), p['sizes'], p['l1'], p['l2']) if p['kind'] == 'laplacian' else ref_torsion(sym.obj(K), p['sizes'], p['l1'], p['l2'], _pair_weights(p))
  else:
    out = float(_pwl_reg(p)(tf.constant(K, tf.float32)))
    ref = ref_pwl(sym.obj(K), dict(laplacian=1, hessian=2, wrinkle=3)[p['kind']], p['l1'], p['l2'], p['cyclic'])
  ref = float(ref)
  bad = abs(out - ref) > 1e-4 * max(1.0, abs(ref)) or out < -1e-6
  return dict(reproduced=bool(bad), detail=dict(regularizer=out, documented=ref, kernel=K.tolist()))


def cases(tier, seed):
  out = []

  def add(fn, required=True, cap=600, **p):
    nm = '%s-%s' % (fn.replace('case_', ''), '-'.join('%s%s' % (k[:2], v) for k, v in sorted(p.items()) if k not in ('timeout', 'linearity')))
    p['name'] = nm
    p['required'] = required
    out.append(dict(name=nm, fn=fn, params=p, cap=cap, required=required))

  for kind in ('laplacian', 'torsion'):
    sc = (0.25, 0.0625) if kind == 'torsion' else (0.5, 0.25)
    add('case_lattice', kind=kind, sizes=[2, 3], units=1, l1=sc[0], l2=sc[1], linearity=True)
    add('case_lattice', kind=kind, sizes=[3, 2], units=2, l1=[0.5, 0.25], l2=[0.0, 2.0], linearity=True)
    add('case_lattice', kind=kind, sizes=[2, 3, 2], units=1, l1=[0.5, 0.0, 2.0], l2=[1.0, 0.25, 0.0], timeout=200,
        required=kind == 'laplacian')
    add('case_lattice', kind=kind, sizes=[2, 3, 2], units=2, l1=sc[0], l2=0.0, timeout=200, required=kind == 'laplacian')
    add('case_lattice', kind=kind, sizes=[3, 2, 2], units=1, l1=0.0, l2=[0.25, 1.0, 0.5], timeout=200, required=kind == 'laplacian')
    # one amount per dimension, the other a scalar (and a tuple instead of a list)
    add('case_lattice', kind=kind, sizes=[2, 3, 2], units=1, l1=[0.5, 0.25, 1.0], l2=0.25, timeout=200, required=kind == 'laplacian')
    add('case_lattice', kind=kind, sizes=[3, 3], units=2, l1=0.0625, l2=[0.5, 2.0], timeout=200)
    # a dimension with zero amount in both norms, in front of / between the others; amounts given for one norm only
    add('case_lattice', kind=kind, sizes=[2, 3, 2], units=1, l1=[0.0, 0.5, 2.0], l2=0.0, timeout=200, required=kind == 'laplacian')
    add('case_lattice', kind=kind, sizes=[2, 2, 3], units=2, l1=[0.0, 0.5, 2.0], l2=[0.0, 0.0, 1.0], timeout=200, required=kind == 'laplacian')
    add('case_lattice', kind=kind, sizes=[3, 2, 2, 2], units=1, l1=0.0, l2=[1.0, 0.0, 0.75, 0.5], timeout=300, required=False)
    add('case_lattice', kind=kind, sizes=[2, 3], units=2, l1=sc[0], l2=[0.5, 2.0], via='layer')
  for kind in ('laplacian', 'hessian', 'wrinkle'):
    for rows in (2, 3, 4, 5, 6):
      for cyclic in (False, True):
        if kind == 'wrinkle' and rows < 3:
          continue  # the property speaks of kernels of at least three rows for wrinkle
        add('case_pwl', kind=kind, rows=rows, units=1 + rows % 2, cyclic=cyclic, l1=0.5, l2=0.25)
    add('case_pwl', kind=kind, rows=4, units=2, cyclic=False, l1=0.0, l2=2.0)
    add('case_pwl', kind=kind, rows=4, units=1, cyclic=True, l1=1.5, l2=0.0)
    # the same regularizers as the layer builds them from the ('name', l1, l2) spelling (single tuple, list of tuples)
    add('case_pwl', kind=kind, rows=4, units=2, cyclic=True, l1=0.5, l2=0.25, via='layer')
    add('case_pwl', kind=kind, rows=5, units=1, cyclic=True, l1=0.5, l2=0.25, via='layerlist')
    add('case_pwl', kind=kind, rows=4, units=1, cyclic=False, l1=0.5, l2=0.25, via='layerupper')
  if tier == 'thorough':
    for kind in ('laplacian', 'torsion'):
      add('case_lattice', kind=kind, sizes=[3, 2, 4], units=1, l1=[0.5, 0.25, 1.0], l2=[1.0, 0.0, 0.25], timeout=900, required=False, cap=2000)
      add('case_lattice', kind=kind, sizes=[2, 2, 3, 2], units=1, l1=[0.5, 0.25, 1.0, 2.0], l2=0.0, timeout=900, required=False, cap=2000)
    for kind in ('laplacian', 'hessian', 'wrinkle'):
      for rows in (7, 8):
        add('case_pwl', kind=kind, rows=rows, units=2, cyclic=rows == 7, l1=0.5, l2=0.25, required=False, timeout=300)
  return out
