"""C14 - Alternative representations of the same function agree."""
import itertools
from fractions import Fraction

import numpy as np
import z3

from vf import sym, specs, core
from vf.core import Case, Traced

PROP = 'C14'

META = dict(
    level='model_checking',
    technique='pairs of traced TF graphs of the real public callables, executed symbolically on related symbolic parameters '
              '(the second representation is fed the parameters derived from the first); equality decided by z3 '
              '(rewriter polynomial normal form inside a lattice cell; QF_NRA otherwise); softmax/sigmoid by shared contract stubs',
    bounds=dict(quick='KFL vs dense Lattice: lattice size 2-3, dims 2-3, units 1-2, terms 1-2, every cell; pwl_calibration_fn vs '
                      'PWLCalibration(learned_interior): 3-4 keypoints, units 1-2, monotonicity none/increasing, clamps; cdf_fn vs '
                      'CDF: relu6/sigmoid, mean/none, sparsity 1-2; ParallelCombination of 2-3 calibrators; Aggregation over row-length '
                      'patterns (1,2),(2,2),(3,1); RTL with 2-3 lattices incl. separate_outputs and averaging',
                thorough='KFL size 4 / dims 3 with 2 terms, 5 keypoints'),
    outside=['IEEE-754 rounding', 'geometric-mean CDF (documented different epsilon)', 'ragged row-length patterns other than the enumerated ones'],
    assumptions=['TF op semantics per vf/interp.py (validated per case)', 'z3 is sound', 'Softmax / Sigmoid contracts'],
)


def case_kfl_vs_lattice(**p):
  import tensorflow as tf
  from tensorflow_lattice.python import kronecker_factored_lattice_layer as KL, kronecker_factored_lattice_lib as kl, lattice_layer as LL
  case = Case(PROP, p['name'], {k: v for k, v in p.items() if k != 'name'})
  case.encoded(KL.KroneckerFactoredLattice.call, kl.evaluate_with_hypercube_interpolation, LL.Lattice.call)
  ls, dims, units, terms = p['ls'], p['dims'], p['units'], p['terms']
  kfl = KL.KroneckerFactoredLattice(lattice_sizes=ls, units=units, num_terms=terms)
  lat = LL.Lattice(lattice_sizes=[ls] * dims, units=units)
  xshape = [1, dims] if units == 1 else [1, units, dims]
  kfl.build(tf.TensorShape([None] + xshape[1:]))
  lat.build(tf.TensorShape([None] + xshape[1:]))
  tk = Traced(lambda x: kfl(x), [tf.TensorSpec(xshape, tf.float32)], name='KFL.call')
  tl = Traced(lambda x: lat(x), [tf.TensorSpec(xshape, tf.float32)], name='Lattice.call')
  gen = lambda r, i, s, t: r.integers(-2, 8 * (ls - 1) + 3, size=s) / 8.0
  done, mism = tk.validate(np.random.default_rng(0), n=1, gen=gen)
  case.meta.update(validation_points=done, validation_mismatch=mism)
  n = ls ** dims
  for cell in itertools.product(range(ls - 1), repeat=dims):
    sym.new_ctx()
    x = sym.symbolic('x', tuple(xshape))
    K = sym.symbolic('k', (1, ls, units * dims, terms))
    S = sym.symbolic('s', (units, terms))
    B = sym.symbolic('b', (units,))
    X = x.reshape(-1, dims)
    conds = []
    for u in range(X.shape[0]):
      for d in range(dims):
        lo = X[u, d] >= cell[d] if cell[d] > 0 else z3.BoolVal(True)
        hi = X[u, d] <= cell[d] + 1 if cell[d] + 1 < ls - 1 else z3.BoolVal(True)
        conds += [lo, hi]
    sym.ctx().assume(*conds)
    sym.ctx().resolve_comparisons = True
    (ok,) = tk.sym_run(x, var_values={kfl.kernel.ref(): K, kfl.scale.ref(): S, kfl.bias.ref(): B})
    dense = np.empty((n, units), dtype=object)
    for u in range(units):
      for vi, v in enumerate(itertools.product(range(ls), repeat=dims)):
        acc = 0
        for t in range(terms):
          prod = S[u, t]
          for d in range(dims):
            prod = sym.s_mul(prod, K[0, v[d], u * dims + d, t])
          acc = sym.s_add(acc, prod)
        dense[vi, u] = sym.s_add(B[u], sym.s_mul(acc, Fraction(1, terms)))
    (ol,) = tl.sym_run(x, var_values={lat.kernel.ref(): dense})
    case.meta.update(ops=tk.ops_seen)
    pairs = list(zip(np.asarray(ok, dtype=object).reshape(-1), np.asarray(ol, dtype=object).reshape(-1)))
    case.identity('kfl-equals-dense-lattice[cell=%s]' % list(cell), pairs, witness=dict(x=x, k=K, s=S, b=B),
                  timeout=p.get('timeout', 120), sig=dict(query='kfl-lattice'), replay=dict(fn='kfl', params=p),
                  required=p.get('required', True))
  return case


def _softmax_vals(args_row):
  c = sym.ctx()
  key = ('softmax',) + tuple(sym.Z(a).get_id() if sym.is_z(a) else a for a in args_row)
  return c.softmax[key][1]


def case_pwl_fn_none(**p):
  """pwl_calibration_fn with keypoint_input_parameters=None (two keypoints) against a PWLCalibration layer with the fixed
  keypoints [input_min, input_max] holding the kernel the function derives."""
  import tensorflow as tf
  from tensorflow_lattice.python import conditional_pwl_calibration as cp, pwl_calibration_layer as PL
  case = Case(PROP, p['name'], {k: v for k, v in p.items() if k != 'name'})
  case.encoded(cp.pwl_calibration_fn, PL.PWLCalibration.call)
  units = p['units']
  kw = dict(units=units, keypoint_input_min=p['imin'], keypoint_input_max=p['imax'], keypoint_output_min=p.get('omin', 0.0),
            keypoint_output_max=p.get('omax', 1.0), monotonicity=p['mono'])
  cols = units if p.get('per_unit_input') else 1
  tf_fn = Traced(lambda x, ko: cp.pwl_calibration_fn(x, None, ko, return_derived_parameters=True, **kw),
                 [tf.TensorSpec([1, cols], tf.float32), tf.TensorSpec([1, units, 2], tf.float32)], name='pwl_calibration_fn[None]')
  layer = PL.PWLCalibration(input_keypoints=[p['imin'], p['imax']], units=units)
  layer.build(tf.TensorShape([None, cols]))
  tl = Traced(lambda x: layer(x), [tf.TensorSpec([1, cols], tf.float32)], name='PWLCalibration.call')
  done, mism = tf_fn.validate(np.random.default_rng(0), n=1, gen=lambda r, i, s_, t: r.integers(-4, 12, size=s_) / 4.0)
  sym.new_ctx()
  x = sym.symbolic('x', (1, cols))
  ko = sym.symbolic('ko', (1, units, 2))
  out_f, deltas, kouts = tf_fn.sym_run(x, ko)
  kern = np.empty((2, units), dtype=object)
  for u in range(units):
    for i in range(2):
      kern[i, u] = kouts[0, u, i]
  vvl = {layer.kernel.ref(): kern}
  (out_l,) = tl.sym_run(x, var_values=vvl)
  case.meta.update(validation_points=done, validation_mismatch=mism, ops=tf_fn.ops_seen, stubs=sym.ctx().stubs)
  flat = lambda outs: np.asarray(outs[0]).reshape(-1)
  case.identity('pwl_calibration_fn-equals-layer', list(zip(out_f.reshape(-1), out_l.reshape(-1))), witness=dict(x=x, ko=ko), timeout=90,
                sig=dict(query='pwl-fn-none'),
                inline_replay=lambda m: core.compare_tf(m, [(tf_fn, [x, ko], {}, flat), (tl, [x], vvl, flat)]))
  pairs = [(deltas.reshape(-1)[u], Fraction(p['imax']) - Fraction(p['imin'])) for u in range(deltas.reshape(-1).shape[0])]
  case.identity('derived-piece-length-is-the-input-range', pairs, witness=dict(ko=ko), timeout=30, sig=dict(query='pwl-fn-none-len'), replay=None,
                required=False)
  return case


def case_pwl_fn(**p):
  import tensorflow as tf
  from tensorflow_lattice.python import conditional_pwl_calibration as cp, pwl_calibration_layer as PL
  case = Case(PROP, p['name'], {k: v for k, v in p.items() if k != 'name'})
  case.encoded(cp.pwl_calibration_fn, PL.PWLCalibration.call)
  nk, units = p['nk'], p['units']
  kin_min, kin_max = 0.0, 2.0
  kw = dict(units=units, keypoint_input_min=kin_min, keypoint_input_max=kin_max, keypoint_output_min=p.get('omin', 0.0),
            keypoint_output_max=p.get('omax', 1.0), monotonicity=p['mono'], clamp_min=p.get('clamp_min', False),
            clamp_max=p.get('clamp_max', False), is_cyclic=p.get('cyclic', False), missing_input_value=p.get('missing_input'))
  if p.get('imin') is not None:
    kin_min, kin_max = p['imin'], p['imax']
    kw.update(keypoint_input_min=kin_min, keypoint_input_max=kin_max)
  osize = nk - int(kw['clamp_min']) - int(kw['clamp_max']) - int(kw['is_cyclic']) + int(p.get('missing_input') is not None)
  cols = units if p.get('per_unit_input') else 1
  tf_fn = Traced(lambda x, ki, ko: cp.pwl_calibration_fn(x, ki, ko, return_derived_parameters=True, **kw),
                 [tf.TensorSpec([1, cols], tf.float32), tf.TensorSpec([1, units, nk - 2], tf.float32), tf.TensorSpec([1, units, osize], tf.float32)],
                 name='pwl_calibration_fn')
  kps = list(np.linspace(kin_min, kin_max, nk))
  layer = PL.PWLCalibration(input_keypoints=kps, units=units, input_keypoints_type='learned_interior', is_cyclic=kw['is_cyclic'],
                            impute_missing=p.get('missing_input') is not None, missing_input_value=p.get('missing_input'))
  layer.build(tf.TensorShape([None, cols]))
  tl = Traced(lambda x: layer(x), [tf.TensorSpec([1, cols], tf.float32)], name='PWLCalibration.call')
  done, mism = tf_fn.validate(np.random.default_rng(0), n=1, gen=lambda r, i, s, t: r.integers(-4, 12, size=s) / 4.0)
  sym.new_ctx()
  x = sym.symbolic('x', (1, cols))
  ki = sym.symbolic('ki', (1, units, nk - 2))
  ko = sym.symbolic('ko', (1, units, osize))
  out_f, deltas, kouts = tf_fn.sym_run(x, ki, ko)
  # the layer gets logits [0, ki...] (same softmax arguments -> same contract variables) and the derived kernel
  logits = np.empty((units, nk - 1), dtype=object)
  for u in range(units):
    logits[u, 0] = 0
    for i in range(nk - 2):
      logits[u, i + 1] = ki[0, u, i]
  kern = np.empty((kouts.shape[2] - int(kw['is_cyclic']), units), dtype=object)
  for u in range(units):
    for i in range(kern.shape[0]):
      kern[i, u] = kouts[0, u, i]
  vvl = {layer.interpolation_logits.ref(): logits, layer.kernel.ref(): kern}
  assume = []
  if p.get('missing_input') is not None:
    # the layer's learned missing output := the value the function derives from the last output parameter
    omin_, omax_ = kw['keypoint_output_min'], kw['keypoint_output_max']
    tm = Traced(lambda t: omin_ + tf.sigmoid(t) * (omax_ - omin_), [tf.TensorSpec([1, units], tf.float32)], name='derived-missing-output')
    (mo,) = tm.sym_run(ko[:, :, -1])
    vvl[layer.missing_output.ref()] = mo
  (out_l,) = tl.sym_run(x, var_values=vvl)
  case.meta.update(validation_points=done, validation_mismatch=mism, ops=tf_fn.ops_seen, stubs=sym.ctx().stubs)
  pairs = list(zip(out_f.reshape(-1), out_l.reshape(-1)))
  flat = lambda outs: np.asarray(outs[0]).reshape(-1)
  case.identity('pwl_calibration_fn-equals-layer', pairs, witness=dict(x=x, ki=ki, ko=ko), timeout=p.get('timeout', 120),
                sig=dict(query='pwl-fn'), required=p.get('required', True),
                inline_replay=lambda m: core.compare_tf(m, [(tf_fn, [x, ki, ko], {}, flat), (tl, [x], vvl, flat)]))
  # derived keypoint deltas equal the layer's lengths
  kin = Traced(lambda: layer.keypoints_inputs(), [], name='keypoints_inputs').sym_run(var_values={layer.interpolation_logits.ref(): logits})[0]
  pairs = []
  for u in range(units):
    acc = Fraction(kin_min)
    for i in range(nk - 1):
      pairs.append((kin[i, u], acc))
      acc = sym.s_add(acc, deltas[0, u, i])
    pairs.append((kin[nk - 1, u], acc))
  case.identity('derived-keypoints-equal-layer-keypoints', pairs, witness=dict(ki=ki), timeout=60, sig=dict(query='pwl-fn-kp'), replay=None,
                required=False)
  return case


def case_cdf_fn(**p):
  import tensorflow as tf
  from tensorflow_lattice.python import conditional_cdf as cc, cdf_layer as CL
  case = Case(PROP, p['name'], {k: v for k, v in p.items() if k != 'name'})
  case.encoded(cc.cdf_fn, CL.CDF.call)
  dim, nk, units, sp = p['dim'], p['nk'], p['units'], p.get('sparsity', 1)
  layer = CL.CDF(num_keypoints=nk, units=units, activation=p['activation'], reduction=p['reduction'],
                 input_scaling_type=p.get('scaling', 'learned_per_input'), sparsity_factor=sp)
  layer.build(tf.TensorShape([None, dim]))
  B = 2
  tl = Traced(lambda x: layer(x), [tf.TensorSpec([B, dim], tf.float32)], name='CDF.call')
  sshape = [B, dim, 1, 1]
  tf_fn = Traced(lambda x, l, s: cc.cdf_fn(x, l, s, units=units, activation=p['activation'], reduction=p['reduction'], sparsity_factor=sp),
                 [tf.TensorSpec([B, dim], tf.float32), tf.TensorSpec([B, dim, nk, units // sp], tf.float32), tf.TensorSpec(sshape, tf.float32)],
                 name='cdf_fn')
  done, mism = tf_fn.validate(np.random.default_rng(0), n=1, gen=lambda r, i, s, t: r.integers(0, 9, size=s) / 8.0)
  sym.new_ctx()
  x = sym.symbolic('x', (B, dim))
  kern = sym.symbolic('k', (1, dim, nk, units // sp))
  vv = {layer.kernel.ref(): kern}
  if p.get('scaling', 'learned_per_input') == 'learned_per_input':
    sc = sym.symbolic('s', (1, dim, 1, 1))
    vv[layer.input_scaling.ref()] = sc
    scb = np.broadcast_to(sc, sshape).copy()
  elif p['scaling'] == 'learned_shared':
    sc = sym.symbolic('s', (1,))
    vv[layer.input_scaling.ref()] = sc
    scb = sym.full(sshape, sc[0])
  else:
    sc = None
    scb = sym.full(sshape, Fraction(layer.input_scaling_init))
  (ol,) = tl.sym_run(x, var_values=vv)
  loc = np.broadcast_to(kern, (B, dim, nk, units // sp)).copy()
  (of,) = tf_fn.sym_run(x, loc, scb)
  case.meta.update(validation_points=done, validation_mismatch=mism, ops=tf_fn.ops_seen, stubs=sym.ctx().stubs)
  pairs = list(zip(np.asarray(ol, dtype=object).reshape(-1), np.asarray(of, dtype=object).reshape(-1)))
  wit = dict(x=x, k=kern)
  if sc is not None:
    wit['s'] = sc
  flat = lambda outs: np.asarray(outs[0]).reshape(-1)
  case.identity('cdf_fn-equals-CDF-layer', pairs, witness=wit, timeout=p.get('timeout', 120), sig=dict(query='cdf-fn'),
                required=p.get('required', True),
                inline_replay=lambda m: core.compare_tf(m, [(tl, [x], vv, flat), (tf_fn, [x, loc, scb], {}, flat)]))
  return case


def case_parallel(**p):
  import tensorflow as tf
  import tensorflow_lattice as tfl
  from tensorflow_lattice.python import parallel_combination_layer as PCL
  case = Case(PROP, p['name'], {k: v for k, v in p.items() if k != 'name'})
  case.encoded(PCL.ParallelCombination.call)
  cals = [tfl.layers.PWLCalibration(input_keypoints=[0.0, 1.0, 3.0]), tfl.layers.PWLCalibration(input_keypoints=[-1.0, 0.0, 0.5, 2.0]),
          tfl.layers.CategoricalCalibration(num_buckets=3, default_input_value=0)][:p['n']]
  if p.get('shared'):
    # weight sharing: the same calibrator object serves several columns
    cals = [cals[0], cals[1], cals[0], cals[1]][:p['n']]
  pc = PCL.ParallelCombination(single_output=p['single'])
  for c_ in cals:
    pc.append(c_)
  n = len(cals)
  if p.get('list_input'):
    fn = lambda *xs: tf.concat(pc(list(xs)), axis=1) if not p['single'] else pc(list(xs))
    specs_ = [tf.TensorSpec([1, 1], tf.float32)] * n
  else:
    fn = lambda x: tf.concat(pc(x), axis=1) if not p['single'] else pc(x)
    specs_ = [tf.TensorSpec([1, n], tf.float32)]
  tp = Traced(fn, specs_, name='ParallelCombination.call')
  singles = [Traced(lambda x, c_=c_: c_(x), [tf.TensorSpec([1, 1], tf.float32)], name='calibrator%d' % i) for i, c_ in enumerate(cals)]
  cat_vals = [0.0, 1.0, 2.0] if (n == 3 and not p.get('shared')) else [None]
  for cv in cat_vals:
    sym.new_ctx()
    vv, wit = {}, {}
    for i, c_ in enumerate(cals):
      for j, v in enumerate(c_.weights):
        if v.ref() in vv:
          continue
        a = sym.symbolic('v%d_%d' % (i, j), tuple(v.shape))
        vv[v.ref()] = a
        wit['v%d_%d' % (i, j)] = a
    x = sym.symbolic('x', (1, n))
    if cv is not None:
      x[0, 2] = Fraction(cv)
    args = [x[:, i:i + 1] for i in range(n)] if p.get('list_input') else [x]
    (op,) = tp.sym_run(*args, var_values=vv)
    pairs = []
    for i, ts in enumerate(singles):
      (o1,) = ts.sym_run(x[:, i:i + 1], var_values=vv)
      pairs.append((op[0, i], o1[0, 0]))
    case.meta.update(ops=tp.ops_seen)
    def rp(m, args=args, vv=vv, x=x):
      sides = [(tp, args, vv, lambda outs: np.asarray(outs[0]).reshape(-1))]
      cols = []
      for i, ts in enumerate(singles):
        cols.append(ts.tf_run(core.model_np(m, x[:, i:i + 1]), var_values={k: core.model_np(m, v) for k, v in vv.items()})[0].reshape(-1)[0])
      a_ = np.asarray(tp.tf_run(*[core.model_np(m, t) for t in args], var_values={k: core.model_np(m, v) for k, v in vv.items()})[0]).reshape(-1)
      d_ = float(np.max(np.abs(a_ - np.asarray(cols))))
      return dict(reproduced=bool(d_ > 1e-4 * max(1.0, float(np.max(np.abs(a_))))), detail=dict(combined=a_.tolist(), columnwise=[float(c) for c in cols]))
    case.identity('parallel-combination-equals-columnwise[cat=%s]' % cv, pairs, witness=wit, timeout=60, sig=dict(query='parallel'),
                  inline_replay=rp)
  return case


def case_aggregation(**p):
  import tensorflow as tf
  import tensorflow_lattice as tfl
  from tensorflow_lattice.python import aggregation_layer as AL
  from vf.interp import keras_of
  case = Case(PROP, p['name'], {k: v for k, v in p.items() if k != 'name'})
  case.encoded(AL.Aggregation.call)
  keras = keras_of()
  ia = keras.layers.Input(shape=(1,), name='a')
  ib = keras.layers.Input(shape=(1,), name='b')
  ca = tfl.layers.PWLCalibration(input_keypoints=[0.0, 1.0, 2.0], output_min=0.0, output_max=1.0)(ia)
  cb = tfl.layers.PWLCalibration(input_keypoints=[0.0, 1.0, 2.0], output_min=0.0, output_max=1.0)(ib)
  lat = tfl.layers.Lattice(lattice_sizes=[2, 2])(keras.layers.Concatenate(axis=1)([ca, cb]))
  model = keras.Model(inputs=[ia, ib], outputs=lat)
  agg = AL.Aggregation(model)
  lens = list(p['lens'])
  total = sum(lens)
  splits = np.cumsum([0] + lens).astype(np.int64)

  def fn(fa, fb):
    ra = tf.RaggedTensor.from_row_splits(fa, splits)
    rb = tf.RaggedTensor.from_row_splits(fb, splits)
    return agg([ra, rb])
  ta = Traced(fn, [tf.TensorSpec([total], tf.float32)] * 2, name='Aggregation.call')
  tm = Traced(lambda a, b_: model([a, b_]), [tf.TensorSpec([total, 1], tf.float32)] * 2, name='wrapped-model')
  done, mism = ta.validate(np.random.default_rng(0), n=1, gen=lambda r, i, s, t: r.integers(0, 17, size=s) / 8.0)
  sym.new_ctx()
  vv, wit = {}, {}
  for j, v in enumerate(model.weights):
    a = sym.symbolic('v%d' % j, tuple(v.shape))
    vv[v.ref()] = a
    wit['v%d' % j] = a
  fa, fb = sym.symbolic('fa', (total,)), sym.symbolic('fb', (total,))
  (oa,) = ta.sym_run(fa, fb, var_values=vv)
  (om,) = tm.sym_run(fa.reshape(total, 1), fb.reshape(total, 1), var_values=vv)
  case.meta.update(validation_points=done, validation_mismatch=mism, ops=ta.ops_seen)
  pairs = []
  off = 0
  for r_, ln in enumerate(lens):
    acc = 0
    for i in range(ln):
      acc = sym.s_add(acc, om[off + i, 0])
    off += ln
    pairs.append((np.asarray(oa, dtype=object).reshape(-1)[r_], sym.s_mul(acc, Fraction(1, ln))))
  def rp(m):
    vvn = {k: core.model_np(m, v) for k, v in vv.items()}
    a_ = np.asarray(ta.tf_run(core.model_np(m, fa), core.model_np(m, fb), var_values=vvn)[0]).reshape(-1)
    mo = np.asarray(tm.tf_run(core.model_np(m, fa).reshape(total, 1), core.model_np(m, fb).reshape(total, 1), var_values=vvn)[0]).reshape(-1)
    ref, off = [], 0
    for ln in lens:
      ref.append(float(np.mean(mo[off:off + ln])))
      off += ln
    d_ = float(np.max(np.abs(a_ - np.asarray(ref))))
    return dict(reproduced=bool(d_ > 1e-4 * max(1.0, float(np.max(np.abs(a_))))), detail=dict(aggregation=a_.tolist(), per_example_mean=ref))
  case.identity('aggregation-equals-per-example-mean', pairs, witness=dict(wit, fa=fa, fb=fb), timeout=120, sig=dict(query='aggregation'),
                inline_replay=rp)
  return case


def case_rtl(**p):
  import tensorflow as tf
  from tensorflow_lattice.python import rtl_layer as RL
  case = Case(PROP, p['name'], {k: v for k, v in p.items() if k != 'name'})
  case.encoded(RL.RTL.call, RL.RTL.build)
  layer = RL.RTL(num_lattices=p['num'], lattice_rank=p['rank'], lattice_size=2, random_seed=p.get('seed', 3),
                 separate_outputs=p.get('separate', False), average_outputs=p.get('average', False),
                 parameterization=p.get('param', 'all_vertices'),
                 kernel_initializer='kfl_random_monotonic_initializer' if p.get('param') == 'kronecker_factored' else 'random_monotonic_initializer')
  nu, ni = p['n_unc'], p['n_inc']
  specs_ = []
  keys = []
  if ni:
    keys.append('increasing'); specs_.append(tf.TensorSpec([1, ni], tf.float32))
  if nu:
    keys.append('unconstrained'); specs_.append(tf.TensorSpec([1, nu], tf.float32))

  def fn(*xs):
    out = layer(dict(zip(keys, xs)))
    if isinstance(out, dict):
      return [out[k] for k in sorted(out)]
    return out
  tr = Traced(fn, specs_, name='RTL.call')
  struct = layer._rtl_structure
  done, mism = tr.validate(np.random.default_rng(0), n=1, gen=lambda r, i, s, t: r.integers(0, 9, size=s) / 8.0)
  sym.new_ctx()
  vv, wit = {}, {}
  for j, v in enumerate(layer.weights):
    a = sym.symbolic('v%d' % j, tuple(v.shape))
    vv[v.ref()] = a
    wit['v%d' % j] = a
  xs = [sym.symbolic('x%d' % i, tuple(int(d) for d in s.shape)) for i, s in enumerate(specs_)]
  outs = tr.sym_run(*xs, var_values=vv)
  flat = np.concatenate([a for _, a in sorted(zip(keys, xs), key=lambda t: t[0])], axis=1)
  # reference: gather the recorded indices into the corresponding lattice layers
  per = {0: [], 1: []}
  per_tf = {0: [], 1: []}
  for monos, units_inputs in struct:
    lat = layer._lattice_layers[str(monos)]
    u = len(units_inputs)
    idx = np.array(units_inputs)
    inp = flat[:, idx] if u > 1 else flat[:, idx[0]]
    inp = np.asarray(inp, dtype=object).reshape([1, u, len(units_inputs[0])] if u > 1 else [1, len(units_inputs[0])])
    tl = Traced(lambda t, lat=lat: lat(t), [tf.TensorSpec(list(inp.shape), tf.float32)], name='lattice%s' % str(monos))
    (o,) = tl.sym_run(inp, var_values=vv)
    per[max(monos)].append(np.asarray(o, dtype=object).reshape(1, -1))
    per_tf[max(monos)].append((tl, inp))
  case.meta.update(validation_points=done, validation_mismatch=mism, ops=tr.ops_seen, structure=str(struct)[:300])
  if p.get('separate'):
    refs = []
    for key, mono in sorted([('increasing', 1), ('unconstrained', 0)]):
      if per[mono]:
        refs.append(np.concatenate(per[mono], axis=1))
    pairs = []
    for o, r_ in zip(outs, refs):
      pairs += list(zip(np.asarray(o, dtype=object).reshape(-1), r_.reshape(-1)))
  else:
    ref = np.concatenate(per[0] + per[1], axis=1)
    if p.get('average'):
      acc = 0
      for v in ref.reshape(-1):
        acc = sym.s_add(acc, v)
      ref = np.array([[sym.s_mul(acc, Fraction(1, ref.size))]], dtype=object)
    pairs = list(zip(np.asarray(outs[0], dtype=object).reshape(-1), ref.reshape(-1)))
  case.identity('rtl-equals-gathered-lattices', pairs, witness=dict(wit, **{'x%d' % i: a for i, a in enumerate(xs)}), timeout=120,
                sig=dict(query='rtl'), inline_replay=lambda m: _rtl_replay(m, tr, xs, vv, per_tf, p))
  return case


def _rtl_replay(m, tr, xs, vv, per_tf, p):
  """the real RTL layer against the real lattice layers applied to the gathered columns (witness values)"""
  vvn = {k: core.model_np(m, v) for k, v in vv.items()}
  outs = tr.tf_run(*[core.model_np(m, a) for a in xs], var_values=vvn)
  got = np.concatenate([np.asarray(o, dtype=np.float64).reshape(-1) for o in outs])

  def run(mono):
    return [np.asarray(tl.tf_run(core.model_np(m, inp), var_values=vvn)[0], dtype=np.float64).reshape(-1) for tl, inp in per_tf[mono]]
  if p.get('separate'):
    ref = np.concatenate([np.concatenate(run(mono)) for mono in (1, 0) if per_tf[mono]])
  else:
    ref = np.concatenate(run(0) + run(1))
    if p.get('average'):
      ref = np.array([np.mean(ref)])
  if got.shape != ref.shape:
    return dict(reproduced=True, detail=dict(shapes=[list(got.shape), list(ref.shape)]))
  d = float(np.max(np.abs(got - ref)))
  return dict(reproduced=bool(d > 1e-4 * max(1.0, float(np.max(np.abs(ref))))), detail=dict(max_abs_diff=d, rtl=got.tolist(), gathered=ref.tolist()))


def replay(r):
  import tensorflow as tf
  p = r['replay']['params']
  w = r['witness']
  from tensorflow_lattice.python import kronecker_factored_lattice_layer as KL, lattice_layer as LL
  ls, dims, units, terms = p['ls'], p['dims'], p['units'], p['terms']
  kfl = KL.KroneckerFactoredLattice(lattice_sizes=ls, units=units, num_terms=terms)
  lat = LL.Lattice(lattice_sizes=[ls] * dims, units=units)
  x = tf.constant(core.witness_np(w['x']).astype(np.float32))
  kfl(x); lat(x)
  K, S, B = core.witness_np(w['k']), core.witness_np(w['s']), core.witness_np(w['b'])
  kfl.kernel.assign(K.astype(np.float32)); kfl.scale.assign(S.astype(np.float32)); kfl.bias.assign(B.astype(np.float32))
  dense = np.zeros((ls ** dims, units))
  for u in range(units):
    for vi, v in enumerate(itertools.product(range(ls), repeat=dims)):
      acc = 0.0
      for t in range(terms):
        pr = S[u, t]
        for d in range(dims):
          pr *= K[0, v[d], u * dims + d, t]
        acc += pr
      dense[vi, u] = B[u] + acc / terms
  lat.kernel.assign(dense.astype(np.float32))
  a, b_ = kfl(x).numpy().astype(np.float64), lat(x).numpy().astype(np.float64)
  diff = float(np.max(np.abs(a - b_)))
  return dict(reproduced=bool(diff > 1e-4 * max(1.0, float(np.max(np.abs(b_))))), detail=dict(kfl=a.tolist(), lattice=b_.tolist()))


def cases(tier, seed):
  out = []

  def add(fn, required=True, cap=900, **p):
    nm = '%s-%s' % (fn.replace('case_', ''), '-'.join('%s%s' % (k[:3], str(v).replace(' ', '')) for k, v in sorted(p.items()) if k not in ('timeout',)))
    p['name'] = nm[:200]
    p['required'] = required
    out.append(dict(name=p['name'], fn=fn, params=p, cap=cap, required=required))

  add('case_kfl_vs_lattice', ls=2, dims=2, units=1, terms=1)
  add('case_kfl_vs_lattice', ls=2, dims=3, units=2, terms=2)
  add('case_kfl_vs_lattice', ls=3, dims=2, units=1, terms=2)
  add('case_kfl_vs_lattice', ls=3, dims=2, units=2, terms=1)
  for mono in ('none', 'increasing'):
    add('case_pwl_fn', nk=3, units=1, mono=mono)
    add('case_pwl_fn', nk=4, units=2, mono=mono, per_unit_input=True, required=False)
  add('case_pwl_fn', nk=4, units=1, mono='increasing', clamp_min=True, clamp_max=True)
  add('case_pwl_fn', nk=3, units=2, mono='increasing', clamp_min=True, omin=-1.0, omax=2.0)
  add('case_pwl_fn', nk=4, units=1, mono='none', cyclic=True)
  add('case_pwl_fn_none', units=2, mono='none', imin=-1.0, imax=3.0, per_unit_input=True)
  add('case_pwl_fn_none', units=1, mono='increasing', imin=0.0, imax=0.25, omin=-1.0, omax=2.0)
  add('case_pwl_fn_none', units=1, mono='none', imin=2.0, imax=3.0)
  add('case_pwl_fn', nk=3, units=1, mono='none', cyclic=True, missing_input=-1.0)
  add('case_pwl_fn', nk=4, units=2, mono='none', cyclic=True, missing_input=0.0, omin=-1.0, omax=2.0, per_unit_input=True)
  add('case_pwl_fn', nk=3, units=2, mono='none', missing_input=-1.0, imin=1.0, imax=4.0, omin=-2.0, omax=3.0, per_unit_input=True)
  add('case_pwl_fn', nk=3, units=1, mono='increasing', missing_input=0.0, omin=0.5, omax=2.0)
  for act in ('relu6', 'sigmoid'):
    for red in ('mean', 'none'):
      add('case_cdf_fn', dim=2, nk=2, units=2, activation=act, reduction=red)
  add('case_cdf_fn', dim=4, nk=2, units=2, activation='relu6', reduction='mean', sparsity=2)
  add('case_cdf_fn', dim=2, nk=3, units=1, activation='sigmoid', reduction='mean', scaling='learned_shared')
  add('case_cdf_fn', dim=2, nk=2, units=1, activation='relu6', reduction='none', scaling='fixed')
  add('case_parallel', n=2, single=True)
  add('case_parallel', n=3, single=True, list_input=True)
  add('case_parallel', n=3, single=False)
  add('case_parallel', n=3, single=True, shared=True)
  add('case_parallel', n=4, single=False, shared=True, list_input=True)
  for lens in ([1, 2], [2, 2], [3, 1]):
    add('case_aggregation', lens=lens)
  add('case_rtl', num=2, rank=2, n_unc=1, n_inc=2)
  add('case_rtl', num=3, rank=2, n_unc=2, n_inc=2, separate=True)
  add('case_rtl', num=2, rank=2, n_unc=3, n_inc=0, average=True)
  add('case_rtl', num=2, rank=2, n_unc=1, n_inc=2, param='kronecker_factored')
  if tier == 'thorough':
    add('case_kfl_vs_lattice', ls=4, dims=2, units=1, terms=2, required=False)
    add('case_kfl_vs_lattice', ls=2, dims=4, units=1, terms=2, required=False)
    add('case_pwl_fn', nk=5, units=2, mono='increasing', per_unit_input=True, required=False, timeout=600)
    add('case_rtl', num=4, rank=3, n_unc=2, n_inc=3, seed=seed, required=False)
    add('case_kfl_vs_lattice', ls=3, dims=3, units=1, terms=1, required=False, cap=1500)
    add('case_pwl_fn', nk=5, units=1, mono='none', cyclic=True, required=False, timeout=600)
    add('case_pwl_fn', nk=4, units=3, mono='increasing', missing_input=0.0, omin=-1.0, omax=0.0, per_unit_input=True, required=False, timeout=600)
    add('case_cdf_fn', dim=6, nk=2, units=3, activation='sigmoid', reduction='none', sparsity=3, required=False)
    add('case_cdf_fn', dim=4, nk=3, units=4, activation='relu6', reduction='mean', sparsity=2, scaling='learned_per_input', required=False)
    add('case_parallel', n=4, single=False, required=False)
    add('case_rtl', num=3, rank=2, n_unc=2, n_inc=2, separate=True, param='kronecker_factored', required=False)
    add('case_rtl', num=5, rank=2, n_unc=4, n_inc=3, average=True, seed=seed + 1, required=False)
  return out
