"""Pure-Python model of the ~20 NumPy functions used by premade_lib.compute_keypoints / _weighted_quantile /
_get_final_crystal_lattices, over SR values (vf.e3.symreal).  Every call is bound against inspect.signature of the
INSTALLED NumPy function first, so an API drift of the installed NumPy is seen exactly as the real call would see it.
The model is validated differentially against the installed NumPy on concrete inputs by the harness on every run."""
import inspect
import itertools
from fractions import Fraction

import numpy as _np

from vf.e3.symreal import SR, SB, rint as _rint, Abort, decide
from vf import sym


def _sig(fn):
  s = inspect.signature(fn)

  def deco(f):
    def w(*a, **k):
      s.bind(*a, **k)   # raises TypeError like the real call
      return f(*a, **k)
    w.__name__ = f.__name__
    return w
  return deco


def _b(x):
  return bool(x)


class A(object):
  """1-D array"""

  def __init__(self, xs):
    self.xs = list(xs)

  def __len__(self):
    return len(self.xs)

  def __iter__(self):
    return iter(self.xs)

  @property
  def size(self):
    return len(self.xs)

  @property
  def shape(self):
    return (len(self.xs),)

  def __contains__(self, v):
    return any(_b(x == v) for x in self.xs)

  def _elem(self, o, f):
    if isinstance(o, A):
      if len(o.xs) != len(self.xs):
        raise ValueError('operands could not be broadcast together')
      return A([f(a, b) for a, b in zip(self.xs, o.xs)])
    return A([f(a, o) for a in self.xs])

  def __ne__(self, o):
    if o is None:
      return A([True for _ in self.xs])
    return self._elem(o, lambda a, b: _b(a != b))

  def __eq__(self, o):
    if o is None:
      return A([False for _ in self.xs])
    return self._elem(o, lambda a, b: _b(a == b))
  __hash__ = None

  def __lt__(self, o): return self._elem(o, lambda a, b: _b(a < b))
  def __le__(self, o): return self._elem(o, lambda a, b: _b(a <= b))
  def __gt__(self, o): return self._elem(o, lambda a, b: _b(a > b))
  def __ge__(self, o): return self._elem(o, lambda a, b: _b(a >= b))
  def __add__(self, o): return self._elem(o, lambda a, b: a + b)
  def __radd__(self, o): return self._elem(o, lambda a, b: b + a)
  def __sub__(self, o): return self._elem(o, lambda a, b: a - b)
  def __rsub__(self, o): return self._elem(o, lambda a, b: b - a)
  def __mul__(self, o): return self._elem(o, lambda a, b: a * b)
  def __rmul__(self, o): return self._elem(o, lambda a, b: b * a)
  def __truediv__(self, o): return self._elem(o, lambda a, b: _div(a, b))
  def __rtruediv__(self, o): return self._elem(o, lambda a, b: _div(b, a))
  def __neg__(self): return A([-a for a in self.xs])

  def __getitem__(self, k):
    if isinstance(k, A):
      if k.xs and isinstance(k.xs[0], bool):
        if len(k.xs) != len(self.xs):
          raise IndexError('boolean index did not match')
        return A([x for x, m in zip(self.xs, k.xs) if m])
      return A([self.xs[_ix(i, len(self.xs))] for i in k.xs])
    if isinstance(k, slice):
      return A(self.xs[k])
    if isinstance(k, (list, tuple)):
      return A([self.xs[_ix(i, len(self.xs))] for i in k])
    return self.xs[_ix(k, len(self.xs))]

  def __setitem__(self, k, v):
    self.xs[_ix(k, len(self.xs))] = v

  def any(self):
    return any(_b(x) for x in self.xs)

  def all(self):
    return all(_b(x) for x in self.xs)

  def astype(self, t):
    if t is float:
      return A([x if isinstance(x, SR) else float(x) for x in self.xs])
    if t is int:
      return A([int(x) for x in self.xs])
    raise Abort('astype(%r)' % (t,))

  def tolist(self):
    return list(self.xs)


def _ix(i, n):
  if isinstance(i, SR):
    raise Abort('symbolic index')
  i = int(i)
  if i < -n or i >= n:
    raise IndexError('index %d is out of bounds for axis 0 with size %d' % (i, n))
  return i


def _div(a, b):
  if isinstance(a, SR) or isinstance(b, SR):
    return (a if isinstance(a, SR) else SR(_el(a))) / b
  if b == 0:
    raise ZeroDivisionError('division by zero (numpy would produce inf/nan)')
  return Fraction(a) / Fraction(b) if not isinstance(a, float) and not isinstance(b, float) else a / b


def _el(x):
  from vf.e3.symreal import el
  return el(x)


def _lt(a, b):
  return _b(a < b)


def _sorted_idx(xs):
  idx = list(range(len(xs)))
  for i in range(1, len(idx)):   # stable insertion sort with (forking) symbolic comparisons
    j = i
    while j > 0 and _lt(xs[idx[j]], xs[idx[j - 1]]):
      idx[j], idx[j - 1] = idx[j - 1], idx[j]
      j -= 1
  return idx


def array(x, dtype=None):
  return A(list(x))


@_sig(_np.maximum)
def maximum(a, b):
  return A([x if _b(x >= b) else b for x in a.xs])


@_sig(_np.minimum)
def minimum(a, b):
  return A([x if _b(x <= b) else b for x in a.xs])


@_sig(_np.append)
def append(a, v):
  return A(a.xs + [v])


@_sig(_np.isnan)
def isnan(a):
  return A([False for _ in a.xs])   # reals: never NaN (NaN inputs are outside the claim)


@_sig(_np.argsort)
def argsort(a):
  return A(_sorted_idx(a.xs))


@_sig(_np.sort)
def sort(a):
  return A([a.xs[i] for i in _sorted_idx(a.xs)])


@_sig(_np.unique)
def unique(a, return_index=False, return_counts=False):
  idx = _sorted_idx(a.xs)
  vals, first, counts = [], [], []
  for i in idx:
    if vals and _b(a.xs[i] == vals[-1]):
      counts[-1] += 1
      first[-1] = min(first[-1], i)
    else:
      vals.append(a.xs[i])
      first.append(i)
      counts.append(1)
  out = [A(vals)]
  if return_index:
    out.append(A(first))
  if return_counts:
    out.append(A(counts))
  return out[0] if len(out) == 1 else tuple(out)


@_sig(_np.linspace)
def linspace(start, stop, num):
  if num == 1:
    return A([start])
  if not isinstance(start, SR) and not isinstance(stop, SR):
    return A([float(v) for v in _np.linspace(float(start), float(stop), num)])
  step = (stop - start) / (num - 1)
  return A([start + step * i if i < num - 1 else stop for i in range(num)])


@_sig(_np.cumsum)
def cumsum(a):
  out, acc = [], 0
  for x in a.xs:
    acc = acc + x
    out.append(acc)
  return A(out)


def sum(a):   # pylint: disable=redefined-builtin
  inspect.signature(_np.sum).bind(a)
  acc = 0
  for x in a.xs:
    acc = acc + x
  return acc


def mean(a):
  inspect.signature(_np.mean).bind(a)
  xs = a.xs if isinstance(a, A) else [v for row in a for v in row]
  acc = 0
  for x in xs:
    acc = acc + x
  return _div(acc, len(xs))


@_sig(_np.arange)
def arange(n):
  return A(list(range(n)))


@_sig(_np.interp)
def interp(x, xp, fp):
  out = []
  n = len(xp.xs)
  for q in x.xs:
    if _b(q <= xp.xs[0]):
      out.append(fp.xs[0])
      continue
    if _b(q >= xp.xs[-1]):
      out.append(fp.xs[-1])
      continue
    for i in range(n - 1):
      if _b(q < xp.xs[i + 1]) or i == n - 2:
        d = xp.xs[i + 1] - xp.xs[i]
        out.append(fp.xs[i] + (fp.xs[i + 1] - fp.xs[i]) * ((q - xp.xs[i]) / d))
        break
  return A(out)


class _Rint(object):
  def __init__(self, xs):
    self.xs = xs

  def astype(self, t):
    return A([_rint(x) for x in self.xs])


@_sig(_np.rint)
def rint(a):
  return _Rint(a.xs)


class _Add(object):
  @staticmethod
  def reduceat(a, idx):
    inspect.signature(_np.add.reduceat).bind(a, idx)
    out = []
    ii = [int(i) for i in idx.xs]
    for k, i in enumerate(ii):
      j = ii[k + 1] if k + 1 < len(ii) else len(a.xs)
      acc = a.xs[i]
      for t in range(i + 1, j):
        acc = acc + a.xs[t]
      out.append(acc)
    return A(out)


add = _Add


@_sig(_np.quantile)
def quantile(a, q, method='linear'):
  if method != 'nearest':
    raise Abort('quantile method %r not modelled' % method)
  xs = [a.xs[i] for i in _sorted_idx(a.xs)]
  n = len(xs)
  qs = _np.asarray([float(v) for v in q.xs])
  vi = _np.around((n - 1) * qs).astype(int)   # exactly numpy's 'nearest' virtual index, on concrete quantiles
  return A([xs[int(i)] for i in vi])


def argsort_desc_concrete(vals):
  return list(_np.argsort(-_np.asarray(vals)))


def issubdtype(a, b):
  return True


number = float
