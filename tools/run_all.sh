#!/bin/bash
# usage: tools/run_all.sh [quick|thorough]  -- runs every registered check once, writing evidence/<id>.json
cd "$(dirname "$0")/.."
T=${1:-quick}
for id in C01 C02 C03 C04 C05 C06 C07 C08 C09 C10 C11 C12 C13 C14 C15 C16 C17 C18 C19 C20; do
  s=$(date +%s)
  ./check $id --tier $T > /tmp/runall_$id.log 2>&1
  rc=$?
  echo "$id rc=$rc $(( $(date +%s) - s ))s $(tail -1 /tmp/runall_$id.log | cut -c1-200)"
done
