#!/bin/bash
# usage: try_seed.sh <patch.diff> <check-id> [extra args]   -- applies a seeded change to /repo, runs one check, reverts.
P=$1; shift; ID=$1; shift
cd /repo || exit 9
if [ -n "$(git status --porcelain --untracked-files=no)" ]; then echo "/repo not clean"; exit 9; fi
git apply "$P" || { echo "patch does not apply"; exit 9; }
cd /verif && ./check $ID --no-evidence "$@" 2>&1 | cut -c1-400 | grep -v "^INCONCLUSIVE" | tail -12
RC=${PIPESTATUS[0]}
git -C /repo checkout -- .
echo "seed rc=$RC"
