"""C10 - Freshly built layers already satisfy their monotonicity and bound constraints."""
import itertools
from fractions import Fraction

import numpy as np
import z3

from vf import sym, specs, core
from vf.core import Case, Traced
from vf.props import c12

PROP = 'C10'
TOL = Fraction(1, 2 ** 16)

META = dict(
    level='model_checking',
    technique='the real initializer objects created by the real layer constructors are traced and executed by the graph '
              'interpreter: deterministic initializers evaluate to exact rationals (ground obligations, tolerance 2^-16 for the '
              'float32 constants); random initializers get RandomUniform -> symbolic samples in [min,max), symbolic sort by a '
              'compare-exchange network, np.random.shuffle replaced by every within-level permutation (enumerated); z3 decides '
              'monotonicity / range / assert_constraints / constraint-fixed-point for all samples',
    bounds=dict(quick='Lattice shapes 2x2, 3x3, 2x3, 3x4, 2x2x2, 3x3x2 (linear), 2x2, 2x3, 3x3, 2x2x2 (random monotonic: all '
                      '2/4/24/36 shuffles); bounds none/one-sided/two-sided/negative; units 1-2; PWL 2-5 keypoints both initializers '
                      'and directions; KFL size 2-3 dims 2 units 1-2 terms 1-2; categorical constant/uniform',
                thorough='adds 4x3x2 linear, 2x3x2 random monotonic (all 288 shuffles sampled by VERIF_SEED: 60)'),
    outside=['IEEE-754 rounding beyond 2^-16 relative to the init range', 'the statistical distribution of random initializers'],
    assumptions=['TF op semantics per vf/interp.py', 'z3 is sound', 'RandomUniform contract: samples in [minval, maxval)'],
)


def _lattice_layer(p):
  import tensorflow as tf
  from tensorflow_lattice.python import lattice_layer as LL
  sizes = list(p['sizes'])
  kw = dict(lattice_sizes=sizes, units=p['units'], monotonicities=p.get('mono'), unimodalities=p.get('uni'),
            output_min=p.get('omin'), output_max=p.get('omax'), kernel_initializer=p['init'])
  if p.get('juni'):
    kw['joint_unimodalities'] = [(tuple(t[0]), t[1]) for t in p['juni']]
  layer = LL.Lattice(**kw)
  return layer


def _init_range(p):
  from tensorflow_lattice.python import lattice_lib as ll
  return ll.default_init_params(p.get('omin'), p.get('omax'))


def case_lattice_linear(**p):
  import tensorflow as tf
  from tensorflow_lattice.python import lattice_layer as LL, lattice_lib as ll
  case = Case(PROP, p['name'], {k: v for k, v in p.items() if k != 'name'})
  case.encoded(LL.create_kernel_initializer, LL.LinearInitializer.__call__, ll.linear_initializer, ll.default_init_params,
               ll._linspace, LL.Lattice.build)
  try:
    layer = _lattice_layer(p)
  except ValueError as e:
    case.record('configuration-rejected-up-front', 'unsat', kind='structural', witness={}, replay=None,
                note='constructor raised ValueError (%s): not a valid configuration, nothing to claim' % str(e)[:100])
    return case
  sizes, units = list(p['sizes']), p['units']
  n = int(np.prod(sizes))
  init = layer.kernel_initializer
  tr = Traced(lambda: init(shape=[n, units], dtype=tf.float32), [], name='LinearInitializer')
  sym.new_ctx()
  (K,) = tr.sym_run()
  ref = tr.tf_run()[0]
  mism = float(np.max(np.abs(ref - np.array([[float(x) for x in row] for row in K]))))
  case.meta.update(validation_points=1, validation_mismatch=int(mism > 1e-6), ops=tr.ops_seen)
  lo, hi = [Fraction(v) for v in _init_range(p)]
  rng = hi - lo
  tol = TOL * max(rng, 1)
  W = K.reshape(sizes + [units])
  mono = [1 if m in (1, 'increasing') else 0 for m in (p.get('mono') or [0] * len(sizes))]
  uni = [{'valley': 1, 'peak': -1, 1: 1, -1: -1}.get(u_, 0) for u_ in (p.get('uni') or [0] * len(sizes))]
  for dims, direction in p.get('juni') or []:
    for d in dims:
      uni[d] = 1 if direction == 'valley' else -1
  all_free = not any(mono) and not any(uni)
  fails = []
  for u in range(units):
    Ku = W[..., u]
    vals = [Ku[idx] for idx in np.ndindex(*sizes)]
    if abs(min(vals) - lo) > tol or abs(max(vals) - hi) > tol:
      fails.append(('range', u, float(min(vals)), float(max(vals)), float(lo), float(hi)))
    for d in range(len(sizes)):
      for idx in np.ndindex(*sizes):
        if idx[d] + 1 >= sizes[d]:
          continue
        j = list(idx); j[d] += 1
        diff = Ku[tuple(j)] - Ku[idx]
        if mono[d] or all_free:
          # linear and increasing: all first differences along d equal and >= 0
          j0 = list(idx); j0[d] = 0
          j1 = list(idx); j1[d] = 1
          if diff < -tol or abs(diff - (Ku[tuple(j1)] - Ku[tuple(j0)])) > tol:
            fails.append(('linear-monotone', u, d, idx, float(diff)))
        elif uni[d]:
          first = idx[d] < sizes[d] // 2
          down = (uni[d] == 1) == first
          if (down and diff > tol) or (not down and diff < -tol):
            fails.append(('unimodal', u, d, idx, float(diff)))
        else:
          if abs(diff) > tol:
            fails.append(('constant', u, d, idx, float(diff)))
  case.record('linear-initializer-shape-and-range', 'sat' if fails else 'unsat', kind='main', witness={}, replay=dict(fn='lattice', params=p),
              sig=dict(query='linear-init', what=[f[0] for f in fails][:3]), note='ground obligation evaluated exactly; %s' % (fails[:2],))
  _assert_and_fixed_point(case, layer, K, p)
  return case


def _assert_and_fixed_point(case, layer, K, p, wit=None, assumptions=()):
  """initial kernel K passes the layer's own assert_constraints and (monotonicity/bounds-only) is a fixed point of its constraint"""
  import tensorflow as tf
  layer.build(tf.TensorShape([None, len(p['sizes'])] if p['units'] == 1 else [None, p['units'], len(p['sizes'])]))
  tr = Traced(lambda: (layer.assert_constraints(eps=2.0 ** -14), tf.constant(0.0))[1], [], name='Lattice.assert_constraints')
  saved = sym.ctx()
  tr.sym_run(var_values={layer.kernel.ref(): K})
  passes, npreds = c12._passes(tr)
  case.solve('initial-kernel-passes-assert_constraints', z3.Not(passes), assumptions=assumptions, witness=wit or {}, timeout=60,
             sig=dict(query='assert'), replay=dict(fn='lattice', params=p))
  con = layer.kernel.constraint
  trc = Traced(lambda w: con(w), [tf.TensorSpec(list(K.shape), tf.float32)], name='LatticeConstraints')
  (out,) = trc.sym_run(K)
  tol = TOL * 4
  case.solve('constraint-leaves-initial-kernel-unchanged', core.far_arrays(core.concretise_dens(out, assumptions), K, tol),
             assumptions=assumptions, witness=wit or {}, timeout=90, sig=dict(query='fixed-point'), replay=dict(fn='lattice', params=p),
             required=p.get('required', True))


class _Shuffles(object):
  """replaces np.random.shuffle by a scheduled permutation per call; records the sizes it was asked for"""

  def __init__(self, schedule=None):
    self.schedule = list(schedule) if schedule is not None else None
    self.sizes = []

  def __call__(self, lst):
    self.sizes.append(len(lst))
    if self.schedule is None:
      return
    perm = self.schedule.pop(0)
    cp = sorted(lst)
    for i, j in enumerate(perm):
      lst[i] = cp[j]


def case_lattice_random(**p):
  import tensorflow as tf
  from tensorflow_lattice.python import lattice_layer as LL, lattice_lib as ll
  case = Case(PROP, p['name'], {k: v for k, v in p.items() if k != 'name'})
  case.encoded(LL.RandomMonotonicInitializer.__call__, ll.random_monotonic_initializer, LL.create_kernel_initializer)
  layer = _lattice_layer(p)
  sizes, units = list(p['sizes']), p['units']
  n = int(np.prod(sizes))
  init = layer.kernel_initializer
  orig = np.random.shuffle
  probe = _Shuffles()
  np.random.shuffle = probe
  try:
    Traced(lambda: init(shape=[n, units], dtype=tf.float32), [], name='probe')
  finally:
    np.random.shuffle = orig
  level_sizes = probe.sizes
  all_scheds = list(itertools.product(*[list(itertools.permutations(range(s))) for s in level_sizes]))
  total = len(all_scheds)
  if p.get('max_schedules') and total > p['max_schedules']:
    rng = np.random.default_rng(p.get('seed', 0))
    all_scheds = [all_scheds[i] for i in sorted(rng.choice(total, size=p['max_schedules'], replace=False))]
  case.meta.update(shuffle_levels=level_sizes, schedules_total=total, schedules_run=len(all_scheds))
  lo, hi = [Fraction(v) for v in _init_range(p)]
  for si, sched in enumerate(all_scheds):
    sh = _Shuffles(sched)
    np.random.shuffle = sh
    try:
      tr = Traced(lambda: init(shape=[n, units], dtype=tf.float32), [], name='RandomMonotonicInitializer')
    finally:
      np.random.shuffle = orig
    sym.new_ctx()
    sym.ctx().memo['sort_network'] = True
    (K,) = tr.sym_run()
    case.meta.update(ops=tr.ops_seen, stubs=sym.ctx().stubs)
    cons = specs.lattice_constraints(K, sizes, units, monotonicities=[1] * len(sizes), output_min=float(lo), output_max=float(hi))
    case.solve('random-initializer-monotone-and-in-range[shuffle=%d]' % si, core.any_of(specs.violated(cons)), timeout=60,
               witness={}, sig=dict(query='random-init'), replay=dict(fn='lattice-random', params=p, schedule=[list(s) for s in sched]))
    if si == 0:
      case.solve('twin:samples-vary', sym.NE(K[0, 0], K[n - 1, 0]), expect='sat', kind='twin', timeout=30)
  return case


def case_pwl(**p):
  import tensorflow as tf
  from tensorflow_lattice.python import pwl_calibration_layer as PL, pwl_calibration_lib as pl
  case = Case(PROP, p['name'], {k: v for k, v in p.items() if k != 'name'})
  case.encoded(PL.UniformOutputInitializer.__call__, pl.linear_initializer, pl.convert_all_constraints, PL.PWLCalibration.build)
  kps = [0.0, 1.0, 3.0, 3.5, 6.0][:p['nk']]
  layer = PL.PWLCalibration(input_keypoints=kps, units=p['units'], output_min=p.get('omin'), output_max=p.get('omax'),
                            monotonicity=p['mono'], kernel_initializer=p['init'], clamp_min=p.get('clamp_min', False),
                            clamp_max=p.get('clamp_max', False), impute_missing=p.get('missing', False),
                            missing_input_value=-1.0 if p.get('missing') else None)
  layer.build(tf.TensorShape([None, p['units']]))
  init = layer.kernel_initializer
  tr = Traced(lambda: init(shape=[p['nk'], p['units']], dtype=tf.float32), [], name='UniformOutputInitializer')
  sym.new_ctx()
  (K,) = tr.sym_run()
  case.meta.update(ops=tr.ops_seen)
  lo, hi = Fraction(layer._output_init_min), Fraction(layer._output_init_max)
  tol = TOL * max(hi - lo, 1)
  fails = []
  for u in range(p['units']):
    outs = specs.pwl_outputs(K[:, u])
    start, end = (hi, lo) if p['mono'] in (-1, 'decreasing') else (lo, hi)
    if abs(outs[0] - start) > tol or abs(outs[-1] - end) > tol:
      fails.append(('endpoints', u, float(outs[0]), float(outs[-1])))
    h = [K[i, u] for i in range(1, p['nk'])]
    sgn = -1 if p['mono'] in (-1, 'decreasing') else 1
    if any(sgn * x < -tol for x in h):
      fails.append(('direction', u))
    if p['init'] == 'equal_heights':
      if any(abs(x - h[0]) > tol for x in h):
        fails.append(('equal-heights', u))
    else:
      L = [Fraction(kps[i + 1]) - Fraction(kps[i]) for i in range(p['nk'] - 1)]
      if any(abs(x / l - h[0] / L[0]) > tol for x, l in zip(h, L)):
        fails.append(('equal-slopes', u))
  case.record('pwl-initializer-runs-between-init-bounds', 'sat' if fails else 'unsat', witness={}, replay=dict(fn='pwl', params=p),
              sig=dict(query='pwl-init', what=[f[0] for f in fails][:3]), note='ground obligation; %s' % (fails[:2],))
  tra = Traced(lambda: (layer.assert_constraints(eps=2.0 ** -14), tf.constant(0.0))[1], [], name='PWLCalibration.assert_constraints')
  tra.sym_run(var_values={layer.kernel.ref(): K})
  passes, _ = c12._passes(tra)
  case.solve('initial-kernel-passes-assert_constraints', z3.Not(passes), witness={}, timeout=30, sig=dict(query='assert'),
             replay=dict(fn='pwl', params=p))
  con = layer.kernel.constraint
  trc = Traced(lambda w: con(w), [tf.TensorSpec([p['nk'], p['units']], tf.float32)], name='PWLCalibrationConstraints')
  (out,) = trc.sym_run(K)
  case.solve('constraint-leaves-initial-kernel-unchanged', core.far_arrays(core.concretise_dens(out), K, TOL * 4), witness={}, timeout=30,
             sig=dict(query='fixed-point'), replay=dict(fn='pwl', params=p))
  return case


def case_kfl(**p):
  import tensorflow as tf
  from tensorflow_lattice.python import kronecker_factored_lattice_layer as KL, kronecker_factored_lattice_lib as kl
  case = Case(PROP, p['name'], {k: v for k, v in p.items() if k != 'name'})
  case.encoded(kl.kfl_random_monotonic_initializer, kl.scale_initializer, kl.bias_initializer, kl.default_init_params,
               KL.KroneckerFactoredLattice.build, KL.create_kernel_initializer, KL.create_scale_initializer)
  ls, dims, units, terms = p['ls'], p['dims'], p['units'], p['terms']
  layer = KL.KroneckerFactoredLattice(lattice_sizes=ls, units=units, num_terms=terms, monotonicities=p.get('mono'),
                                      output_min=p.get('omin'), output_max=p.get('omax'))
  xshape = [2, dims] if units == 1 else [2, units, dims]
  layer.build(tf.TensorShape([None] + xshape[1:]))
  S0 = sym.obj(layer.scale.numpy())
  B0 = sym.obj(layer.bias.numpy())
  kinit = layer.kernel_initializer
  import inspect
  takes_scale = 'scale' in inspect.signature(kinit).parameters

  def mk():
    if takes_scale:
      return kinit(shape=[1, ls, units * dims, terms], dtype=tf.float32, scale=layer.scale)
    return kinit(shape=[1, ls, units * dims, terms], dtype=tf.float32)
  tr = Traced(mk, [], name='KFLRandomMonotonicInitializer')
  sym.new_ctx()
  sym.ctx().memo['sort_network'] = True
  (K,) = tr.sym_run(var_values={layer.scale.ref(): S0})
  case.meta.update(ops=tr.ops_seen, stubs=sym.ctx().stubs, takes_scale=takes_scale)
  tra = Traced(lambda: (layer.assert_constraints(eps=2.0 ** -14), tf.constant(0.0))[1], [], name='KFL.assert_constraints')
  tra.sym_run(var_values={layer.kernel.ref(): K, layer.scale.ref(): S0})
  passes, _ = c12._passes(tra)
  def _with_kernel(m):
    # the initial kernel the model's random draws produce is assigned to the real layer, which is then asked directly
    layer.kernel.assign(core.model_np(m, K).astype(np.float32).reshape(layer.kernel.shape))

  def _assert_replay(m):
    _with_kernel(m)
    try:
      layer.assert_constraints(eps=2.0 ** -14)
      return dict(reproduced=False, detail='assert_constraints passes on the reconstructed initial kernel')
    except Exception as e:  # pylint: disable=broad-except
      return dict(reproduced=True, detail='%s: %s' % (type(e).__name__, str(e)[:200]))

  def _fn_replay(m, what):
    _with_kernel(m)
    xn = core.model_np(m, x).astype(np.float32)
    on = np.asarray(layer(tf.constant(xn)), dtype=np.float64).reshape(2, -1)
    if what == 'mono':
      gap = float(np.max(on[0] - on[1]))
      return dict(reproduced=bool(gap > 1e-5), detail=dict(decrease=gap, x=xn.tolist()))
    lo = -np.inf if p.get('omin') is None else p['omin']
    hi = np.inf if p.get('omax') is None else p['omax']
    exc = float(max(np.max(lo - on[0]), np.max(on[0] - hi)))
    return dict(reproduced=bool(exc > 1e-5), detail=dict(excess=exc, x=xn.tolist()))
  case.solve('initial-weights-pass-assert_constraints', z3.Not(passes), witness={}, timeout=60, sig=dict(query='assert'),
             inline_replay=_assert_replay, required=True)
  # function level: monotone and within bounds with the initial kernel (symbolic samples), scale and bias
  trc = Traced(lambda x: layer(x), [tf.TensorSpec(xshape, tf.float32)], name='KFL.call')
  x = sym.symbolic('x', tuple(xshape))
  (out,) = trc.sym_run(x, var_values={layer.kernel.ref(): K, layer.scale.ref(): S0, layer.bias.ref(): B0})
  X = x.reshape(2, -1, dims)
  o = out.reshape(2, -1)
  mono = [1 if m in (1, 'increasing') else 0 for m in (p.get('mono') or [0] * dims)]
  for d0 in [i for i, m in enumerate(mono) if m]:
    rel = []
    for u in range(X.shape[1]):
      for dd in range(dims):
        rel.append(X[0, u, dd] <= X[1, u, dd] if dd == d0 else X[0, u, dd] == X[1, u, dd])
    case.solve('initial-function-monotone[dim=%d]' % d0, core.any_of([sym.s_cmp('gt', o[0, u], o[1, u]) for u in range(o.shape[1])]),
               assumptions=rel, witness=dict(x=x), timeout=p.get('timeout', 90), sig=dict(query='kfl-mono'),
               inline_replay=lambda m: _fn_replay(m, 'mono'),
               required=p.get('required', True))
  bad = []
  for u in range(o.shape[1]):
    if p.get('omin') is not None:
      bad.append(sym.s_cmp('lt', o[0, u], Fraction(p['omin'])))
    if p.get('omax') is not None:
      bad.append(sym.s_cmp('gt', o[0, u], Fraction(p['omax'])))
  if bad:
    case.solve('initial-function-within-bounds', core.any_of(bad), witness=dict(x=x), timeout=p.get('timeout', 90),
               sig=dict(query='kfl-bounds'), inline_replay=lambda m: _fn_replay(m, 'bounds'), required=p.get('required', True))
  return case


def case_linear(**p):
  """A freshly built Linear layer (default or named initializer) already satisfies its own constraints."""
  import tensorflow as tf
  from tensorflow_lattice.python import linear_layer as LIN
  from vf.props import c06
  case = Case(PROP, p['name'], {k: v for k, v in p.items() if k != 'name'})
  case.encoded(LIN.Linear.__init__, LIN.Linear.build)
  n, units = len(p['mono']), p['units']
  kw = dict(num_input_dims=n, units=units, monotonicities=p['mono'], monotonic_dominances=[tuple(t) for t in p.get('mdom', [])] or None,
            range_dominances=[tuple(t) for t in p.get('rdom', [])] or None, input_min=p.get('imin'), input_max=p.get('imax'),
            normalization_order=p.get('norm'), use_bias=p.get('bias', True))
  if p.get('init'):
    kw['kernel_initializer'] = p['init']

  def mk():
    layer = LIN.Linear(**kw)
    return layer
  layer = mk()
  captured = {}
  orig_add = layer.add_weight

  def cap(*a, **k_):
    if 'kernel' in str(k_.get('name', a[0] if a else '')):
      captured['init'] = k_.get('initializer')
    return orig_add(*a, **k_)
  layer.add_weight = cap
  shape = [None, n] if units == 1 else [None, units, n]
  layer.build(tf.TensorShape(shape))
  init = captured.get('init') or layer.kernel_initializer
  tr = Traced(lambda: init(shape=[n, units], dtype=tf.float32), [], name='linear-init')
  sym.new_ctx()
  (K,) = tr.sym_run()
  case.meta.update(ops=tr.ops_seen, stubs=sym.ctx().stubs)
  q = dict(mono=list(p['mono']), mdom=[list(t) for t in p.get('mdom', [])], rdom=[list(t) for t in p.get('rdom', [])],
           imin=p.get('imin') or [None] * n, imax=p.get('imax') or [None] * n)
  cons = c06.lin_cons(K, q)

  def _draws(m):
    fails, worst = 0, 0.0
    for i in range(100):
      l2 = mk()
      l2.build(tf.TensorShape(shape))
      try:
        l2.assert_constraints(eps=1e-5)
      except Exception:  # pylint: disable=broad-except
        fails += 1
      if l2.kernel.constraint is not None:
        worst = max(worst, float(tf.reduce_max(tf.abs(l2.kernel.constraint(l2.kernel) - l2.kernel))))
    return dict(reproduced=bool(fails or worst > 1e-5), weak=True,
                detail=dict(fresh_layers=100, assert_constraints_failures=fails, worst_move_by_own_constraint=worst))
  if cons:
    case.solve('initial-weights-satisfy-the-configured-constraints', core.any_of(specs.violated(cons)), witness={}, timeout=60,
               sig=dict(query='lin-init', init=str(p.get('init'))), inline_replay=_draws)
  tra = Traced(lambda: (layer.assert_constraints(eps=2.0 ** -14), tf.constant(0.0))[1], [], name='Linear.assert_constraints')
  tra.sym_run(var_values={layer.kernel.ref(): K})
  passes, _ = c12._passes(tra)
  case.solve('initial-kernel-passes-assert_constraints', z3.Not(passes), witness={}, timeout=60,
             sig=dict(query='lin-init-assert', init=str(p.get('init'))), inline_replay=_draws, required=not p.get('norm'))
  return case


def case_categorical(**p):
  import tensorflow as tf
  from tensorflow_lattice.python import categorical_calibration_layer as CL
  case = Case(PROP, p['name'], {k: v for k, v in p.items() if k != 'name'})
  case.encoded(CL.CategoricalCalibration.__init__, CL.CategoricalCalibration.build)
  pairs = [tuple(e) for e in p.get('pairs', [])]
  layer = CL.CategoricalCalibration(num_buckets=p['n'], units=p['units'], output_min=p['omin'], output_max=p['omax'],
                                    kernel_initializer=p['init'], monotonicities=pairs or None)
  # the initializer that build() really hands to add_weight (captured on this instance), not just the configured one
  captured = {}
  orig_add = layer.add_weight

  def cap(*a, **kw):
    if 'kernel' in str(kw.get('name', a[0] if a else '')):
      captured['init'] = kw.get('initializer')
    return orig_add(*a, **kw)
  layer.add_weight = cap
  layer.build(tf.TensorShape([None, p['units']]))
  init = captured.get('init') or layer.kernel_initializer
  tr = Traced(lambda: init(shape=[p['n'], p['units']], dtype=tf.float32), [], name='categorical-init')
  sym.new_ctx()
  (K,) = tr.sym_run()
  case.meta.update(ops=tr.ops_seen, stubs=sym.ctx().stubs)
  lo = -np.inf if p['omin'] is None else p['omin']
  hi = np.inf if p['omax'] is None else p['omax']

  def _draws(m):
    # the solver's witness is a vector of uniform draws; on the real code a fresh layer is built 200 times instead
    worst, worst_pair, fails = 0.0, 0.0, 0
    for i in range(200):
      l2 = CL.CategoricalCalibration(num_buckets=p['n'], units=p['units'], output_min=p['omin'], output_max=p['omax'],
                                     kernel_initializer=p['init'], monotonicities=pairs or None)
      l2.build(tf.TensorShape([None, p['units']]))
      k = np.asarray(l2.kernel.numpy(), dtype=np.float64)
      worst = max(worst, float(np.max(lo - k)), float(np.max(k - hi)))
      for (i0, i1) in pairs:
        worst_pair = max(worst_pair, float(np.max(k[i0] - k[i1])))
      try:
        l2.assert_constraints(eps=1e-6)
      except Exception:  # pylint: disable=broad-except
        fails += 1
    return dict(reproduced=bool(worst > 1e-6 or worst_pair > 1e-6 or fails), weak=True,
                detail=dict(fresh_layers=200, worst_bound_excess=worst, worst_order_violation=worst_pair, assert_constraints_failures=fails))
  bad = []
  for v in K.reshape(-1):
    if p['omin'] is not None:
      bad.append(sym.s_cmp('lt', v, Fraction(p['omin'])))
    if p['omax'] is not None:
      bad.append(sym.s_cmp('gt', v, Fraction(p['omax'])))
  case.solve('initial-values-within-bounds', core.any_of(bad), witness={}, timeout=30, sig=dict(query='cat-init'), inline_replay=_draws)
  if pairs:
    bad = [sym.s_cmp('gt', K[i0, u], K[i1, u]) for (i0, i1) in pairs for u in range(p['units'])]
    case.solve('initial-values-ordered-by-every-pair', core.any_of(bad), witness={}, timeout=30,
               sig=dict(query='cat-init-order', init=p['init']), inline_replay=_draws)
  tra = Traced(lambda: (layer.assert_constraints(eps=2.0 ** -14), tf.constant(0.0))[1], [], name='CategoricalCalibration.assert_constraints')
  tra.sym_run(var_values={layer.kernel.ref(): K})
  passes, _ = c12._passes(tra)
  case.solve('initial-kernel-passes-assert_constraints', z3.Not(passes), witness={}, timeout=30,
             sig=dict(query='cat-init-assert', init=p['init'], has_pairs=bool(pairs)), inline_replay=_draws)
  return case


def replay(r):
  """Eager re-check on the real layer (build it, inspect weights)."""
  import tensorflow as tf
  rp = r['replay']
  p = rp['params']
  if rp['fn'] == 'pwl':
    from tensorflow_lattice.python import pwl_calibration_layer as PL
    kps = [0.0, 1.0, 3.0, 3.5, 6.0][:p['nk']]
    layer = PL.PWLCalibration(input_keypoints=kps, units=p['units'], output_min=p.get('omin'), output_max=p.get('omax'),
                              monotonicity=p['mono'], kernel_initializer=p['init'], clamp_min=p.get('clamp_min', False),
                              clamp_max=p.get('clamp_max', False), impute_missing=p.get('missing', False),
                              missing_input_value=-1.0 if p.get('missing') else None)
    layer.build(tf.TensorShape([None, p['units']]))
    K = layer.kernel.numpy().astype(np.float64)
    bad = False
    msg = ''
    try:
      layer.assert_constraints(eps=1e-4)
    except Exception as e:  # pylint: disable=broad-except
      bad, msg = True, repr(e)[:200]
    out = layer.kernel.constraint(layer.kernel).numpy()
    if np.max(np.abs(out - K)) > 1e-4:
      bad = True
    outs = np.cumsum(K, axis=0)
    lo, hi = layer._output_init_min, layer._output_init_max
    start, end = (hi, lo) if p['mono'] in (-1, 'decreasing') else (lo, hi)
    if np.max(np.abs(outs[0] - start)) > 1e-4 or np.max(np.abs(outs[-1] - end)) > 1e-4:
      bad = True
    # equal heights / equal slopes, as documented for the two named initializers
    shape_dev = 0.0
    if p['init'] in ('equal_heights', 'equal_slopes') and p['nk'] > 2:
      h = K[1:]
      L = np.diff(np.array(kps))[:, None] if p['init'] == 'equal_slopes' else np.ones((p['nk'] - 1, 1))
      slopes = h / L
      shape_dev = float(np.max(np.abs(slopes - slopes[:1])))
      if shape_dev > 1e-4 * max(1.0, float(np.max(np.abs(K)))):
        bad = True
    return dict(reproduced=bool(bad), detail=dict(kernel=K.tolist(), assert_message=msg, deviation_from_equal_heights_or_slopes=shape_dev))
  layer = _lattice_layer(p)
  orig = np.random.shuffle
  if rp['fn'] == 'lattice-random':
    np.random.shuffle = _Shuffles([tuple(s) for s in rp['schedule']])
  try:
    layer.build(tf.TensorShape([None, len(p['sizes'])] if p['units'] == 1 else [None, p['units'], len(p['sizes'])]))
  finally:
    np.random.shuffle = orig
  K = layer.kernel.numpy().astype(np.float64)
  lo, hi = _init_range(p)
  bad = False
  msg = ''
  if rp['fn'] == 'lattice-random':
    cons = specs.lattice_constraints(sym.obj(K), p['sizes'], p['units'], monotonicities=[1] * len(p['sizes']), output_min=lo, output_max=hi)
    bad = any(float(c[2]) < -1e-5 for c in cons)
  else:
    try:
      layer.assert_constraints(eps=1e-4)
    except Exception as e:  # pylint: disable=broad-except
      bad, msg = True, repr(e)[:200]
    if abs(K.min() - lo) > 1e-4 or abs(K.max() - hi) > 1e-4:
      bad = True
    out = layer.kernel.constraint(layer.kernel).numpy()
    if r['query'].startswith('constraint-leaves') and np.max(np.abs(out - K)) > 1e-4:
      bad = True
  return dict(reproduced=bool(bad), detail=dict(kernel=K.tolist(), init_range=[lo, hi], assert_message=msg))


def cases(tier, seed):
  out = []

  def add(fn, required=True, cap=900, **p):
    nm = '%s-%s' % (fn.replace('case_', ''), '-'.join('%s%s' % (k[:3], str(v).replace(' ', '')) for k, v in sorted(p.items()) if k not in ('timeout',)))
    p['name'] = nm[:200]
    p['required'] = required
    out.append(dict(name=p['name'], fn=fn, params=p, cap=cap, required=required))

  bounds = [(None, None), (0.0, 1.0), (-1.0, None), (None, 2.5), (-3.0, -1.0), (None, -2.0), (2.0, None), (-1.0, 0.0), (0.0, None), (None, 0.0)]
  shapes = [([2, 2], [1, 1], None), ([3, 3], [1, 0], None), ([2, 3], None, None), ([3, 4], [0, 1], [1, 0]), ([2, 2, 2], [1, 0, 1], None),
            ([3, 3, 2], [0, 0, 1], [-1, 1, 0]), ([4, 3], None, ['peak', 'valley'])]
  k = 0
  for sizes, mono, uni in shapes:
    for (omin, omax) in bounds:
      add('case_lattice_linear', sizes=sizes, units=1 + k % 2, mono=mono, uni=uni, omin=omin, omax=omax, init='linear_initializer')
      k += 1
  add('case_lattice_linear', sizes=[3, 3], units=1, mono=None, uni=None, juni=[[[0, 1], 'valley']], omin=None, omax=None,
      init='linear_initializer')
  add('case_lattice_linear', sizes=[3, 3, 2], units=1, mono=[0, 0, 1], uni=None, juni=[[[0, 1], 'peak']], omin=0.0, omax=1.0,
      init='random_uniform_or_linear_initializer')
  for sizes in ([2, 2], [2, 3], [3, 3], [2, 2, 2]):
    for (omin, omax) in bounds[:5]:
      add('case_lattice_random', sizes=sizes, units={(2, 2): 3, (2, 3): 1, (3, 3): 2, (2, 2, 2): 2}[tuple(sizes)], mono=[1] * len(sizes), omin=omin, omax=omax,
          init='random_monotonic_initializer', max_schedules=40, seed=seed)
  for init in ('equal_heights', 'equal_slopes'):
    for mono in (0, 1, -1):
      for (omin, omax) in ((None, None), (0.0, 1.0), (-1.0, None), (None, 2.5), (-1.0, 0.0), (0.0, None), (None, 0.0)):
        add('case_pwl', nk=2 + (mono + 1) + (1 if init == 'equal_slopes' else 0), units=1 + abs(mono), mono=mono, omin=omin, omax=omax, init=init)
  add('case_pwl', nk=4, units=2, mono=1, omin=0.0, omax=1.0, init='equal_slopes', clamp_min=True, clamp_max=True, missing=True)
  # the documented string spellings of the same configurations
  for init in ('equal_heights', 'equal_slopes'):
    for mono in ('decreasing', 'increasing', 'none'):
      add('case_pwl', nk=3 + (1 if init == 'equal_slopes' else 0), units=2 if mono == 'decreasing' else 1, mono=mono, omin=-1.0, omax=2.5, init=init)
  add('case_pwl', nk=3, units=1, mono='decreasing', omin=None, omax=None, init='equal_heights')
  add('case_lattice_linear', sizes=[3, 2], units=2, mono=['increasing', 'none'], uni=None, omin=0.0, omax=1.0, init='linear_initializer')
  add('case_lattice_linear', sizes=[2, 3], units=1, mono=['none', 'none'], uni=['none', 'peak'], omin=None, omax=2.5, init='linear_initializer')
  add('case_lattice_random', sizes=[2, 3], units=2, mono=['increasing', 'increasing'], omin=0.0, omax=1.0, init='random_monotonic_initializer',
      max_schedules=40, seed=seed)
  add('case_kfl', ls=2, dims=2, units=2, terms=1, mono=['increasing', 'none'], omin=0.0, omax=None, timeout=60)
  for (omin, omax) in ((None, None), (0.0, None), (None, 1.0), (0.0, 1.0), (-1.0, 2.5), (-1.0, 0.0), (None, 0.0), (-2.5, 0)):
    for mono in ([1, 0], [1, 1], None):
      add('case_kfl', ls=2, dims=2, units=1, terms=2, mono=mono, omin=omin, omax=omax,
          required=not (omin is not None and omax is not None), timeout=60)
    add('case_kfl', ls=3, dims=2, units=2, terms=1, mono=[0, 1], omin=omin, omax=omax, required=False, timeout=60)
  add('case_linear', mono=[1, -1], units=1)
  add('case_linear', mono=[1, 1, 0], units=2, mdom=[[0, 1]], bias=False)
  add('case_linear', mono=[-1, -1], units=1, rdom=[[0, 1]], imin=[0.0, 0.0], imax=[2.0, 1.0])
  add('case_linear', mono=[1, 0, 1], units=2, norm=1, bias=False)
  add('case_linear', mono=[1, 1], units=1, init='ones')
  add('case_linear', mono=[0, 0], units=1)
  add('case_categorical', n=3, units=2, omin=0.0, omax=1.0, init='uniform')
  add('case_categorical', n=4, units=1, omin=-2.0, omax=-1.0, init='constant')
  add('case_categorical', n=3, units=2, omin=0.0, omax=1.0, init='uniform', pairs=[[0, 1]])
  add('case_categorical', n=4, units=1, omin=-1.0, omax=2.0, init='uniform', pairs=[[0, 1], [1, 3], [2, 3]])
  add('case_categorical', n=3, units=1, omin=0.0, omax=1.0, init='constant', pairs=[[0, 2]])
  add('case_categorical', n=3, units=1, omin=None, omax=None, init='uniform', pairs=[[1, 0]])
  if tier == 'thorough':
    add('case_lattice_linear', sizes=[4, 3, 2], units=2, mono=[1, 0, 0], uni=[0, 1, 0], omin=-1.0, omax=2.5, init='linear_initializer')
    add('case_lattice_random', sizes=[2, 3, 2], units=1, mono=[1, 1, 1], omin=0.0, omax=1.0, init='random_monotonic_initializer',
        max_schedules=60, seed=seed, required=False)
  return out
