#!/usr/bin/env python3
"""Regenerates /verif/MANIFEST.json from the table below (kept in one place so the
manifest is valid at all times)."""
import json
import os

ROOT = os.path.dirname(os.path.dirname(os.path.abspath(__file__)))

E1 = 'symgraph'
CHECKS = {
    'C01': dict(
        engine=E1, design_ref='DESIGN.md 3/C01',
        technique='bounded symbolic execution of the traced TF graph of LatticeConstraints/finalize_constraints + z3 (QF_LRA after fraction lifting); sat witnesses replayed on the real code',
        text='For every enumerated lattice configuration the solver decides, over ALL real kernels, that the strict '
             'constraint output satisfies every monotonicity/Edgeworth/trapezoid/bound inequality and that feasible '
             'kernels are returned unchanged. Bounded in configuration (shapes, units, trust combinations), unbounded in '
             'the kernel values.',
        note='Real arithmetic instead of IEEE floats; TF op semantics as implemented in vf/interp.py (validated against '
             'TensorFlow on concrete points per case); z3 soundness; reference predicates vf/specs.py.'),
    'C04': dict(
        engine=E1, design_ref='DESIGN.md 3/C04',
        technique='bounded symbolic execution of the traced TF graph of PWLCalibrationConstraints (Dykstra while-loop unrolled exactly, then _finalize_constraints) + z3 over rational-function terms; witnesses replayed on the real code',
        text='For every enumerated calibrator configuration (monotonicity x convexity x bounds x clamps x keypoints x '
             'spacing x iterations) the solver decides over ALL real kernels that the returned kernel is exactly monotone, '
             'within bounds, convex/concave and clamped as promised (minus the two tolerated relaxations) and that feasible '
             'kernels are unchanged; NaiveBoundsConstraints likewise for the missing-value output.',
        note='Real arithmetic; TF op semantics per vf/interp.py (validated per case); z3 soundness; two-stage verdict '
             '(exact, then margin 1/64 on |w|<=64) so that only violations surviving rounding are reported.'),
    'C06': dict(
        engine=E1, design_ref='DESIGN.md 3/C06',
        technique='bounded symbolic execution of the traced TF graphs of LinearConstraints / CategoricalCalibrationConstraints over every DAG on <=4 nodes up to isomorphism + z3 (QF_LRA; r^2=x contract for the L2 norm)',
        text='For every partial order on up to 4 (thorough: 5) elements and every enumerated monotonicity / range / '
             'normalisation / bound setting, the solver decides over ALL real weight matrices that signs, every ordering '
             'pair, every monotonic- and range-dominance inequality, bounds and the unit norm hold after the constraint, '
             'and that feasible weights are unchanged.',
        note='Real arithmetic; Sqrt modelled by its defining contract; L2-norm queries are stretch (inconclusive allowed).'),
    'C02': dict(
        engine=E1, design_ref='DESIGN.md 3/C02',
        technique='bounded symbolic execution of the traced TF graph of Lattice.call per lattice cell (and per coordinate order for simplex; unforced casts/sorts split the case) + z3 polynomial identities (QF_NRA); witnesses replayed',
        text='For every enumerated lattice shape/unit/input form the solver decides over ALL real kernels and input points that '
             'the layer output equals the reference multilinear / sorted-simplex interpolation in every cell (closed boundaries, '
             'ties, outermost edge as their own cases), that weights are a convex combination, that simplex and hypercube agree on '
             'edges, and directly on the code that monotone / Edgeworth kernels give monotone / trust-respecting functions.',
        note='Real arithmetic; TF top_k tie rule and float->int truncation as implemented in vf/interp.py (validated); z3.'),
    'C05': dict(
        engine=E1, design_ref='DESIGN.md 3/C05',
        technique='bounded symbolic execution of the traced TF graphs of PWLCalibration.call/keypoints_* and CategoricalCalibration.call + z3 (bilinear identities; softmax by contract); witnesses replayed',
        text='For every enumerated calibrator configuration the solver decides over ALL real kernels, logits and inputs that the '
             'output is the piecewise-linear interpolation through (keypoints_inputs, keypoints_outputs), constant outside, cyclic '
             'closing, missing-value replacement, ordered learned keypoints; categorical: every index (enumerated) maps to its row.',
        note='Real arithmetic; softmax contract (positive, sums to 1).'),
    'C07': dict(
        engine=E1, design_ref='DESIGN.md 3/C07',
        technique='bounded symbolic execution of the constraint objects attached by the real KroneckerFactoredLattice.build composed with KroneckerFactoredLattice.call in both update orders + z3 QF_NRA; witnesses replayed',
        text='For every enumerated KFL configuration (incl. no monotonicity, all bound modes) the solver decides over ALL raw '
             'kernels, scales and input pairs that after the constraints (either order, or finalize_constraints) the output is '
             'monotone in declared dimensions and within bounds. Two-term / two-sided-bound cases are stretch (NRA).',
        note='Real arithmetic; dims-th root by contract r^k=x; inconclusive stretch queries are reported, not counted.'),
    'C08': dict(
        engine=E1, design_ref='DESIGN.md 3/C08',
        technique='bounded symbolic execution of project_by_dykstra (loop unrolled), of its loop-body function from an arbitrary symbolic state, of every _project_partial_* and of the PWL projection + z3 QF_LRA; oracles: textbook half-space projection, telescoping invariant, KKT point',
        text='Feasible kernels are fixed points (N=1..3 and inductively via the loop state), every group projection equals the exact '
             'Euclidean projection onto its disjoint half-spaces, the loop body satisfies the Dykstra recurrence, and on small '
             'lattices (or 4-coordinate slices of 8-weight lattices) the violation / distance to the true KKT projection after N '
             'iterations stays below calibrated thresholds for every kernel in the unit box.',
        note='Limit statement rests on the Boyle-Dykstra theorem (cited); thresholds in vf/props/c08_thresholds.json are 2x the '
             'solver-computed suprema of the unchanged tree.'),
    'C20': dict(
        engine=E1, design_ref='DESIGN.md 3/C20',
        technique='bounded symbolic execution of the traced TF graph of Linear.call + z3 (bilinear identity and consequences)',
        text='For every enumerated Linear configuration the solver decides over ALL kernels, biases and inputs that the output is '
             'b_u + sum_i k[i,u] clip(x_i), and that constraint-satisfying weights give monotone, dominance-respecting, '
             'weighted-average behaviour.',
        note='Real arithmetic.'),
    'C09': dict(
        engine=E1, design_ref='DESIGN.md 3/C09',
        technique='two bounded symbolic executions of the same real object on related symbolic tensors (multi-unit vs single column, batch vs single row) + z3 equality queries (rewriter normal form for identical polynomials)',
        text='For every enumerated layer/constraint configuration the solver decides over ALL kernels and inputs that the weight '
             'constraint of a multi-unit kernel equals the constraint applied to each column alone (Lattice, PWL, categorical, '
             'Linear, KFL kernel+scale), that unit outputs depend only on their own parameters, and that each batch row of every '
             'layer, cdf_fn, pwl_calibration_fn and a premade model is independent of the other rows.',
        note='Real arithmetic; stubs for softmax/sigmoid/exp/log/root shared between the two executions.'),
    'C13': dict(
        engine=E1, design_ref='DESIGN.md 3/C13',
        technique='bounded symbolic execution of the Keras regularizer objects + z3 polynomial identities against the documented sums',
        text='For every enumerated shape / amount configuration the solver decides over ALL real kernels that the lattice Laplacian '
             'and torsion and the PWL Laplacian, Hessian and wrinkle regularizers equal the documented sums (incl. cyclic wrap-around '
             'and per-dimension amounts), are additive in l1/l2 and vanish on the documented null spaces.',
        note='Real arithmetic; non-negativity with squares follows from the identity with a sum of non-negative terms.'),
    'C19': dict(
        engine=E1, design_ref='DESIGN.md 3/C19',
        technique='tf.GradientTape traced to a graph, executed symbolically; z3 polynomial identities against analytic derivatives; zero patterns as case assumptions',
        text='The hand-written gradient of custom_reduce_prod equals dy * prod_{j!=i} x_j for every input with every pattern of exact '
             'zeros along the reduced axis (length 2-4) and every upstream gradient; KFL layer gradients w.r.t. kernel, scale, input '
             'equal the analytic derivatives inside each cell; d out / d kernel of Lattice, PWLCalibration, CategoricalCalibration is '
             'the interpolation-weight tensor, free of kernel variables, non-negative and summing to one for Lattice.',
        note='TF autodiff of primitive ops is trusted; only differentiability points.'),
    'C10': dict(
        engine=E1, design_ref='DESIGN.md 3/C10',
        technique='real initializer objects traced and executed by the graph interpreter (exact rationals); RandomUniform -> symbolic samples, symbolic sort network, np.random.shuffle enumerated; z3 for the random initializers, assert_constraints and constraint fixed point',
        text='For every enumerated layer configuration the initial weights (for ALL uniform samples and ALL shuffles of the random '
             'initializers) are monotone, inside the initialisation range, pass the layer\'s own assert_constraints and are left '
             'unchanged by the weight constraint; deterministic initializers are evaluated exactly against the documented shape.',
        note='Deterministic initializers have no symbolic input: those obligations are ground (interpreter = exact evaluation).'),
    'C12': dict(
        engine=E1, design_ref='DESIGN.md 3/C12',
        technique='symbolic execution of each layer\'s assert_constraints graph; passes(w) = conjunction of its tf.Assert predicates; z3 decides soundness per covered constraint kind and completeness; twin models additionally run on the real code in eager mode',
        text='For Lattice, RTL, PWLCalibration, Linear, CategoricalCalibration and KFL the solver decides over ALL weight tensors that '
             'a violation of any covered constraint by more than 2*eps (at any location/unit/pair) makes assert_constraints fail and '
             'that weights feasible with margin eps pass (eps in {2^-10, 1/4}).',
        note='Real arithmetic; violations between eps and 2 eps are neither required to pass nor to fail.'),
    'C14': dict(
        engine=E1, design_ref='DESIGN.md 3/C14',
        technique='pairs of traced TF graphs executed symbolically on related symbolic parameters; equality by z3 (rewriter polynomial normal form per lattice cell, QF_NRA otherwise); shared softmax/sigmoid contract stubs',
        text='KFL equals the dense Lattice built from its factors in every cell; pwl_calibration_fn equals PWLCalibration(learned_interior) '
             'fed the derived parameters; cdf_fn equals CDF (mean/none); ParallelCombination equals column-wise calibrators; Aggregation '
             'equals the per-example mean for enumerated row-length patterns; RTL equals gathering its recorded indices into its lattices.',
        note='Real arithmetic; ragged row lengths are enumerated, values symbolic.'),
    'C15': dict(
        engine=E1, design_ref='DESIGN.md 3/C15',
        technique='bounded symbolic execution of pwl_calibration_fn, cdf_fn and CDF.call (after the real NonNeg constraint) with free-form symbolic parameters; softmax/sigmoid/exp/log contract stubs; z3',
        text='For every enumerated mode the solver decides over ALL parameter tensors and inputs that pwl_calibration_fn outputs stay in '
             'bounds, are non-decreasing when increasing, hit clamps, close cycles and map missing inputs to the missing output, that '
             'the documented call forms trace, and that CDF / cdf_fn outputs are in [0,1] and non-decreasing in every input.',
        note='Contracts: softmax positive summing to 1 and order preserving; sigmoid in (0,1), exp > 0, log: monotone.'),
    'C03': dict(
        engine=E1, design_ref='DESIGN.md 3/C03',
        technique='whole real premade / stacked Keras models traced and executed symbolically; every trainable variable symbolic and assumed to satisfy the reference predicates of ITS OWN attached constraint object (history reduction through the Keras constraint contract + C01/C04/C06/C07); z3 QF_NRA for two input points',
        text='For a catalogue of 12 models (calibrated linear, calibrated lattice with PWL/categorical/output calibration/KFL, ensembles '
             'explicit / rtl_layer / linear combination, hand stacks) the solver decides over ALL constraint-satisfying weights and ALL '
             'input pairs that the output is monotone as configured, respects categorical pairs and stays inside the output bounds. '
             'Ensemble and output-calibration models are stretch in the quick tier (NRA), decided piecewise in the thorough tier.',
        note='Keras applies constraints after each update and restores weights exactly (assumed); weights predicates are those decided by C01/C04/C06/C07.'),
    'C11': dict(
        engine=E1, design_ref='DESIGN.md 3/C11', category='model_checking',
        technique='config round trip executed on a catalogue with every constructor argument non-default (ground); functional half: original and rebuilt layer/model both traced, same symbolic weights, z3 decides equality of outputs and of weight constraints',
        text='For every public class with get_config the rebuilt object has an equal config and loses no constructor argument; for 10 '
             'layer configurations and 4 premade models the rebuilt object has the same variables and, for ALL weights and inputs, '
             'identical outputs and identical weight-constraint results.',
        note='The structural half is plain execution (no numeric quantifier); checkpoint file formats are assumed to restore values exactly.'),
    'C16': dict(
        engine=E1, design_ref='DESIGN.md 3/C16',
        technique='constructor cross products executed (ValueError = rejected); for every accepted configuration symbolic execution with fraction lifting and z3 decides that no output can be undefined; synonyms by equality of traced graphs; CrossHair on canonicalize_*',
        text='A table of 44 must-reject situations is rejected up front; for ~400 accepted Lattice/PWL/Linear/categorical/KFL configurations '
             'over small argument domains (incl. equal bounds, zero input ranges, cyclic orderings) the weight constraint and forward pass '
             'are total for ALL finite weights and inputs; synonymous spellings give identical behaviour.',
        note='Overflow is outside; argument domains are small and enumerated.'),
    'C17': dict(
        engine='crosshair-ast', design_ref='DESIGN.md 3/C17',
        technique='CrossHair (symbolic execution of Python with z3, "Confirmed over all paths") on the real structure builders cut out of /repo with ast, RNG replaced by symbolic permutations/choices; Crystals on the symreal path-forking executor with symbolic scores',
        text='For the bounded feature/lattice counts, EVERY shuffle / choice sequence yields an RTL arrangement, random ensemble and pairs '
             'cover with the stated invariants (rank filled, every feature used, usage counts within one, monotone wiring, no repeats, '
             'all pairs covered); Crystals: for ALL non-negative torsion/Laplacian scores every lattice has exactly lattice_rank features.',
        note='RNG contract: shuffle returns a permutation, choice returns element(s) of its argument.'),
    'C18': dict(
        engine='symreal', design_ref='DESIGN.md 3/C18',
        technique='the real compute_keypoints / _weighted_quantile run on a path-forking executor over z3 reals with a validated NumPy model bound to the installed NumPy signatures; after exhausting all paths z3 decides the postcondition per path',
        text='For all real data arrays of length 2-4(5), symbolic positive weights, clip bounds and default value, both modes and '
             'reductions, num_keypoints 2-4: keypoints are strictly increasing, inside the clipped range with the right end points, of '
             'the right count, and no exception escapes (incl. API drift of the installed NumPy).',
        note='Exact real arithmetic for quantile positions; concrete quantile grids use NumPy float rounding.'),
}

NOT_YET = 'check not built yet in this round (work in progress, see DESIGN.md)'


def main():
  props = [json.loads(l) for l in open(os.path.join(ROOT, 'properties.jsonl'))]
  checks = []
  na = []
  for p in props:
    pid = p['id']
    c = CHECKS.get(pid)
    if c is None:
      na.append(dict(property_id=pid, reason=NA.get(pid, NOT_YET)))
      continue
    checks.append(dict(
        property_id=pid,
        quick_cmd='./check %s --tier quick' % pid,
        thorough_cmd='./check %s --tier thorough' % pid,
        evidence_file='evidence/%s.json' % pid,
        replay_cmd_template='./check %s --replay {path}' % pid,
        engine=c['engine'],
        level_claimed=dict(category=c.get('category', 'model_checking'), text=c['text'], design_ref=c['design_ref']),
        level_note=c['note'],
        technique=c['technique']))
  man = dict(
      version=1,
      setup_cmd='bash ./setup.sh',
      hooks=dict(guard='TENSORFLOW_LATTICE_VERIF',
                 enable='no source hooks are needed: checks import tensorflow_lattice from /repo and trace it from outside; the variable is exported by ./check for uniformity',
                 baseline_off_cmd='cd /repo && /venv/bin/python -m pytest -ra -q -p no:cacheprovider --timeout=900 --continue-on-collection-errors',
                 source_commits=[], add_only=True),
      engines=[
          dict(name='symgraph', path='vf/interp.py', serves_properties=sorted(k for k, v in CHECKS.items() if v['engine'] == E1),
               kind_free_text='symbolic interpreter for TensorFlow graphs traced from the real tensorflow_lattice code (numpy object arrays of z3 terms / exact rationals, fraction lifting, contract stubs) + z3'),
          dict(name='crosshair-ast', path='vf/e2', serves_properties=sorted(k for k, v in CHECKS.items() if v['engine'] == 'crosshair-ast') + ['C16'],
               kind_free_text='CrossHair symbolic execution of pure-Python functions cut out of /repo with ast; RNG replaced by symbolic permutations'),
          dict(name='symreal', path='vf/e3', serves_properties=sorted(k for k, v in CHECKS.items() if v['engine'] == 'symreal'),
               kind_free_text='path-forking executor over z3 Reals with a validated pure-Python NumPy model, for NumPy-on-floats code'),
      ],
      checks=checks,
      notes='All checks: exit 0 held / 1 VIOLATION (replayed on the real code first) / 3 harness error. Known findings: known_findings.json.',
      not_applicable=na)
  with open(os.path.join(ROOT, 'MANIFEST.json'), 'w') as f:
    json.dump(man, f, indent=1)
  print('MANIFEST.json: %d checks, %d not_applicable' % (len(checks), len(na)))


NA = {}

if __name__ == '__main__':
  main()
