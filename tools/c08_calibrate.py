#!/verif/.venv/bin/python
"""Calibrates the bounded-convergence thresholds of C08 on the current tree (run once, on the unchanged tree, by
hand; the result vf/props/c08_thresholds.json is committed and never written by a check).

For each small family and iteration count N the solver finds, on the dyadic grid 2^-k, the smallest tau for which
'for all kernels in the unit box: <quantity> <= tau' is unsat-of-negation; the stored threshold is 2x that value,
so that the check does not sit on a knife edge but a change that slows or breaks convergence is still seen."""
import json
import os
import sys
import multiprocessing as mp
from fractions import Fraction

sys.path.insert(0, os.path.dirname(os.path.dirname(os.path.abspath(__file__))))
os.environ.setdefault('TF_CPP_MIN_LOG_LEVEL', '3')


def work(args):
  tag, f, N, kind = args
  import numpy as np
  import z3
  import tensorflow as tf
  from vf import sym, specs, core
  from vf.core import Traced
  from vf.props import c08
  from tensorflow_lattice.python import lattice_lib as ll, lattice_layer as LL
  sizes = list(f['sizes'])
  n = int(np.prod(sizes))
  fam = c08._fam(f)
  cons_fn = lambda w: c08.all_cons(np.asarray(w, dtype=object).reshape(n, 1), sizes, 1, f)
  norms = c08.normals(cons_fn, (n,))
  if kind == 'strict':
    con = LL.LatticeConstraints(lattice_sizes=sizes, num_projection_iterations=N, enforce_strict_monotonicity=True, **fam)
    tr = Traced(lambda w: con(w), [tf.TensorSpec([n, 1], tf.float32)])
  else:
    tr = Traced(lambda w: ll.project_by_dykstra(w, sizes, num_iterations=N, **fam), [tf.TensorSpec([n, 1], tf.float32)])
  sym.new_ctx()
  w = c08._slice_sym(n, f.get('free'))
  (out,) = tr.sym_run(w)
  boxc = core.box(w, -1, 1)
  extra = []
  if kind == 'viol':
    cons = c08.all_cons(out, sizes, 1, f)
    mk = lambda tau: core.any_of(specs.violated(cons, tau))
  elif kind in ('dist', 'strict'):
    xs, kk = c08.kkt_point(list(w.reshape(-1)), norms)
    extra = kk
    mk = lambda tau: core.far_arrays(out.reshape(-1), np.array(xs, dtype=object), tau)
  else:
    (out2,) = tr.sym_run(out)
    mk = lambda tau: core.far_arrays(out2, out, tau)
  best = None
  for k in range(-1, 9):
    tau = Fraction(1, 2 ** k) if k >= 0 else Fraction(2)
    s = z3.Solver()
    s.set('timeout', int(os.environ.get('C08_CAL_TIMEOUT', '60')) * 1000)
    s.add(*boxc)
    s.add(*extra)
    s.add(mk(tau))
    r = s.check()
    if r == z3.unsat:
      best = tau
    else:
      break
  return tag, N, kind, None if best is None else str(best * 2)


def main():
  from vf.props import c08
  jobs = []
  only = sys.argv[1:]
  for f in c08.CONV:
    f = dict(f)
    tag = f.pop('tag')
    if only and tag.split('@')[0] not in only and tag not in only:
      continue
    for N in (f.pop('slice_iters', None) or (1, 2, 4, 8, 16)):
      jobs.append((tag, f, N, 'viol'))
      if f.get('nearest', True):
        jobs.append((tag, f, N, 'dist'))
      jobs.append((tag, f, N, 'idem'))
    if f.get('nearest', True) and not f.get('free'):
      jobs.append((tag, f, 8, 'strict'))
  out = c08.load_thresholds() if only else {}
  with mp.get_context('fork').Pool(12) as pool:
    for tag, N, kind, val in pool.imap_unordered(work, jobs):
      print(tag, N, kind, val, flush=True)
      d = out.setdefault(tag, {})
      if kind == 'strict':
        d['strict'] = val
      else:
        d.setdefault(kind, {})[str(N)] = val
  # keep only meaningful thresholds (<= 1 on the unit box)
  for tag, d in out.items():
    for kind in ('viol', 'dist', 'idem'):
      d[kind] = {k: v for k, v in d.get(kind, {}).items() if v is not None and Fraction(v) <= 1}
    if d.get('strict') is not None and Fraction(d['strict']) > 1:
      d['strict'] = None
  with open(c08.THRESH_FILE, 'w') as fh:
    json.dump(out, fh, indent=1, sort_keys=True)


if __name__ == '__main__':
  main()
