#!/bin/bash
# usage: try_seed_wt.sh <patch.diff> <check-id> [extra args]   -- like try_seed.sh, but the change is applied to a scratch
# worktree of /repo's HEAD (under /tmp, removed afterwards) and the check is pointed at it with VERIF_REPO, so /repo itself is
# never modified and several changes can be tried at the same time.
P=$(readlink -f "$1"); shift; ID=$1; shift
WT=$(mktemp -d /tmp/wt_try_XXXXXX)
rmdir $WT
git -C /repo worktree add --detach $WT HEAD -q || exit 9
( cd $WT && git apply "$P" ) || { echo "patch does not apply"; git -C /repo worktree remove --force $WT; exit 9; }
cd /verif && VERIF_REPO=$WT ./check $ID --no-evidence "$@" 2>&1 | cut -c1-400 | grep -v "^INCONCLUSIVE" | tail -12
RC=${PIPESTATUS[0]}
git -C /repo worktree remove --force $WT
echo "seed rc=$RC"
