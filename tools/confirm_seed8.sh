#!/bin/bash
# usage: confirm_seed8.sh <ID> <name>  -- like confirm_seed.sh, but in a worktree of its own (/tmp/wt8c_<ID>) so that it can
# run while the seeding agent still uses /tmp/wt8_<ID>; deliverables are read from /tmp/seeds8/<ID>.
ID=$1; NAME=$2
WT=/tmp/wt8c_$ID; SRC=/tmp/seeds8/$ID; DST=/verif/seeded/$NAME
mkdir -p $DST
cp $SRC/patch.diff $SRC/demo.py $DST/
git -C /repo worktree add -q --detach $WT HEAD || exit 9
cd $WT || exit 9
git apply $DST/patch.diff || { echo "patch does not apply"; exit 9; }
PYTHONPATH=$WT /venv/bin/python $DST/demo.py > $DST/demo_with.log 2>&1; RC_WITH=$?
/tmp/seedtools/run_baseline.sh $WT > $DST/baseline_with.log 2>&1; RC_BASE=$?
git checkout -q -- .
PYTHONPATH=$WT /venv/bin/python $DST/demo.py > $DST/demo_without.log 2>&1; RC_WITHOUT=$?
echo "$RC_WITH $RC_WITHOUT $RC_BASE $(grep -m1 'stable tests' $DST/baseline_with.log)" > $DST/confirm.txt
sed -i -e 's/^/  /' $DST/demo_with.log; tail -c 600 $DST/demo_with.log > $DST/demo_with.tail; mv $DST/demo_with.tail $DST/demo_with.log
rm -f $DST/demo_without.log
git -C /repo worktree remove --force $WT
cat $DST/confirm.txt
